// Package evid collects what a check run actually covered (cases, distinct non-trivial cases, class
// histogram, samples, exclusions) and writes one stats file per shard; bin/check merges them into
// /verif/evidence/<id>.json. It also writes replay files for violations and reads known_findings.txt.
package evid

import (
	"bufio"
	"encoding/binary"
	"encoding/json"
	"fmt"
	"hash/fnv"
	"os"
	"path/filepath"
	"sort"
	"strconv"
	"strings"
	"sync"
)

type Run struct {
	mu        sync.Mutex
	Prop      string
	Shard     int
	Tier      string
	Seed      uint64
	outDir    string
	replayDir string

	evals      int64
	hashes     map[uint64]struct{}
	classes    map[string]int64
	excluded   map[string]int64
	samples    []any
	sampleSeen int64
	exhaustive map[string]int64 // name -> size of the completely enumerated part
	notes      []string
	violations []Violation
	known      map[string]bool // open known-finding slugs
}

type Violation struct {
	Replay string `json:"replay"`
	Msg    string `json:"msg"`
}

const maxSamples = 6

// New reads VERIF_OUT (directory for stats), VERIF_SHARD, VERIF_TIER, VERIF_SEED, VERIF_REPLAY_DIR, VERIF_KNOWN.
func New(prop string) *Run {
	r := &Run{Prop: prop, hashes: map[uint64]struct{}{}, classes: map[string]int64{}, excluded: map[string]int64{},
		exhaustive: map[string]int64{}, known: map[string]bool{}}
	r.outDir = os.Getenv("VERIF_OUT")
	r.replayDir = os.Getenv("VERIF_REPLAY_DIR")
	if r.replayDir == "" {
		r.replayDir = filepath.Join(os.TempDir(), "verif-replays", prop)
	}
	r.Shard, _ = strconv.Atoi(os.Getenv("VERIF_SHARD"))
	r.Tier = os.Getenv("VERIF_TIER")
	if r.Tier == "" {
		r.Tier = "quick"
	}
	r.Seed, _ = strconv.ParseUint(os.Getenv("VERIF_SEED"), 10, 64)
	if kf := os.Getenv("VERIF_KNOWN"); kf != "" {
		if f, err := os.Open(kf); err == nil {
			sc := bufio.NewScanner(f)
			for sc.Scan() {
				line := strings.TrimSpace(sc.Text())
				if !strings.HasPrefix(line, "open:") {
					continue
				}
				var p, id string
				for _, w := range strings.Fields(line) {
					if strings.HasPrefix(w, "property=") {
						p = strings.TrimPrefix(w, "property=")
					}
					if strings.HasPrefix(w, "id=") {
						id = strings.TrimPrefix(w, "id=")
					}
				}
				if p == prop && id != "" {
					r.known[id] = true
				}
			}
			f.Close()
		}
	}
	return r
}

func (r *Run) Thorough() bool { return r.Tier == "thorough" }

// Pick returns q in the quick tier and th in the thorough tier.
func (r *Run) Pick(q, th int) int {
	if r.Thorough() {
		return th
	}
	return q
}

// Open reports whether the known-findings file lists an open finding with this id for this property. Generators
// exclude the matching class only while it is open.
func (r *Run) Open(id string) bool { return r.known[id] }

func Hash(parts ...any) uint64 {
	h := fnv.New64a()
	for _, p := range parts {
		switch v := p.(type) {
		case []byte:
			var l [8]byte
			binary.LittleEndian.PutUint64(l[:], uint64(len(v)))
			h.Write(l[:])
			h.Write(v)
		case string:
			var l [8]byte
			binary.LittleEndian.PutUint64(l[:], uint64(len(v)))
			h.Write(l[:])
			h.Write([]byte(v))
		default:
			fmt.Fprintf(h, "%v|", v)
		}
	}
	return h.Sum64()
}

// Case records one evaluated case. key is the hash of its canonical form; nontrivial per the property's rule.
func (r *Run) Case(nontrivial bool, key uint64, classes ...string) {
	r.mu.Lock()
	r.evals++
	if nontrivial {
		r.hashes[key] = struct{}{}
	}
	for _, c := range classes {
		r.classes[c]++
	}
	r.mu.Unlock()
}

// Class bumps a class counter without counting an evaluation.
func (r *Run) Class(c string, n int64) {
	r.mu.Lock()
	r.classes[c] += n
	r.mu.Unlock()
}

func (r *Run) Excluded(name string) {
	r.mu.Lock()
	r.excluded[name]++
	r.mu.Unlock()
}

// Exhaustive declares that the named finite sub-domain was enumerated completely (n elements).
func (r *Run) Exhaustive(name string, n int64) {
	r.mu.Lock()
	r.exhaustive[name] += n
	r.mu.Unlock()
}

func (r *Run) Note(s string) {
	r.mu.Lock()
	r.notes = append(r.notes, s)
	r.mu.Unlock()
}

// Sample offers a case for the sample list (deterministic reservoir: first few, then every power of two).
func (r *Run) Sample(v any) {
	r.mu.Lock()
	defer r.mu.Unlock()
	r.sampleSeen++
	n := r.sampleSeen
	if len(r.samples) < maxSamples/2 {
		r.samples = append(r.samples, v)
		return
	}
	if n&(n-1) == 0 { // power of two: replace round-robin in the second half
		if len(r.samples) < maxSamples {
			r.samples = append(r.samples, v)
		} else {
			idx := maxSamples/2 + int(bitsLen(uint64(n)))%(maxSamples-maxSamples/2)
			r.samples[idx] = v
		}
	}
}

func bitsLen(x uint64) (n int) {
	for ; x != 0; x >>= 1 {
		n++
	}
	return
}

// Violation writes the case as a replay file (overwriting the shard's previous one, so that after rapid's
// shrinking the file holds the minimal case) and records it. It returns the path.
func (r *Run) Violation(c any, msg string) string {
	r.mu.Lock()
	defer r.mu.Unlock()
	os.MkdirAll(r.replayDir, 0o755)
	path := filepath.Join(r.replayDir, fmt.Sprintf("%s-seed%d-shard%d.json", r.Tier, r.Seed, r.Shard))
	b, err := json.MarshalIndent(map[string]any{"property": r.Prop, "msg": msg, "case": c}, "", " ")
	if err != nil {
		b = []byte(fmt.Sprintf(`{"property":%q,"msg":%q,"case_unmarshalable":%q}`, r.Prop, msg, err.Error()))
	}
	os.WriteFile(path, b, 0o644)
	r.violations = []Violation{{Replay: path, Msg: msg}}
	r.flushLocked()
	return path
}

// ViolationNamed is Violation with a distinct file name (for enumerations that may find several).
func (r *Run) ViolationNamed(name string, c any, msg string) string {
	r.mu.Lock()
	defer r.mu.Unlock()
	os.MkdirAll(r.replayDir, 0o755)
	path := filepath.Join(r.replayDir, fmt.Sprintf("%s-seed%d-shard%d-%s.json", r.Tier, r.Seed, r.Shard, name))
	b, _ := json.MarshalIndent(map[string]any{"property": r.Prop, "msg": msg, "case": c}, "", " ")
	os.WriteFile(path, b, 0o644)
	if len(r.violations) < 20 {
		r.violations = append(r.violations, Violation{Replay: path, Msg: msg})
	}
	r.flushLocked()
	return path
}

type stats struct {
	Prop       string           `json:"prop"`
	Shard      int              `json:"shard"`
	Evals      int64            `json:"evaluations"`
	Classes    map[string]int64 `json:"classes"`
	Excluded   map[string]int64 `json:"excluded"`
	Samples    []any            `json:"samples"`
	Exhaustive map[string]int64 `json:"exhaustive"`
	Notes      []string         `json:"notes"`
	Violations []Violation      `json:"violations"`
	NHashes    int              `json:"n_hashes"`
}

func (r *Run) Flush() {
	r.mu.Lock()
	defer r.mu.Unlock()
	r.flushLocked()
}

func (r *Run) flushLocked() {
	if r.outDir == "" {
		return
	}
	os.MkdirAll(r.outDir, 0o755)
	st := stats{r.Prop, r.Shard, r.evals, r.classes, r.excluded, r.samples, r.exhaustive, r.notes, r.violations, len(r.hashes)}
	b, err := json.Marshal(st)
	if err != nil { // a sample that cannot be marshalled must not lose the counts
		st.Samples = []any{fmt.Sprintf("unmarshalable sample: %v", err)}
		b, _ = json.Marshal(st)
	}
	hs := make([]uint64, 0, len(r.hashes))
	for h := range r.hashes {
		hs = append(hs, h)
	}
	sort.Slice(hs, func(i, j int) bool { return hs[i] < hs[j] })
	hb := make([]byte, 8*len(hs))
	for i, h := range hs {
		binary.LittleEndian.PutUint64(hb[8*i:], h)
	}
	os.WriteFile(filepath.Join(r.outDir, fmt.Sprintf("hashes-%d.bin", r.Shard)), hb, 0o644)
	tmp := filepath.Join(r.outDir, fmt.Sprintf("stats-%d.json.tmp", r.Shard))
	os.WriteFile(tmp, b, 0o644)
	os.Rename(tmp, filepath.Join(r.outDir, fmt.Sprintf("stats-%d.json", r.Shard)))
}

// LoadReplay reads a replay file written by Violation (or a pinned one) into c.
func LoadReplay(path string, c any) error {
	b, err := os.ReadFile(path)
	if err != nil {
		return err
	}
	var w struct {
		Case json.RawMessage `json:"case"`
	}
	if err := json.Unmarshal(b, &w); err != nil {
		return err
	}
	if w.Case == nil {
		return json.Unmarshal(b, c)
	}
	return json.Unmarshal(w.Case, c)
}
