// evmerge counts the distinct 64-bit hashes in the sorted hashes-*.bin files of a directory (k-way merge).
package main

import (
	"bufio"
	"encoding/binary"
	"fmt"
	"io"
	"os"
	"path/filepath"
)

type src struct {
	r   *bufio.Reader
	cur uint64
	ok  bool
}

func (s *src) next() {
	var b [8]byte
	if _, err := io.ReadFull(s.r, b[:]); err != nil {
		s.ok = false
		return
	}
	s.cur, s.ok = binary.LittleEndian.Uint64(b[:]), true
}

func main() {
	files, _ := filepath.Glob(filepath.Join(os.Args[1], "hashes-*.bin"))
	var srcs []*src
	for _, f := range files {
		fh, err := os.Open(f)
		if err != nil {
			continue
		}
		s := &src{r: bufio.NewReaderSize(fh, 1<<16)}
		s.next()
		if s.ok {
			srcs = append(srcs, s)
		}
	}
	var n uint64
	var last uint64
	first := true
	for len(srcs) > 0 {
		mi := 0
		for i, s := range srcs {
			if s.cur < srcs[mi].cur {
				mi = i
			}
		}
		v := srcs[mi].cur
		if first || v != last {
			n++
			last, first = v, false
		}
		srcs[mi].next()
		if !srcs[mi].ok {
			srcs = append(srcs[:mi], srcs[mi+1:]...)
		}
	}
	fmt.Println(n)
}
