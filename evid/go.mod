module verif/evid

go 1.23
