package c14

import (
	"fmt"
	"strings"

	"pgregory.net/rapid"
)

// model of a generated schema (what the text says, by construction)
type mparam struct {
	Name, Type string
	Vec, Opt   bool
	Bit        int
	Comment    string
}
type mdef struct {
	Name    string
	ID      uint32
	Params  []mparam
	Res     string
	ResVec  bool
	Fn      bool
	Comment string
}

var prims = []string{"int", "long", "double", "string", "bytes", "Bool"}

var goKeywords = map[string]bool{"break": true, "default": true, "func": true, "interface": true, "select": true, "case": true, "defer": true, "go": true, "map": true, "struct": true,
	"chan": true, "else": true, "goto": true, "package": true, "switch": true, "const": true, "fallthrough": true, "if": true, "range": true, "type": true, "continue": true,
	"for": true, "import": true, "return": true, "var": true, "c": true}

var idCounter uint32

func commentText(t *rapid.T, label string) string {
	s := rapid.OneOf(
		rapid.SampledFrom([]string{"Does things", "See [docs](https://core.telegram.org/api#x) for `details`", "100% \"quoted\" text with 'apostrophes'", "a */ b /* c // d", "unicode: привет, 世界 🙂",
			"back\\slash and %d %s verbs", "tabs\tinside", "trailing spaces   ", "@param not a real one", "{braces} <angles> & ampersands", "x"}),
		rapid.StringMatching(`[A-Za-z0-9 ,.!?:;()\[\]{}<>@#$%^&*+=|~'"\x60/\\-]{1,60}`),
	).Draw(t, label)
	s = strings.TrimSpace(s)
	// Pre: an annotation text does not itself start like a Go comment (jennifer would copy it verbatim)
	for strings.HasPrefix(s, "//") || strings.HasPrefix(s, "/*") {
		s = strings.TrimSpace(s[2:])
	}
	if s == "" {
		s = "x"
	}
	return s
}

// genSchema draws a schema in the documented TL subset together with its model.
func genSchema(t *rapid.T, allowBoolAndEnumResults bool) (string, []mdef, map[string]bool) {
	feats := map[string]bool{}
	idCounter++
	base := idCounter << 10
	k := uint32(0)
	nextID := func() uint32 { k++; return base | k }
	nTypes := rapid.IntRange(1, 6).Draw(t, "ntypes")
	type tinfo struct {
		name string
		enum bool
	}
	types := make([]tinfo, nTypes)
	for i := range types {
		n := fmt.Sprintf("T%c%d", 'A'+i, i)
		if rapid.Bool().Draw(t, "plainname") {
			// a capital and small letters, as most types of the shipped schemas (Null, Peer, Error): the constructor "named like
			// its type" then differs from it by the case of the first letter only
			n = fmt.Sprintf("%s%d", []string{"Alpha", "Box", "Null", "Peer", "Error", "Ty", "VectorClock", "Vectors", "Flags", "Intent", "Booleans", "True"}[rapid.IntRange(0, 11).Draw(t, "tname")], i)
		}
		if rapid.IntRange(0, 2).Draw(t, "ns") == 0 {
			n = rapid.SampledFrom([]string{"ns.", "messages.", "a1."}).Draw(t, "nsname") + n
			feats["namespace"] = true
		}
		types[i] = tinfo{name: n, enum: rapid.IntRange(0, 3).Draw(t, "enum") == 0}
	}
	typeName := func(label string) string { return types[rapid.IntRange(0, nTypes-1).Draw(t, label)].name }
	anyType := func() string {
		if rapid.Bool().Draw(t, "prim") {
			return rapid.SampledFrom(prims).Draw(t, "p")
		}
		feats["object-typed-parameter"] = true
		return typeName("tn")
	}
	paramName := func(i int) string {
		n := rapid.OneOf(rapid.Just(fmt.Sprintf("p%d_x", i)), rapid.StringMatching(`[a-z][a-z0-9]{0,5}(_[a-z0-9]{1,4}){0,2}`), rapid.SampledFrom([]string{"id", "url", "api_id", "user_id", "error", "errors", "q", "c", "type", "range", "func", "map", "reflect", "tl", "hash", "p2p_allowed", "sha256", "err", "resp", "ok", "response_data", "data", "params", "vector_of", "flags_v", "int_value", "string_value"})).Draw(t, "pname")
		if n == "flags" || n == "crc" || n == "flag_index" {
			// Pre: no parameter is named like a method every generated struct has (CRC, FlagIndex); no shipped schema has one.
			// Found by the thorough tier (a drawn name "crc": "field and method with the same name CRC"); kept out of the domain
			n = n + "_v"
		}
		return n
	}
	genParams := func() []mparam {
		n := rapid.IntRange(0, 6).Draw(t, "np")
		var ps []mparam
		used := map[string]bool{}
		flagsAt := -1
		if n > 0 && rapid.IntRange(0, 2).Draw(t, "hasflags") > 0 {
			flagsAt = rapid.IntRange(0, n-1).Draw(t, "flagsat")
			if flagsAt > 0 {
				feats["flags-not-first"] = true
			}
		}
		bitsUsed := map[int]bool{}
		for i := 0; i < n; i++ {
			if i == flagsAt {
				ps = append(ps, mparam{Name: "flags", Type: "#"})
			}
			p := mparam{Name: paramName(i)}
			// Pre: two parameters of one definition do not differ only by underscores / case (they would become the
			// same Go identifier); no shipped schema has such a pair
			norm := func(s string) string { return strings.ToLower(strings.ReplaceAll(s, "_", "")) }
			for used[norm(p.Name)] {
				p.Name += "q"
			}
			used[norm(p.Name)] = true
			if flagsAt >= 0 && i >= flagsAt && rapid.Bool().Draw(t, "opt") {
				p.Opt = true
				if len(bitsUsed) > 0 && rapid.IntRange(0, 3).Draw(t, "share") == 0 {
					for b := range bitsUsed {
						p.Bit = b
						break
					}
					// map order is random: pick deterministically the smallest used bit instead
					min := 32
					for b := range bitsUsed {
						if b < min {
							min = b
						}
					}
					p.Bit = min
					feats["shared-bit"] = true
				} else {
					p.Bit = rapid.OneOf(rapid.IntRange(0, 31), rapid.SampledFrom([]int{0, 1, 31})).Draw(t, "bit")
				}
				bitsUsed[p.Bit] = true
				if rapid.IntRange(0, 3).Draw(t, "true") == 0 {
					p.Type = "true"
					ps = append(ps, p)
					continue
				}
			}
			p.Type = anyType()
			p.Vec = rapid.IntRange(0, 3).Draw(t, "vec") == 0
			if p.Vec {
				feats["vector-parameter"] = true
			}
			if rapid.IntRange(0, 3).Draw(t, "pcomment") == 0 {
				p.Comment = commentText(t, "pc")
			}
			ps = append(ps, p)
		}
		// Pre: a flags word is only declared when at least one parameter is conditional on it (as in every shipped schema)
		if flagsAt >= 0 && len(bitsUsed) == 0 {
			last := &ps[len(ps)-1]
			last.Opt, last.Bit = true, rapid.IntRange(0, 31).Draw(t, "forcedbit")
		}
		return ps
	}
	var defs []mdef
	for _, ti := range types {
		nc := rapid.IntRange(1, 4).Draw(t, "nctor")
		for c := 0; c < nc; c++ {
			short := ti.name
			ns := ""
			if i := strings.LastIndex(short, "."); i >= 0 {
				ns, short = short[:i+1], short[i+1:]
			}
			lower := ns + strings.ToLower(short[:1]) + short[1:]
			d := mdef{Name: fmt.Sprintf("%sCtor%d", lower, c), ID: nextID(), Res: ti.name}
			if c == 0 && rapid.IntRange(0, 3).Draw(t, "clash") == 0 {
				d.Name = lower // constructor named like its type
				feats["constructor-named-like-type"] = true
			}
			if !ti.enum {
				d.Params = genParams()
			} else {
				feats["enum-type"] = true
			}
			if rapid.IntRange(0, 2).Draw(t, "ccomment") == 0 {
				d.Comment = commentText(t, "cc")
			}
			defs = append(defs, d)
		}
		if nc == 1 && !ti.enum {
			feats["single-constructor-type"] = true
		}
		if nc > 1 && !ti.enum {
			feats["multi-constructor-type"] = true
		}
	}
	// a type whose constructors all happen to have no parameters is an enum too
	isEnum := map[string]bool{}
	for _, ti := range types {
		isEnum[ti.name] = true
	}
	for _, d := range defs {
		if len(d.Params) > 0 {
			isEnum[d.Res] = false
		}
	}
	// the constructors of a type need not stand next to each other in a schema file (api_23.tl and the e2e schemas mix
	// them): one schema in three is written in a drawn order
	if len(defs) >= 3 && rapid.IntRange(0, 2).Draw(t, "interleave") == 0 {
		for i := len(defs) - 1; i > 0; i-- {
			j := rapid.IntRange(0, i).Draw(t, "perm")
			defs[i], defs[j] = defs[j], defs[i]
		}
		seen, last := map[string]bool{}, ""
		for _, d := range defs {
			if d.Res != last && seen[d.Res] {
				feats["constructors-of-a-type-not-adjacent"] = true
			}
			seen[d.Res], last = true, d.Res
		}
	}
	nf := rapid.IntRange(0, 4).Draw(t, "nf")
	for i := 0; i < nf; i++ {
		d := mdef{Name: fmt.Sprintf("%scall%d", rapid.SampledFrom([]string{"", "fn.", "messages."}).Draw(t, "fns"), i), ID: nextID(), Fn: true, Params: genParams()}
		switch rapid.IntRange(0, 5).Draw(t, "reskind") {
		case 0:
			d.Res = "Bool"
		case 1:
			d.Res = rapid.SampledFrom([]string{"int", "long", "string"}).Draw(t, "vprim")
			d.ResVec = true
		default:
			d.Res = typeName("res")
			d.ResVec = rapid.IntRange(0, 3).Draw(t, "rv") == 0
		}
		if !allowBoolAndEnumResults && (d.Res == "Bool" || (isEnum[d.Res] && !d.ResVec)) {
			feats["excluded:bool-or-enum-result"] = true
			// replace by an object result that is not an enum, if any
			d.Res, d.ResVec = "", false
			for _, ti := range types {
				if !isEnum[ti.name] {
					d.Res = ti.name
					break
				}
			}
			if d.Res == "" {
				continue
			}
		}
		switch {
		case d.Res == "Bool":
			feats["function-returning-Bool"] = true
		case d.ResVec:
			feats["function-returning-vector"] = true
		case isEnum[d.Res]:
			feats["function-returning-enum"] = true
		default:
			feats["function-returning-object"] = true
		}
		if rapid.Bool().Draw(t, "mcomment") {
			d.Comment = commentText(t, "mc")
		}
		defs = append(defs, d)
	}
	var sb strings.Builder
	inFn := false
	lastType := ""
	if rapid.Bool().Draw(t, "typesheader") {
		sb.WriteString("---types---\n")
	}
	// one schema in three has a line of 64 KiB or more (a long documentation text) somewhere in its first half
	longAt := -1
	if len(defs) >= 2 && rapid.IntRange(0, 2).Draw(t, "longline") == 0 {
		longAt = rapid.IntRange(0, len(defs)/2).Draw(t, "longat")
		feats["line>=64KiB"] = true
	}
	for di, d := range defs {
		if d.Fn && !inFn {
			sb.WriteString("\n---functions---\n")
			inFn = true
		}
		if !d.Fn && d.Res != lastType {
			lastType = d.Res
			if rapid.Bool().Draw(t, "tcomment") {
				fmt.Fprintf(&sb, "\n// @type %s\n", commentText(t, "tc"))
			}
		}
		if di == longAt {
			d.Comment = strings.Repeat("long text ", 6600+rapid.IntRange(0, 400).Draw(t, "longlen"))
		}
		if d.Comment != "" {
			switch {
			case d.Fn:
				fmt.Fprintf(&sb, "// @method %s\n", d.Comment)
			case isEnum[d.Res] && rapid.Bool().Draw(t, "enumkw"):
				fmt.Fprintf(&sb, "// @enum %s\n", d.Comment)
			default:
				fmt.Fprintf(&sb, "// @constructor %s\n", d.Comment)
			}
		}
		for _, p := range d.Params {
			if p.Comment != "" {
				fmt.Fprintf(&sb, "// @param %s %s\n", p.Name, p.Comment)
			}
		}
		fmt.Fprintf(&sb, "%s#%x", d.Name, d.ID)
		for _, p := range d.Params {
			ty := p.Type
			if p.Vec {
				ty = "Vector<" + ty + ">"
			}
			if p.Opt {
				ty = fmt.Sprintf("flags.%d?%s", p.Bit, ty)
			}
			fmt.Fprintf(&sb, " %s:%s", p.Name, ty)
		}
		res := d.Res
		if d.ResVec {
			res = "Vector<" + res + ">"
		}
		fmt.Fprintf(&sb, " = %s;\n", res)
	}
	out := sb.String()
	if rapid.IntRange(0, 3).Draw(t, "lastline") == 0 {
		// the file ends with a comment line, and - as editors leave it half of the time - without a final newline
		out += "// end of schema"
		feats["last-line-is-a-comment-without-newline"] = true
	}
	return out, defs, feats
}
