package c14

import (
	"bytes"
	"encoding/json"
	"fmt"
	"os"
	"os/exec"
	"path/filepath"
	"regexp"
	"runtime"
	"runtime/debug"
	"sort"
	"strings"
	"testing"
	"time"

	"github.com/xelaj/mtproto/internal/cmd/tlgen/gen"
	"github.com/xelaj/mtproto/internal/cmd/tlgen/tlparser"
	"pgregory.net/rapid"
	"verif/evid"
)

var run = evid.New("C14")

func TestMain(m *testing.M) {
	code := m.Run()
	run.Flush()
	os.Exit(code)
}

// Case: the schema text (self-contained replay) or the name of a shipped schema file.
type Case struct {
	Schema string `json:",omitempty"`
	File   string `json:",omitempty"` // shipped file under schemes/
	Stage  string // parse | generate | determinism | compile | declares | totality
}

func repoDir() string {
	if r := os.Getenv("VERIF_REPO"); r != "" {
		return r
	}
	return "/repo"
}

func verifRoot() string {
	if r := os.Getenv("VERIF_ROOT"); r != "" {
		return r
	}
	return "/verif"
}

func safely(f func() error) (err error) {
	defer func() {
		if r := recover(); r != nil {
			var frames []string
			for _, l := range strings.Split(string(debug.Stack()), "\n") {
				if strings.Contains(l, "tlgen/") && !strings.Contains(l, "verifh") {
					frames = append(frames, strings.TrimSpace(l))
				}
			}
			if len(frames) > 5 {
				frames = frames[:5]
			}
			err = fmt.Errorf("PANIC: %v | %s", r, strings.Join(frames, " | "))
		}
	}()
	return f()
}

// oracle 1: the parser extracts exactly the declared names, ids, parameters and result types.
func parseAgainstModel(text string, defs []mdef) (*tlparser.Schema, error) {
	var sch *tlparser.Schema
	err := safely(func() error {
		var e error
		sch, e = tlparser.ParseSchema(text)
		return e
	})
	if err != nil {
		return nil, fmt.Errorf("parser refuses a schema of the documented subset: %v", err)
	}
	var wantObj, wantFn []mdef
	for _, d := range defs {
		if d.Fn {
			wantFn = append(wantFn, d)
		} else {
			wantObj = append(wantObj, d)
		}
	}
	if len(sch.Objects) != len(wantObj) || len(sch.Methods) != len(wantFn) {
		return nil, fmt.Errorf("parser found %d constructors and %d functions, the schema declares %d and %d", len(sch.Objects), len(sch.Methods), len(wantObj), len(wantFn))
	}
	cmp := func(kind, name string, id uint32, ps []tlparser.Parameter, res string, resVec bool, d mdef) error {
		if name != d.Name || id != d.ID || res != d.Res || resVec != d.ResVec {
			return fmt.Errorf("%s parsed as name=%q id=%x result=%q vector=%v, declared name=%q id=%x result=%q vector=%v", kind, name, id, res, resVec, d.Name, d.ID, d.Res, d.ResVec)
		}
		if len(ps) != len(d.Params) {
			return fmt.Errorf("%s %s: %d parameters parsed, %d declared", kind, name, len(ps), len(d.Params))
		}
		for i, p := range ps {
			w := d.Params[i]
			wt := w.Type
			if wt == "#" {
				wt = "bitflags"
			}
			if p.Name != w.Name || p.Type != wt || p.IsVector != w.Vec || p.IsOptional != w.Opt || (w.Opt && p.BitToTrigger != w.Bit) {
				return fmt.Errorf("%s %s parameter %d parsed as %+v, declared %+v", kind, name, i, p, w)
			}
		}
		return nil
	}
	for i, o := range sch.Objects {
		if err := cmp("constructor", o.Name, o.CRC, o.Parameters, o.Interface, false, wantObj[i]); err != nil {
			return nil, err
		}
	}
	for i, m := range sch.Methods {
		if err := cmp("function", m.Name, m.CRC, m.Parameters, m.Response.Type, m.Response.IsList, wantFn[i]); err != nil {
			return nil, err
		}
	}
	return sch, nil
}

var genFiles = []string{"enums_gen.go", "types_gen.go", "interfaces_gen.go", "methods_gen.go", "init_gen.go"}

func generateInto(text, dir string) error {
	return safely(func() error {
		sch, err := tlparser.ParseSchema(text)
		if err != nil {
			return fmt.Errorf("parse: %v", err)
		}
		g, err := gen.NewGenerator(sch, "license header", dir)
		if err != nil {
			return err
		}
		return g.Generate()
	})
}

// sameParse: the schema is parsed once and that one object is generated from three times (a generator, a second
// generator, and the second generator again): what generating does to the parsed schema must not show in the next output.
func sameParse(text string, first map[string][]byte) error {
	return safely(func() error {
		sch, err := tlparser.ParseSchema(text)
		if err != nil {
			return fmt.Errorf("parse: %v", err)
		}
		check := func(dir, how string) error {
			for _, f := range genFiles {
				b, _ := os.ReadFile(filepath.Join(dir, f))
				if !bytes.Equal(b, first[f]) {
					return fmt.Errorf("%s differs from a generation of the freshly parsed text (%s: %d vs %d bytes)", f, how, len(b), len(first[f]))
				}
			}
			return nil
		}
		d0, _ := os.MkdirTemp("", "verif-c14-same-")
		defer os.RemoveAll(d0)
		d1, _ := os.MkdirTemp("", "verif-c14-same-")
		defer os.RemoveAll(d1)
		g0, err := gen.NewGenerator(sch, "license header", d0)
		if err != nil {
			return err
		}
		if err := g0.Generate(); err != nil {
			return fmt.Errorf("generation from a parsed schema fails: %v", err)
		}
		if err := check(d0, "first generation from the parsed schema"); err != nil {
			return err
		}
		g1, err := gen.NewGenerator(sch, "license header", d1)
		if err != nil {
			return fmt.Errorf("a second generator on the same parsed schema: %v", err)
		}
		if err := g1.Generate(); err != nil {
			return fmt.Errorf("a second generator on the same parsed schema fails: %v", err)
		}
		if err := check(d1, "a second generator on the same parsed schema"); err != nil {
			return err
		}
		if err := g1.Generate(); err != nil {
			return fmt.Errorf("the same generator run a second time fails: %v", err)
		}
		return check(d1, "the same generator run a second time")
	})
}

// oracle 2: generating twice from the same schema gives byte-identical files.
func deterministic(text, dir string) error {
	if err := generateInto(text, dir); err != nil {
		return fmt.Errorf("generator fails: %v", err)
	}
	first := map[string][]byte{}
	for _, f := range genFiles {
		b, err := os.ReadFile(filepath.Join(dir, f))
		if err != nil {
			return fmt.Errorf("generator did not write %s", f)
		}
		first[f] = b
	}
	// the second generation goes into an empty directory, into one that holds longer files of the same names (what a
	// generation from a bigger schema leaves behind), and into one that holds shorter ones
	for round, where := range []string{"an empty directory", "a directory holding longer files from an earlier generation", "a directory holding shorter files from an earlier generation"} {
		d2, _ := os.MkdirTemp("", "verif-c14-det-")
		for _, f := range genFiles {
			switch round {
			case 1:
				os.WriteFile(filepath.Join(d2, f), append(append([]byte{}, first[f]...), bytes.Repeat([]byte("\nvar _ = 0 // left over\n"), 400)...), 0o644)
			case 2:
				os.WriteFile(filepath.Join(d2, f), first[f][:len(first[f])/2], 0o644)
			}
		}
		err := generateInto(text, d2)
		if err == nil {
			for _, f := range genFiles {
				b, _ := os.ReadFile(filepath.Join(d2, f))
				if !bytes.Equal(b, first[f]) {
					err = fmt.Errorf("%s differs between two generations from the same schema (the second one into %s: %d vs %d bytes)", f, where, len(b), len(first[f]))
					break
				}
			}
		}
		os.RemoveAll(d2)
		if err != nil {
			return err
		}
	}
	return sameParse(text, first)
}

const clientStub = `package telegram

import tl "github.com/xelaj/mtproto/internal/encoding/tl"

type Client struct{}

func (c *Client) MakeRequest(msg tl.Object) (interface{}, error) { return nil, nil }
`

const mainTmpl = `package main

import (
	"encoding/json"
	"fmt"
	"os"
	"path/filepath"

	"github.com/xelaj/mtproto/internal/encoding/tl"
	"github.com/xelaj/mtproto/telegram/verifh/tls"
%s)

// compares, for every generated package of the batch, the registry it declares with an independent reading of
// its schema text
func main() {
	objs, enums := tl.VerifRegistry()
	out := map[string][]string{}
	dirs, _ := filepath.Glob(filepath.Join(os.Args[1], "g*"))
	claimed := map[uint32]bool{}
	for _, dir := range dirs {
		text, err := os.ReadFile(filepath.Join(dir, "schema.tl.txt"))
		if err != nil {
			continue
		}
		name := filepath.Base(dir)
		s, err := tls.ParseText(string(text), name+".tl")
		if err != nil {
			out[name] = []string{"INFRA: reference parser: " + err.Error()}
			continue
		}
		if _, err := os.Stat(filepath.Join(dir, "real-ids")); err == nil {
			s.SkipCRC = false
		}
		excluded := map[string]bool{}
		if b, err := os.ReadFile(filepath.Join(dir, "excluded-names")); err == nil {
			json.Unmarshal(b, &excluded)
		}
		keep := map[uint32]bool{}
		for _, d := range s.Defs {
			if d.HasID && !excluded[d.Name] {
				keep[d.ID] = true
				claimed[d.ID] = true
			}
		}
		r := tls.NewRegistry(objs, enums, func(id uint32) bool { return keep[id] })
		var ds []string
		for _, d := range s.Defs {
			if excluded[d.Name] {
				continue
			}
			for _, why := range tls.CompareDef(s, r, d) {
				ds = append(ds, d.Name+": "+why)
			}
		}
		out[name] = ds
	}
	for id, t := range objs {
		if !claimed[id] {
			out["_extra"] = append(out["_extra"], fmt.Sprintf("registered %%08x %%v is declared by no schema of the batch", id, t))
		}
	}
	json.NewEncoder(os.Stdout).Encode(out)
}
`

type batchItem struct {
	name string
	c    Case
}

// compileBatch writes the scratch module, builds it and runs the comparison program. It returns per-package
// problems: name -> (stage, message).
func compileBatch(root string, items []batchItem) (map[string][2]string, error) {
	var imports strings.Builder
	for _, it := range items {
		fmt.Fprintf(&imports, "\t_ \"github.com/xelaj/mtproto/verifscratch/%s\"\n", it.name)
		os.WriteFile(filepath.Join(root, it.name, "client_stub.go"), []byte(clientStub), 0o644)
	}
	os.MkdirAll(filepath.Join(root, "cmd"), 0o755)
	os.WriteFile(filepath.Join(root, "cmd", "main.go"), []byte(fmt.Sprintf(mainTmpl, imports.String())), 0o644)
	gomod := fmt.Sprintf(`module github.com/xelaj/mtproto/verifscratch

go 1.23

require (
	github.com/xelaj/mtproto v0.0.0
	github.com/xelaj/mtproto/telegram/verifh v0.0.0
)

replace github.com/xelaj/mtproto => %s

replace github.com/xelaj/mtproto/telegram/verifh => %s/harness

replace verif/evid => %s/evid
`, repoDir(), verifRoot(), verifRoot())
	os.WriteFile(filepath.Join(root, "go.mod"), []byte(gomod), 0o644)
	sum, _ := os.ReadFile(filepath.Join(verifRoot(), "harness", "go.sum"))
	os.WriteFile(filepath.Join(root, "go.sum"), sum, 0o644)
	env := append(os.Environ(), "GOFLAGS=-mod=mod", "GOPROXY=off", "GOSUMDB=off", "GOTOOLCHAIN=local", "CGO_ENABLED=0")
	problems := map[string][2]string{}
	// compile every package; collect compiler errors per package
	cmd := exec.Command("go", "build", "-tags", "verif", "./...")
	cmd.Dir, cmd.Env = root, env
	outb, err := cmd.CombinedOutput()
	if err != nil {
		re := regexp.MustCompile(`(?m)^(g[0-9a-z]+)/([a-z_]+\.go:\d+:\d+: .*)$`)
		found := false
		for _, m := range re.FindAllStringSubmatch(string(outb), -1) {
			found = true
			if _, dup := problems[m[1]]; !dup {
				problems[m[1]] = [2]string{"compile", "generated package does not compile: " + m[2]}
			}
		}
		if !found {
			return nil, fmt.Errorf("scratch module build failed outside the generated packages:\n%s", outb)
		}
	}
	// run the comparison with the packages that compile
	var okImports strings.Builder
	for _, it := range items {
		if _, bad := problems[it.name]; !bad {
			fmt.Fprintf(&okImports, "\t_ \"github.com/xelaj/mtproto/verifscratch/%s\"\n", it.name)
		} else {
			os.Rename(filepath.Join(root, it.name, "schema.tl.txt"), filepath.Join(root, it.name, "schema.tl.broken"))
		}
	}
	os.WriteFile(filepath.Join(root, "cmd", "main.go"), []byte(fmt.Sprintf(mainTmpl, okImports.String())), 0o644)
	cmd = exec.Command("go", "run", "-tags", "verif", "./cmd", root)
	cmd.Dir, cmd.Env = root, env
	var stdout, stderr bytes.Buffer
	cmd.Stdout, cmd.Stderr = &stdout, &stderr
	if err := cmd.Run(); err != nil {
		// a generated package that panics while registering (init) is that package's failure, if we can name it
		if m := regexp.MustCompile(`verifscratch/(g[0-9a-z]+)\.`).FindStringSubmatch(stderr.String()); m != nil {
			problems[m[1]] = [2]string{"declares", "generated package panics at start-up: " + firstLines(stderr.String(), 3)}
			return problems, nil
		}
		return nil, fmt.Errorf("comparison program failed: %v\n%s", err, firstLines(stderr.String(), 20))
	}
	var res map[string][]string
	if err := json.Unmarshal(stdout.Bytes(), &res); err != nil {
		return nil, fmt.Errorf("comparison program output: %v", err)
	}
	for name, ds := range res {
		if len(ds) > 0 {
			if strings.HasPrefix(ds[0], "INFRA:") {
				return nil, fmt.Errorf("%s: %s", name, ds[0])
			}
			problems[name] = [2]string{"declares", "generated package does not declare what the schema defines: " + strings.Join(ds, "; ")}
		}
	}
	return problems, nil
}

func firstLines(s string, n int) string {
	l := strings.Split(s, "\n")
	if len(l) > n {
		l = l[:n]
	}
	return strings.Join(l, " | ")
}

func TestC14(t *testing.T) {
	allowBoolEnum := !run.Open("method-emitter-bool-enum-result")
	if p := os.Getenv("VERIF_REPLAY"); p != "" {
		var c Case
		if err := evid.LoadReplay(p, &c); err != nil {
			t.Fatal(err)
		}
		run.Case(true, 1)
		run.Case(true, 2)
		if err := replay(c); err != nil {
			run.Violation(c, err.Error())
			t.Fatalf("replay fails: %v", err)
		}
		return
	}
	root, err := os.MkdirTemp("", "verif-c14-batch-")
	if err != nil {
		t.Fatal(err)
	}
	defer os.RemoveAll(root)
	var items []batchItem
	t.Run("generated", func(t *testing.T) {
		rapid.Check(t, func(t *rapid.T) {
			text, defs, feats := genSchema(t, allowBoolEnum)
			var cls []string
			nt := false
			for f := range feats {
				if strings.HasPrefix(f, "excluded:") {
					run.Excluded("method-emitter-bool-enum-result")
					continue
				}
				cls = append(cls, "feat:"+f)
				switch f {
				case "shared-bit", "flags-not-first", "constructor-named-like-type", "namespace", "function-returning-vector":
					nt = true
				}
			}
			run.Case(nt, evid.Hash(text), cls...)
			if len(text) < 700 {
				run.Sample(map[string]any{"schema": text})
			}
			c := Case{Schema: text, Stage: "parse"}
			if _, err := parseAgainstModel(text, defs); err != nil {
				p := run.Violation(c, err.Error())
				t.Fatalf("violation (replay %s): %v", p, err)
			}
			name := fmt.Sprintf("g%04d", len(items))
			dir := filepath.Join(root, name)
			os.MkdirAll(dir, 0o755)
			c.Stage = "determinism"
			if err := deterministic(text, dir); err != nil {
				os.RemoveAll(dir)
				p := run.Violation(c, err.Error())
				t.Fatalf("violation (replay %s): %v", p, err)
			}
			os.WriteFile(filepath.Join(dir, "schema.tl.txt"), []byte(text), 0o644)
			items = append(items, batchItem{name: name, c: Case{Schema: text}})
		})
	})
	if t.Failed() {
		return
	}
	t.Run("shipped", func(t *testing.T) {
		if run.Shard != 0 {
			return
		}
		// the schema shipped as the generator's input must be accepted: parse + generate (+ compile in the batch)
		b, err := os.ReadFile(filepath.Join(repoDir(), "schemes", "api_latest.tl"))
		if err != nil {
			t.Fatalf("INFRA: %v", err)
		}
		c := Case{File: "api_latest.tl", Stage: "parse"}
		run.Case(true, evid.Hash("api_latest.tl"), "shipped:api_latest.tl")
		dir := filepath.Join(root, "gshipped")
		os.MkdirAll(dir, 0o755)
		if err := deterministic(string(b), dir); err != nil {
			p := run.ViolationNamed("shipped-api_latest", c, "shipped generator input schemes/api_latest.tl is not accepted: "+err.Error())
			t.Errorf("violation (replay %s): %v", p, err)
			os.RemoveAll(dir)
		} else {
			os.WriteFile(filepath.Join(dir, "schema.tl.txt"), b, 0o644)
			os.WriteFile(filepath.Join(dir, "real-ids"), nil, 0o644)
			ex, _ := json.Marshal(map[string]bool{"true": true, "boolFalse": true, "boolTrue": true, "vector": true, "invokeAfterMsg": true, "invokeAfterMsgs": true, "initConnection": true,
				"invokeWithLayer": true, "invokeWithoutUpdates": true, "invokeWithMessagesRange": true, "invokeWithTakeout": true})
			os.WriteFile(filepath.Join(dir, "excluded-names"), ex, 0o644)
			items = append(items, batchItem{name: "gshipped", c: c})
		}
		// the other files under schemes/: totality of the parser only (no panic, no hang)
		files, _ := filepath.Glob(filepath.Join(repoDir(), "schemes", "*.tl"))
		sort.Strings(files)
		for _, f := range files {
			text, _ := os.ReadFile(f)
			done := make(chan error, 1)
			go func() {
				done <- safely(func() error { _, _ = tlparser.ParseSchema(string(text)); return nil })
			}()
			run.Case(true, evid.Hash("totality", f), "shipped:parser-totality")
			select {
			case err := <-done:
				if err != nil {
					cc := Case{File: filepath.Base(f), Stage: "totality"}
					p := run.ViolationNamed("totality-"+filepath.Base(f), cc, "parser panics on shipped schema "+filepath.Base(f)+": "+err.Error())
					t.Errorf("violation (replay %s): %v", p, err)
				}
			case <-time.After(120 * time.Second):
				buf := make([]byte, 1<<16)
				n := runtime.Stack(buf, true)
				if strings.Contains(string(buf[:n]), "tlparser.") {
					cc := Case{File: filepath.Base(f), Stage: "totality"}
					p := run.ViolationNamed("hang-"+filepath.Base(f), cc, "parser does not terminate on shipped schema "+filepath.Base(f))
					t.Errorf("violation (replay %s)", p)
				}
			}
		}
	})
	t.Run("compile-and-compare", func(t *testing.T) {
		if len(items) == 0 {
			return
		}
		problems, err := compileBatch(root, items)
		if err != nil {
			t.Fatalf("INFRA: %v", err)
		}
		run.Class("compiled-packages", int64(len(items)-len(problems)))
		for _, it := range items {
			if pr, bad := problems[it.name]; bad {
				c := it.c
				c.Stage = pr[0]
				p := run.ViolationNamed(it.name, c, pr[1])
				t.Errorf("violation (replay %s): %s", p, pr[1])
			}
		}
		if ex, ok := problems["_extra"]; ok {
			t.Errorf("INFRA? %v", ex)
		}
	})
}

// replay runs all stages for a single schema.
func replay(c Case) error {
	text := c.Schema
	root, err := os.MkdirTemp("", "verif-c14-replay-")
	if err != nil {
		return err
	}
	defer os.RemoveAll(root)
	dir := filepath.Join(root, "g0000")
	os.MkdirAll(dir, 0o755)
	if c.File != "" {
		b, err := os.ReadFile(filepath.Join(repoDir(), "schemes", c.File))
		if err != nil {
			return err
		}
		text = string(b)
		if c.Stage == "totality" {
			return safely(func() error { _, _ = tlparser.ParseSchema(text); return nil })
		}
	}
	if err := safely(func() error { _, e := tlparser.ParseSchema(text); return e }); err != nil {
		return fmt.Errorf("parser refuses the schema: %v", err)
	}
	if err := deterministic(text, dir); err != nil {
		return err
	}
	os.WriteFile(filepath.Join(dir, "schema.tl.txt"), []byte(text), 0o644)
	if c.File != "" {
		os.WriteFile(filepath.Join(dir, "real-ids"), nil, 0o644)
		ex, _ := json.Marshal(map[string]bool{"true": true, "boolFalse": true, "boolTrue": true, "vector": true, "invokeAfterMsg": true, "invokeAfterMsgs": true, "initConnection": true,
			"invokeWithLayer": true, "invokeWithoutUpdates": true, "invokeWithMessagesRange": true, "invokeWithTakeout": true})
		os.WriteFile(filepath.Join(dir, "excluded-names"), ex, 0o644)
	}
	problems, err := compileBatch(root, []batchItem{{name: "g0000", c: c}})
	if err != nil {
		return fmt.Errorf("INFRA: %v", err)
	}
	if pr, bad := problems["g0000"]; bad {
		return fmt.Errorf("%s", pr[1])
	}
	return nil
}
