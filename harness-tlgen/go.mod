module github.com/xelaj/mtproto/internal/cmd/tlgen/verifh

go 1.23

require (
	github.com/xelaj/mtproto/internal/cmd/tlgen v0.0.0
	pgregory.net/rapid v1.3.0
	verif/evid v0.0.0
)

require (
	github.com/dave/jennifer v1.4.1 // indirect
	github.com/iancoleman/strcase v0.1.2 // indirect
	github.com/k0kubun/pp v3.0.1+incompatible // indirect
	github.com/mattn/go-colorable v0.1.8 // indirect
	github.com/mattn/go-isatty v0.0.12 // indirect
	github.com/pkg/errors v0.9.1 // indirect
	github.com/xelaj/go-dry v0.0.0-20201114160035-4f99d0d557b8 // indirect
	golang.org/x/crypto v0.0.0-20201016220609-9e8e0b390897 // indirect
	golang.org/x/sys v0.0.0-20201029080932-201ba4db2418 // indirect
)

replace github.com/xelaj/mtproto/internal/cmd/tlgen => /repo/internal/cmd/tlgen

replace verif/evid => ../evid
