# Per-property configuration of bin/check: which harness package decides the property, how many shards and
# rapid cases per tier, the stated rule for a non-trivial case, and the classes a run must hit to be non-vacuous.
CHECKS = {
    'C05': dict(
        pkg='./c05', test='TestC05', level='exploration',
        level_text=('Generated and enumerated inputs compared with an independent textbook AES-IGE, the MTProto-1.0 KDF and a '
                    'conformant key-exchange peer; all wrapper payload lengths 0..600 (4096 thorough) x nonce leading-zero classes '
                    'are enumerated. Caller buffers are handed over as windows of larger arrays with sentinel bytes behind them, so a write into the spare '
                    'capacity is seen as well. Exploration is the right level: the domain is infinite but the failure classes (block chaining, '
                    'length residues, leading zeros) are reachable by construction.'),
        technique='property-based differential testing (rapid) + exhaustive enumeration of length residues against a reference AES-IGE',
        quick=dict(shards=4, checks=6000),
        thorough=dict(shards=16, checks=480000, budget_s=3000),
        rule=('rapid-generated + enumerated cases of three kinds: raw (32-byte key, 32-byte IV, input of 0..N bytes) compared '
              'block-by-block with a textbook AES-IGE written on crypto/aes, plus refusal of length 0 / non-multiples of 16 and '
              'caller-buffer immutability; msg (256-byte auth key, message) for the message-level wrapper in both directions '
              'against the MTProto-1.0 KDF; wrap (payload, new_nonce, server_nonce incl. leading zero bytes) for the key-exchange '
              'wrapper against a conformant peer. Non-trivial: raw input of >=3 blocks, msg of >=1 byte, every wrap case; '
              'distinct by hash of (kind,key,iv,data,nonces).'),
        must_hit=['wrap:nonce-is-zero', 'raw:blocks>=3', 'raw:refused-length', 'wrap:(20+len)%16=0', 'wrap:nonce-objects-reused-in-place', 'large-inputs>=2^12-blocks', 'wrap:new_nonce-leading-zero-bytes=1',
                  'wrap:server_nonce-leading-zero-bytes=1', 'msg:len%16=0', 'msg:len%16=15', 'concurrent:raw', 'concurrent:msg', 'concurrent:wrap'],
        assumptions=['crypto/aes single-block operations and crypto/sha1 of the Go standard library are correct',
                     'out-of-place use only (no caller of the cipher encrypts in place)',
                     'auth keys are 256 bytes; message-level wrapper messages have >=1 byte (every caller prepends a 32-byte header)'],
    ),
    'C03': dict(
        pkg='./c03', test='TestC03', level='exploration',
        quick=dict(shards=4, checks=5000, extra=[dict(test='TestC03Wire', checks=150, shards=4)]),
        thorough=dict(shards=16, checks=360000, budget_s=3000, extra=[dict(test='TestC03Wire', checks=6000, shards=8)]),
        level_text=('Differential check of the envelope in both directions against an independent MTProto-1.0 implementation '
                    '(KDF, AES-IGE, layout) acting as conformant server: generated keys/salts/ids/bodies plus every body length '
                    '0..1100 (0..65536 thorough) once per direction. At the socket: sequences of reference-sealed packets of one session, their msg_ids rising, falling, shuffled or repeated, are read through transport.ReadMsg over loopback TCP and each must come back as the message the key holder sealed; what the transport writes is opened by the reference.'),
        technique='property-based differential testing (rapid) against an independent MTProto 1.0 envelope implementation',
        rule=('cases = (direction c2s|s2c|plain, 256-byte auth key incl. all-zero/all-0xff/leading-zero keys, salt, session id, msg_id with the '
              "sender's parity, seq_no, ack flag, body of 0..65536 bytes); c2s: Encrypted.Serialize is opened by the reference server; s2c: a "
              'reference-sealed packet with 0-15 padding bytes is opened by DeserializeEncrypted; plain: exact byte layout. Non-trivial: '
              'body length > 0; distinct by hash of all inputs.'),
        must_hit=['c2s:len%%16=%d' % r for r in range(16)] + ['s2c:len%%16=%d' % r for r in range(16)] + ['c2s:ack=true', 'c2s:ack=false', 'c2s:seq_no>=2^31', 'c2s:derived-fields-stale', 'c2s:derived-fields-consistent', 'plain:len%16=0', 'concurrent:c2s', 'concurrent:s2c', 'wire', 'wire:msg_id-not-above-the-previous-one', 'wire:server-clock-after-2038', 'wire:client-writes', 'wire:order=redelivery'],
        assumptions=['crypto/aes, crypto/sha1 of the standard library', 'client seq_no counter is even and client msg_ids are multiples of 4 (as the client produces them)',
                     'padding content is not compared (the protocol leaves it free)'],
    ),
    'C04': dict(
        pkg='./c04', test='TestC04', level='fault_enumeration', helpers={'vdriver': './cmd/vdriver'},
        quick=dict(shards=4, checks=60, extra=[dict(test='TestC04Client', checks=30, shards=4), dict(test='TestC04Keys', checks=1, shards=2)]),
        thorough=dict(shards=12, checks=9000, budget_s=3000, fuzz=[dict(target='FuzzDeserialize', time='90s', wall=600)], extra=[dict(test='TestC04Client', checks=800, shards=4), dict(test='TestC04Keys', checks=1, shards=4)]),
        level_text=('Every generated valid packet is subjected to the enumerated fault list: all single-bit flips (exhaustive for packets '
                    '<= 256 bytes), all truncation lengths, extension, re-keying, reflection, garbage bodies, a receiver that has no session key yet, attacker-with-key declared '
                    'lengths {-2^31,-1,len-33..len+33,2^30,2^31-1}, wrong parity, inconsistent plain packets; the expected verdict is '
                    'computed by an independent reading of the four acceptance conditions.'),
        technique='fault enumeration over generated packets (rapid) with a reference acceptance decision',
        rule=('base = generated valid server->client packet (random 256-byte key, envelope fields, body 0..200 bytes quick / 0..2048 thorough); '
              'each base is evaluated under every fault of the list above; a case is (receiver key, bytes handed to DeserializeEncrypted / '
              'DeserializeUnencrypted). Non-trivial: the fault changes at least one byte; distinct by hash of (key, bytes).'),
        must_hit=['client:>=45-bad-packets-in-a-row', 'no-session-key', 'sessions-with-different-keys-at-once', 'flip:keyid', 'flip:msgkey', 'flip:ciphertext', 'trunc:8..23-with-valid-keyid', 'trunc:<8', 'trunc:>=24', 'attacker:L<0',
                  'attacker:L-just-above', 'attacker:L-huge', 'attacker:L-in-range', 'rekeyed', 'garbage', 'parity:low=10,negative=true', 'parity:low=00,negative=false', 'plain:parity:low=10,negative=true', 'plain:bad-length', 'plain:truncated-header', 'client:forged-plain-result', 'client:corrupted-result'] + ['client:mangled:' + k for k in ('flip', 'truncate', 'append', 'garbage', 'rekey', 'reflect', 'evenid', 'badlen')],
        assumptions=['the reference acceptance decision reads the statement literally: key id, msg_key over header+declared body, 0<=L<=data, server parity; '
                     'an attacker-with-key packet that satisfies all four is accepted (the statement allows it)'],
    ),
    'C20': dict(
        module='harness-deeplinks', pkg='./c20', test='TestC20', level='exploration',
        quick=dict(shards=4, checks=40000),
        thorough=dict(shards=16, checks=1200000, budget_s=3000, fuzz=[dict(target='FuzzResolve', time='120s')]),
        level_text=('Grammar-generated links over the statement\'s structured domain with an oracle for the asserted sub-domain, arbitrary '
                    'strings for totality, the full cross product scheme x host x port x path shape x tail enumerated, and (thorough) '
                    'coverage-guided native fuzzing for totality/determinism. The asserted links of a run are finally resolved from 8 goroutines at once: '
                    'each caller must get the answer for its own link.'),
        technique='property-based testing with a grammar generator (rapid) + enumerated cross product + native fuzzing (thorough)',
        rule=('links = scheme {"",http,https (any case),tg,ftp,ws,mailto,//} x host {5 reserved, look-alikes, upper-case, empty} x port x path shape '
              '{user,join,bare,slash,two,three,emptyjoin,trailing,doubleslash,escaped} over ASCII/Unicode names x tail; 10% arbitrary strings. '
              'Asserted: reserved host + http(s) or scheme-less without port -> /<name> = user lower-cased, /joinchat/<token> = invite, other '
              'shapes/hosts/schemes = error; accepted either way (totality only): upper-case hosts, percent-escapes, //host, scheme-less with port. '
              'Non-trivial: the string parses as a URL with non-empty host or path; distinct by hash of the link.'),
        must_hit=['asserted:user', 'asserted:join', 'asserted:err', 'totality-only', 'soup', 'path=bare', 'scheme=""', 'host=lookalike', 'concurrent:resolutions', 'exported-host-list-edited-by-caller'],
        assumptions=['net/url parsing of the standard library defines what host/path a link has', 'strings.ToLower defines lower-casing'],
    ),
    'C17': dict(
        pkg='./c17', test='TestC17', level='exploration', helpers={'vdriver': './cmd/vdriver'},
        quick=dict(shards=4, checks=25000, extra=[dict(test='TestC17Client', checks=25, shards=4)]),
        thorough=dict(shards=12, checks=6000000, budget_s=3000, extra=[dict(test='TestC17Client', checks=3000, shards=4)]),
        level_text=('Model-based: every generated (code, text) is compared with a restated model of the prefix/suffix table and the catalogue '
                    '(parsed from the text of errors.go only to know which names are documented); all catalogued names and 15 rows x 18 '
                    'parameters are enumerated. Client-level delivery/migration scenarios run against the reference server (see DESIGN).'),
        technique='model-based property testing (rapid) of the error mapping; scenario generation against a reference server for delivery and PHONE_MIGRATE',
        rule=('cases = (code int32, text) with text from: table row x parameter {int64 range, negative, 0, huge, empty, abc, 1e3, arabic digit, spaces, +5, 0x10, %d}, '
              'all catalogued names, near misses of rows, mutated names, arbitrary strings with % verbs. Non-trivial: text non-empty and one of '
              '{row match, known name, unknown text}; distinct by hash of (code,text).'),
        must_hit=['client:request-sent-on-by-the-data-centre-it-was-sent-to', 'client:migrate-while-session-storage-fails', 'client:rpc_error-inside-gzip_packed', 'client:other-migrate-error-naming-a-configured-data-centre', 'concurrent:evaluations', 'row:param-int', 'row:param-absent', 'row:param-non-numeric', 'row:param-out-of-range', 'row:param-negative', 'known-name',
                  'unknown-text', 'unknown-text-with-percent', 'client:errors', 'client:migrate', 'client:migrate-unconfigured', 'client:data-centre-known-to-another-client-only'] + ['row%02d' % i for i in range(15)],
        assumptions=['for a matching row whose parameter is not a decimal int the statement fixes only: no panic, Code kept; Message may be the text or the X form (accepted either way), "+5" likewise',
                     'the catalogue of documented descriptions is read from errors.go as data'],
    ),
    'C18': dict(
        pkg='./c18', test='TestC18', level='exploration',
        quick=dict(shards=16, checks=14),
        thorough=dict(shards=16, checks=320, budget_s=3000),
        level_text=('Every generated case runs the client computation (deterministic 4-argument variant through a tag-guarded export, or the public '
                    'telegram.GetInputCheckPassword with the client\'s own ephemeral) against an independent SRP-2048 server written from '
                    'core.telegram.org/api/srp that holds only (salts, g, p, verifier): the right password must verify, a neighbouring password must '
                    'not; corners (A, B, u, S starting with 1-2 zero bytes) are forced by walking exponents.'),
        technique='property-based testing (rapid) against a reference SRP server with forced leading-zero corners',
        rule=('case = (password: arbitrary Unicode 1..200 bytes, other password one edit away or unrelated, salts 0..64 bytes, g in {3,4,7}, server secret b, '
              'client secret a, forced corner in {none,A,B,u,S} x {1,2} zero bytes, B minimal-length or 256-byte, public or deterministic entry point, '
              'or an out-of-range B in {0,empty,p,p+1,short,long}, or the empty password). Every case is non-trivial (each costs two 100000-round PBKDF2); '
              'distinct by hash of all fields.'),
        must_hit={'quick': ['concurrent:evaluations', 'long-hash-input', 'corner:*', 'badB:*', 'g=3', 'g=4', 'g=7'],
                  'thorough': ['concurrent:evaluations', 'corner:A1', 'corner:B1', 'corner:u1', 'corner:S1', 'corner:A2', 'corner:B2', 'corner:1', 'public-api', 'empty-password',
                               'badB:zero', 'badB:p', 'badB:p+1', 'badB:short', 'badB:long', 'B-minimal-length']},
        assumptions=['group = Telegram\'s 2048-bit prime with g in {3,4,7} (the generators valid for it)', 'crypto/sha256, crypto/sha512, crypto/hmac, math/big of the standard library',
                     'the reference conventions reproduce the M1 recorded in the repository\'s 2fa_test.go (checked in bin/setup)'],
    ),
    'C12': dict(
        pkg='./c12', test='TestC12', level='exploration', helpers={'vdriver': './cmd/vdriver'},
        quick=dict(shards=8, checks=150, extra=[dict(test='TestC12Resume', checks=15, shards=4)]),
        thorough=dict(shards=12, checks=6000, budget_s=3000, extra=[dict(test='TestC12Resume', checks=300, shards=4)]),
        level_text=('Model-based state machine: generated histories of store/load/remove/tear operations on three path kinds are executed against the real '
                    'file store and an in-memory model (last store wins); tear enumerates every prefix length 0..n-1 of the file as a crash point.'),
        technique='model-based stateful property testing (rapid) with exhaustive crash-point (file prefix) enumeration per generated session',
        rule=('history = 1..14 operations over {storeA, storeFresh, storeSameTick (second store whose mtime equals the previous one, emulating coarse-timestamp '
              'filesystems), loadA, loadFresh, remove, tear (every prefix of the file)} on {absolute, relative, bare-file-name} paths; sessions with keys/hashes of '
              '0..300 arbitrary bytes, salts over all int64 classes, host names of arbitrary valid UTF-8 incl. JSON metacharacters. Non-trivial: a load after a '
              'second store, a torn file, a non-ASCII or metacharacter host, or a negative salt; distinct by hash of the history.'),
        must_hit=['resume:configured-via:both-absent', 'resume:configured-via:both-other', 'resume:configured-via:storage', 'concurrent-stores', 'load-store-race', 'op:tear', 'torn-file', 'load-after-second-store', 'load-after-same-tick-store', 'load-missing', 'path:bare', 'path:relative', 'path:absolute',
                  'host-non-ascii', 'host-json-metachar', 'salt-negative', 'op:remove', 'op:storeFresh', 'op:loadFresh', 'store-of-an-earlier-value', 'resume', 'resume-verdict:ok'],
        assumptions=['host names are valid UTF-8 (JSON cannot carry other byte strings)', 'the directory of the path exists',
                     'a crash during writing leaves a prefix of the new content (os.WriteFile truncates, then writes)',
                     'same-tick stores are emulated with os.Chtimes and only for stores through the loader that later loads'],
    ),
    'C08': dict(
        pkg='./c08', test='TestC08', level='exploration',
        quick=dict(shards=8, checks=150),
        thorough=dict(shards=16, checks=12000, budget_s=3000),
        level_text=('Format: generated message sequences through mode.New/WriteMsg and Detect/ReadMsg over an exact-count in-memory pipe are compared '
                    'byte-for-byte with a reference framer; every length 0..1024 step 4 per mode is enumerated. Segmentation: a listener plays a '
                    'reference-framed stream over real loopback TCP cut by a generated composition (every composition of short streams / of the first '
                    '10 (14) bytes exhaustively, random and 1-byte-at-a-time otherwise); transport.ReadMsg must return the same messages, signed error '
                    'codes, io.EOF at an orderly close, and the client\'s own writes are re-parsed byte-exactly by the listener.'),
        technique='property-based testing (rapid) + exhaustive enumeration of TCP write compositions against a reference framer over loopback TCP',
        rule=('format case = (mode, 1..8 message lengths from {0,4,..,around 127 words,..,2^16 (2^20 thorough)}); tcp case = (mode, 0..5 plain packets, optional 4-byte '
              'error frame with signed code, close at boundary/mid-message/none, composition of TCP write sizes, 0..3 messages written back); detect case = first '
              'bytes. Non-trivial: >=2 messages, a message of >=127 words, a cut inside a header, >=2 messages in one segment, or >8 segments; distinct by hash of the case.'),
        must_hit=['error-frame-followed-by-messages', 'client-writes-after-quiet-period>timeout', 'msg>=2^24bytes', 'client-writes-after-a-refused-write', 'kind:format', 'kind:tcp', 'kind:detect', 'abridged', 'intermediate', 'msg>=127words', 'msg>=2^16words', 'client-closes-right-after-writing', 'msg-at-127-word-switch', 'cut-inside-header',
                  'error-frame-negative', 'close:boundary', 'close:mid', 'client-writes', 'many-segments', 'msg-empty'],
        assumptions=['the kernel may coalesce separately written segments: that only weakens a case, it never falsifies one',
                     'message lengths are multiples of 4 (every MTProto packet is)', 'in-memory pipe honours the exact-count read contract that tcpConn.Read provides'],
    ),
    'C01': dict(
        pkg='./c01', test='TestC01', level='exploration',
        quick=dict(shards=4, checks=3000),
        thorough=dict(shards=16, checks=360000, budget_s=3000),
        level_text=('Registry-directed round trip: for every registered constructor, hand-written wrapper and enum member (found through a tag-guarded export of '
                    'the registry) values are built by reflection - all presence patterns of all multi-field flag groups enumerated, boundary string lengths, '
                    'nested interface/vector values, int/long/double extremes, 128/256-bit integers with leading zeros - and must survive Marshal -> Decode(named type) '
                    'and Marshal -> DecodeUnknownObject with TL equality, identical bytes on re-serialisation.'),
        technique='property-based round-trip testing (rapid) with a reflection-driven generator + exhaustive flag-group pattern enumeration',
        rule=('value = registered Go type x recorded builder choices (depth <= 3 quick / 6 thorough). Non-trivial: contains a multi-field group in present-mixed state, '
              'a boundary-length string (252..257, 65535..65536, 2^24-1), nesting depth >= 2, a vector of >= 2 elements, a 128/256-bit integer with a leading zero '
              'byte, or a non-finite/negative-zero double; distinct by hash of (type, choices).'),
        must_hit=['feat:gzip_packed-around-2^24-bytes', 'concurrent:evaluations', 'first-use-concurrent', 'feat:vector>=999', 'feat:group-present-mixed', 'feat:str-len-252..257', 'feat:vector>=2', 'feat:depth>=2', 'feat:int128/256-leading-zero', 'feat:double-nonfinite-or-negzero',
                  'feat:enum-member', 'feat:message-container', 'top-level-enum', 'feat:str-len%4=0', 'feat:str-len%4=1', 'feat:str-len%4=2', 'feat:str-len%4=3'],
        fold={'ctor:': ('constructors_covered', 1220), 'group:': ('flag_group_states_covered', 60)},
        assumptions=['values are canonical TL values: mandatory object fields non-nil, object/enum members of a present group non-nil, true-typed members equal the presence of their group',
                     'TL equality: nil == empty for byte strings and vectors; doubles by bits; -0.0 counts as zero for group presence',
                     'objects.GzipPacked and objects.MsgCopy are excluded while their known findings are open (counted in excluded_by_known_finding)'],
    ),
    'C13': dict(
        pkg='./c13', test='TestC13', level='translation_validation', helpers={'vdriver': './cmd/vdriver'},
        quick=dict(shards=1, checks=1, extra=[dict(test='TestC13Methods', checks=1, shards=2)]),
        thorough=dict(shards=1, checks=1, extra=[dict(test='TestC13Methods', checks=1, shards=16)]),
        level_text=('Part A (exhaustive differential): every definition of api_latest.tl (1195 + the 5 dormant header lines), the hand-written wrappers and the wire-used '
                    'definitions of mtproto.tl is compared with the registered Go type by an independent reading of the schema text: id written = CRC-32 of the '
                    'canonical line = CRC() of the type, field i <-> parameter i under a fixed type map, flag:N tags, encoded_in_bitflags, FlagIndex(), enum member sets, '
                    'interface implementer sets, and nothing registered beyond the schemas. Part B: every generated client method (343) is called end to end on a client built by telegram.NewClient against the '
                    'reference server: arguments are generated from the function\'s schema line and passed in schema parameter order, the request bytes must equal the '
                    'schema serialisation of those arguments (bool arguments alternate so that a swap shows), the server answers with a generated value of the declared '
                    'result type and the method must return exactly that value in the Go kind the schema implies.'),
        technique='exhaustive differential comparison of schema text vs registered Go types (translation validation); generated end-to-end method calls against a reference server',
        rule=('one case per schema definition in scope and one per registered constructor id; the whole finite set is enumerated on every run (no sampling). Non-trivial: the '
              'definition has at least one parameter / the id is registered; distinct by definition name.'),
        programs_class='programs',
        must_hit=['call-after-a-refused-call', 'zero-valued-scalar-arguments', 'exported-constant', 'same-method-from-4-goroutines-at-once', 'kind:function', 'kind:constructor', 'kind:enum-member', 'dormant-definition', 'hand-written-wrapper', 'has-conditional-fields', 'file:mtproto.tl', 'registered-id', 'method-call', 'second-call-on-the-same-client', 'result-kind:Bool', 'result-kind:vector', 'result-kind:object', 'args:positional'],
        assumptions=['the five commented-out header lines of api_121.tl ("these items exist in tl schema") count as definitions of the schema file; their ids are compared as written, the CRC-32 rule is not applied to them',
                     'msg_container and gzip_packed have hand-written (un)marshalers: only their ids are compared here, their wire behaviour in C02',
                     'invokeAfterMsg(s), invokeWithoutUpdates, invokeWithMessagesRange are documented as not implemented and are reported, not flagged'],
    ),
    'C02': dict(
        pkg='./c02', test='TestC02', level='exploration',
        quick=dict(shards=4, checks=2500),
        thorough=dict(shards=16, checks=120000, budget_s=3000),
        level_text=('Schema-directed differential: for every definition of api_latest.tl and the wire-used definitions of mtproto.tl an abstract value is generated '
                    'from the schema text, serialised by an independent TL encoder, bridged into the registered Go type by field position only, and (a) tl.Marshal '
                    'must produce exactly the reference bytes (or refuse a >= 2^24-byte string), (b) the reference bytes must decode (unknown object and named type) '
                    'to the bridged value. All flag presence patterns of every definition with <= 6 flag bits are enumerated.'),
        technique='schema-directed differential testing against an independent TL codec (rapid + exhaustive flag-pattern enumeration)',
        rule=('case = (definition, builder choices, forced flag pattern / string length). Non-trivial: the definition has >= 1 parameter and the value exercises a set flag bit, '
              'a string of >= 254 bytes, a vector of >= 2 elements or a nested object; distinct by hash of (definition, choices).'),
        must_hit=['feat:vector-of-1200-objects', 'concurrent:evaluations', 'feat:one-object-in-two-places', 'feat:packed-data>=2^24', 'feat:flag-bit-set', 'feat:string>=254', 'feat:vector>=2', 'feat:nested-object', 'feat:len-252..257', 'feat:len-0..5', 'feat:len-16777215', 'feat:len-16777216',
                  'direction:encode', 'direction:decode', 'def:special:container', 'def:special:gzip', 'def:special:vector'],
        fold={'def:': ('definitions_covered', 1225)},
        assumptions=['present groups have at least one non-zero member (a present group of only zero scalars cannot be expressed as a Go value: the library defines presence by non-zero members)',
                     'definitions whose id is not registered or whose Go type cannot hold the value are skipped and counted (they are reported by C13)',
                     'not wire-used and excluded: future_salts/future_salt, msg_copy/message, destroy_session*, rpc_drop_answer, get_future_salts, ping_delay_disconnect, http_wait'],
    ),
    'C15': dict(
        pkg='./c15', test='TestC15', level='exploration',
        quick=dict(shards=12, checks=2500),
        thorough=dict(shards=16, checks=150000, budget_s=3300,
                      fuzz=[dict(target='FuzzDecodeUnknown', time='120s', wall=600), dict(target='FuzzDecodeNamed', time='120s', wall=600)]),
        env={'VERIF_SHARD_AS': str(4 << 30)},
        inflight=True,
        level_text=('Structure-aware mutation of valid encodings of every registered constructor (truncation to any prefix, aligned words replaced by registered/enum/'
                    'special ids and boundary integers, vector counts and length bytes, splices, containers with hostile counts/sizes, gzip_packed with valid, truncated, '
                    'nested and garbage streams; constructors nested in themselves 999 to 100 000 (thorough: 1 000 000) levels deep, directly, through vectors and through gzip_packed) decoded as unknown object (with/without matching or mismatching vector hints) and into named types; every call must '
                    'return a value or an error, allocate <= 64*len+4 MiB (1 GiB with gzip) and terminate. Workers run under a 4 GiB address-space limit with the input '
                    'flushed to disk before each call, so an unrecoverable runtime abort is attributed to its input. Thorough adds two native fuzz targets.'),
        technique='structure-aware mutation fuzzing driven by rapid + exhaustive prefix truncation per constructor + native coverage-guided fuzzing (thorough)',
        rule=('case = (bytes, target: unknown object | named Go type, vector hints). Bytes come from valid encodings built by the C01 generator with 0..3 mutations, from '
              'hand-built containers / gzip_packed objects, or are byte soup. Non-trivial: at least one mutation or hostile construction was applied; distinct by hash of (bytes,target,hints).'),
        must_hit=['mut:deep-nesting', 'mut:deep-nesting>=20000', 'mut:deep-nesting:gzip_packed', 'first-use-concurrent', 'mut:nested-vectors', 'mut:vector-inside-vector', 'mut:truncate', 'mut:replace-word', 'mut:replace-constructor-id', 'mut:vector-count', 'mut:length-byte', 'mut:splice', 'mut:append', 'mut:container-counts-sizes',
                  'mut:gzip-valid', 'mut:gzip-truncated-stream', 'mut:gzip-garbage', 'mut:gzip-nested', 'mut:byte-soup', 'target:unknown-no-hints', 'target:unknown-with-hints',
                  'target:vector-with-hints', 'target:named-seed-type', 'target:named-other-type', 'seed:mtproto-object', 'seed:int128/256', 'outcome:decoded', 'outcome:refused-with-error'],
        assumptions=['hints are slice types (what generated methods pass)', 'allocation is measured with runtime/metrics /gc/heap/allocs:bytes around the call',
                     'a decode call still running after 30 s whose goroutine dump shows decoder frames is a hang (no case comes near: typical calls take microseconds)'],
    ),
    'C14': dict(
        module='harness-tlgen', pkg='./c14', test='TestC14', level='exploration',
        quick=dict(shards=4, checks=40, budget_s=900),
        thorough=dict(shards=16, checks=1200, budget_s=3300),
        level_text=('Grammar-generated schemas of the documented TL subset carry their own model: (1) tlparser.ParseSchema must extract exactly the declared names, ids, '
                    'parameters and result types; (2) generating four times from the text and three times from one parsed schema object gives byte-identical files, whether the output directory is empty or already holds longer or shorter files of the same names; (3) every generated package of a batch is compiled in a scratch '
                    'module; (4) a program linking the compiled packages compares the registry each declares with an independent reading of the schema text (same '
                    'comparison as C13: ids, field order/kinds, flag tags, FlagIndex, enum members, interface implementers); (5) the shipped schemes/api_latest.tl goes '
                    'through the same pipeline with its real ids; every other file under schemes/ is parsed for totality.'),
        technique='grammar-based property testing (rapid) of parser and generator with compile-and-compare translation validation per generated package',
        rule=('case = one generated schema (1..6 types incl. enums, single/multi-constructor types, constructor named like its type, namespaces, every primitive, flags word '
              'at any position, conditional parameters on bits 0..31 incl. shared bits and true, vectors of every element kind, recursive types, 0..4 functions returning '
              'objects, enums, Bool and vectors, @type/@constructor/@enum/@method/@param annotations with arbitrary text, parameter names incl. keywords/errors/c). '
              'Non-trivial: the schema has a shared bit, a flags word that is not first, a constructor named like its type, a namespace or a vector result; distinct by hash of the text.'),
        must_hit=['feat:last-line-is-a-comment-without-newline', 'feat:constructors-of-a-type-not-adjacent', 'feat:line>=64KiB', 'feat:shared-bit', 'feat:flags-not-first', 'feat:constructor-named-like-type', 'feat:namespace', 'feat:enum-type', 'feat:single-constructor-type', 'feat:multi-constructor-type',
                  'feat:function-returning-Bool', 'feat:function-returning-vector', 'feat:function-returning-object', 'feat:function-returning-enum', 'feat:vector-parameter',
                  'feat:object-typed-parameter', 'shipped:api_latest.tl', 'shipped:parser-totality', 'compiled-packages'],
        assumptions=['identifiers are snake_case words of letters and digits without empty segments (as in every shipped schema)',
                     'a flags word is declared only when at least one parameter is conditional on it (as in every shipped schema)',
                     'annotation texts do not themselves start with // or /* (the code generator library copies such texts verbatim)',
                     'for shipped files other than api_latest.tl only totality of the parser is asserted (mtproto.tl uses syntax outside the subset)'],
    ),
    'C06': dict(
        pkg='./c06', test='TestC06', level='exploration', helpers={'vdriver': './cmd/vdriver'},
        quick=dict(shards=8, checks=8, budget_s=1500, shrinktime='1s'),
        thorough=dict(shards=16, checks=1200, budget_s=3400, shrinktime='1s'),
        level_text=('Every case is a complete key exchange of the real client (fresh child process) against an independent, specification-following reference server '
                    'with generated parameters (RSA key from a pool, nonces, pq from three prime size classes, g in {3,4,7}, DH secrets, padding). Corners - each of nonce, '
                    'server_nonce, new_nonce, new_nonce_hash1, RSA ciphertext, g_a, g_b, g^ab starting with 1 (thorough: 2) zero bytes - are forced by searching inputs; client '
                    'draws are injected through tag-guarded hooks for the corners and left to the client in most random cases. Both sides must end with the same 256-byte key, '
                    'key id and salt, the session must be stored, and the first encrypted request must be readable by the server.'),
        technique='scenario-based property testing (rapid) against a reference MTProto server with search-forced numeric corners',
        rule=('case = key-exchange scenario (RSA-2048 key from a pool of 14 with public exponents 3, 17, 257, 49153, 65537, 2^24+43, 2^31-1; server_nonce, p<q primes, pq padding, g, server secret a, padding seed, optionally injected client nonce/new_nonce/b). '
              'Every completed run is non-trivial; classes record which field the server actually saw starting with zero bytes; distinct by hash of the scenario.'),
        must_hit=['rsa-public-exponent:1-bytes', 'rsa-public-exponent:2-bytes', 'rsa-public-exponent:3-bytes', 'rsa-public-exponent:4-bytes', 'server-clock-after-2038', 'reply-in-two-tcp-segments', 'second-attempt-after-refused-connection', 'fingerprints:known-key-first', 'fingerprints:known-key-last', 'fingerprints:known-key-in-the-middle', 'corner:nonce', 'corner:server_nonce', 'corner:new_nonce', 'corner:new_nonce_hash1', 'corner:rsa_ciphertext', 'corner:g_a', 'corner:g_b', 'corner:g_ab', 'corner:g_b:2', 'corner:g_a:2', 'corner:g_ab:2',
                  'draws:client-own', 'draws:injected', 'pq:above-2^63', 'pq:small', 'verdict:ok'],
        assumptions=['the reference server is conformant: it follows core.telegram.org/mtproto/auth_key with fixed-width values (self-consistent: it completes with the fixed client)',
                     'DH group = Telegram\'s 2048-bit safe prime', 'a connect that the server side had to abandon (recorded reason) is judged by that reason, never by elapsed time'],
    ),
    'C07': dict(
        pkg='./c07', test='TestC07', level='fault_enumeration', helpers={'vdriver': './cmd/vdriver'},
        quick=dict(shards=16, checks=3, budget_s=900),
        thorough=dict(shards=16, checks=1200, budget_s=3400),
        level_text=('An otherwise conformant key exchange (real client in a fresh process, reference server) is run with exactly one fault of the statement\'s list: nonce / '
                    'server_nonce echoed wrongly in resPQ, server_DH_params_ok, the decrypted server_DH_inner_data and dh_gen_ok (bit flip, random value, the other nonce, '
                    'zero); fingerprint list without the configured key; encrypted DH answer whose SHA-1 prefix does not match (prefix or content bit flipped); wrong '
                    'new_nonce_hash (flip, hash2, hash3, random); wrong-kind replies (server_DH_params_fail, dh_gen_retry - also a well-formed one followed by an accepting server -, dh_gen_fail, rpc_error, eleven well-formed objects of other kinds incl. null); each nonce fault also against a baseline whose legitimate nonce / server_nonce is zero. After a fault in the last step the server, '
                    'which holds the negotiated key, may go on speaking (new_session_created, bad_server_salt or an update sealed under that key): nothing may be stored or sent then either. The catalogue is enumerated; '
                    'thorough covers every bit position of every field up to 160 bits.'),
        technique='fault enumeration over a generated baseline exchange against a scripted reference server (rapid + enumerated fault catalogue)',
        rule=('case = (baseline exchange, fault = step x field x corruption x bit position). Every executed fault is non-trivial; distinct by hash of the scenario. '
              'Oracle: CreateConnection returns a non-nil error (a panic is not an error return), no session file afterwards, no encrypted frame reaches the server, child alive.'),
        must_hit=['fault:dhGen.kind:gen_retry-then-ok', 'fault:resPQ.kind:other-object', 'fault:dhParams.kind:other-object', 'fault:dhGen.kind:other-object', 'baseline:zero-server_nonce', 'baseline:zero-nonce', 'fault:rpc_error-naming-a-configured-data-centre', 'fault:resPQ.nonce:previous-exchange', 'fault:resPQ.kind:rpc_error', 'fault:dhParams.kind:rpc_error', 'fault:dhGen.kind:rpc_error', 'step:resPQ', 'step:dhParams', 'step:dhInner', 'step:dhGen', 'fault:resPQ.fingerprints:other-clients-key', 'fault:resPQ.fingerprints:empty', 'fault:dhInner.sha1:prefix-flip', 'fault:dhInner.sha1:content-flip',
                  'fault:dhGen.new_nonce_hash:flip', 'fault:dhGen.kind:gen_retry', 'fault:dhGen.kind:gen_fail', 'fault:dhParams.kind:params_fail', 'aftermath sent: new-session', 'aftermath sent: bad-salt', 'aftermath sent: update', 'aftermath sent: close', 'aftermath sent: app-reconnect', 'verdict:ok'],
        fold={'fault:': ('fault_classes_covered', 60)},
        assumptions=['not generated because the statement does not list them: a different server_nonce in resPQ (the server chooses it), corrupted pq, g, dh_prime, g_a, server_time'],
    ),
    'C19': dict(
        pkg='./c19', test='TestC19', level='exploration', helpers={'vdriver': './cmd/vdriver'},
        quick=dict(shards=4, checks=10, budget_s=900),
        thorough=dict(shards=4, checks=400, budget_s=3400),
        level_text=('Falsification of reproducibility only: generated testing cannot observe where a value comes from, it can only reproduce a secret that was supposed to be '
                    'unpredictable. Metamorphic: the process-global math/rand is seeded with a generated value before the draw and the draw is repeated - nonce, new_nonce, '
                    'g_b of two complete key exchanges (child processes) and the SRP value A must differ. Seed recovery: the nanosecond window around NewMTProto / MakeGAB is '
                    'recorded and every candidate seed in it (plus its us/ms/s roundings, 0, 1, pid) is replayed on a private math/rand source; reproducing the first nonce or '
                    'the returned exponent means the secret was derived from the clock. A secret from the OS CSPRNG fails none of these except with probability ~2^-128. '
                    'The DH exponent is also drawn under server-chosen parameters (8 primes from 7 to the real one x generators 2..7, enumerated and generated) so that a '
                    'fallback path taken only for unusual groups is exercised. Otherwise the draw paths are straight-line, so one execution covers the path; a source that is low-entropy in some other way (hostname, pid*time hash) escapes this check.'),
        technique='metamorphic reseeding and clock-window seed recovery over generated seeds (rapid); falsification of unpredictability, not proof of provenance',
        rule=('case = (kind in {reseed-nonces, reseed-exchange, reseed-srp, clock-nonce, clock-exponent, reseed-exponent-params}, seed value, g, password, dh_prime, g_a). Every case is non-trivial; distinct by hash of the case. '
              'coverage.classes["seed-candidates-tried"] counts the candidate seeds replayed.'),
        must_hit=['kind:retry-exponents', 'kind:second-exchange', 'kind:reseed-nonces', 'kind:clock-nonce', 'kind:clock-exponent', 'kind:reseed-srp', 'kind:reseed-exponent-params', 'small-group', 'kind:srp-distinct', 'secure_random_len=1', 'kind:stalled-os-source', 'stall=300ms', 'kind:many-draws', 'kind:short-os-source', 'seed-candidates-tried'],
        assumptions=['the statement quantifies over code paths; this check executes the (straight-line) paths under generated environments and can only refute unpredictability',
                     'the exponent\'s seed, if clock-derived, is read within 300 us of entering MakeGAB (it is needed before the exponentiations that dominate the call)'],
    ),
    'C09': dict(
        pkg='./c09', test='TestC09', level='exploration', helpers={'vdriver': './cmd/vdriver'},
        quick=dict(shards=8, checks=40, budget_s=900),
        thorough=dict(shards=16, checks=3900, budget_s=3400),
        level_text=('Generated histories against the reference server, real client in a fresh process per case: 1..8 goroutines issue 1..4 requests each (results: object, Bool, '
                    'Vector<int>, Vector<long>, Vector<User>; every request carries a unique tag in an argument), the server answers each round in a drawn permutation, partitioned '
                    'into plain messages and msg_containers, any subset gzip-packed, some as rpc_error. Each call must return exactly the value built for its own tag in the Go kind '
                    'the generated method asserts. Schedules are sampled (GOMAXPROCS 1/2/16) and directed through named yield points; they are not enumerated.'),
        technique='scenario-based property testing (rapid) with tagged requests against a scripted reference server; directed yield-point schedules',
        rule=('case = rpc scenario on a resumed session: callers x tagged requests, answer order/grouping/gzip/errors, optional hold of one sender until another request arrived, GOMAXPROCS. '
              'Non-trivial: >=2 requests answered out of order, a container, a gzip-packed result or a vector result; distinct by hash of the scenario.'),
        must_hit=['server-clock-after-2038', 'feat:gzip:flushed-in-between', 'feat:gzip:stored', 'feat:big-result', 'feat:big-result:gzip', 'feat:result-longer-than-1MiB', 'feat:older-msg_id-arrives-after-newer', 'session:keyed-in-this-process', 'feat:answered-out-of-order', 'feat:container', 'feat:gzip', 'feat:rpc-error', 'feat:vector-result-without-items:not-packed', 'feat:same-error-text-under-another-code', 'concurrent-callers', 'directed:answer-while-sender-in-send-path', 'feat:nested-container', 'feat:answers-to-requests-resent-after-salt-rotation', 'feat:repeated-result', 'feat:repeated-result-before-others-in-container', 'server-history:answers-after-reconnect', 'verdict:ok'] +
                 ['feat:%s:%s' % (k, f) for k in ('object', 'bool', 'vecint', 'veclong', 'vecobj') for f in ('plain', 'container', 'gzip')],
        assumptions=['requests are made through MakeRequest / MakeRequestWithHintToDecoder with the hint the generated method of that function passes, followed by the same type assertion',
                     'a stall verdict needs a quiescent deadlocked state seen in two goroutine dumps; anything else after the patience is inconclusive',
                     'schedules: the harness orders the named yield points and varies GOMAXPROCS; preemption elsewhere is left to the Go scheduler'],
    ),
    'C10': dict(
        pkg='./c10', test='TestC10', level='exploration', helpers={'vdriver': './cmd/vdriver'},
        quick=dict(shards=8, checks=30, budget_s=900, extra=[dict(test='TestC10MsgID', checks=1, shards=1)]),
        thorough=dict(shards=16, checks=2100, budget_s=3400, extra=[dict(test='TestC10MsgID', checks=1, shards=2)]),
        level_text=('Invariants over the reference server\'s arrival-ordered log of everything the real client wrote in generated histories: 1..8 concurrent callers, server '
                    'answers in drawn orders/containers/gzip, server-initiated content-related (updates) and service (pong, acks, state info) messages plain and in containers, '
                    'and a directed inversion attempt (one sender held right after it took its msg_id until another sender\'s message has reached the server). Checked: msg_id '
                    'multiple of 4, strictly increasing in arrival order, seconds part within 2 s of arrival, odd seq_no for content-related and even for msgs_ack, seq_no '
                    'non-decreasing, and every content-related server message (alone or in a container) named in a received msgs_ack at quiescence.'),
        technique='history invariants over generated scenarios (rapid) with a directed yield-point schedule against a reference server',
        rule=('case = rpc scenario (callers, answer schedule, interleaved server pushes, optional hold at send.msgid, GOMAXPROCS). Non-trivial: the received stream has two '
              'adjacent requests or an acknowledgement interleaved with requests; distinct by hash of the scenario.'),
        must_hit=['server-history:rider:bad-msg', 'directed:content-related-message-while-a-sender-is-in-the-send-path', 'feat:adjacent-requests', 'feat:ack-interleaved-with-requests', 'feat:content-related-in-container', 'directed:hold-after-msgid', 'msgid-generator', 'server-history:clock-skew-notification', 'client-ping', 'server-history:repeated-result', 'server-history:content-related-push',
                  'server-history:service-push', 'server-history:close-and-reconnect', 'feat:stream-continues-after-reconnect', 'concurrent-callers', 'server-history:seq_no-passes-2^31', 'server-history:redelivery-after-the-acknowledgement', 'server-clock-after-2038', 'server-history:message-longer-than-1MiB', 'verdict:ok'],
        assumptions=['seq_no: the statement demands parity and monotonicity, not the exact value 2*count',
                     'no clock hook: equal clock readings for two messages are unreachable here (a write system call separates two reads under the send lock)',
                     'a missing acknowledgement is a violation only when the client is quiescent (receive loop idle in two goroutine dumps)'],
    ),
    'C11': dict(
        pkg='./c11', test='TestC11', level='exploration', helpers={'vdriver': './cmd/vdriver'},
        quick=dict(shards=8, checks=25, budget_s=900),
        thorough=dict(shards=16, checks=2400, budget_s=3400),
        level_text=('Generated and enumerated salt-rotation histories against the reference server (real client, fresh process per case): session freshly keyed in the same process '
                    'or resumed; per rotation some requests accepted before it (answers kept back) and some rejected by it; 1..3 rotations, pending requests carried across rotations, '
                    'salts announced by bad_server_salt or new_session_created; answers in drawn orders. Checked on the server log, the client\'s hook log and the session file: '
                    'every tagged request is accepted exactly once, no message that took its id after an adoption is sent under an older salt, every caller gets its own answer, no '
                    'quiescent deadlock, later requests complete, the session file holds the adopted salt after every rotation.'),
        technique='history enumeration (small) + generation (rapid) of salt-rotation scenarios against a reference server; state inspection for stalls',
        rule=('case = plan (fresh|resumed; per rotation: accepted-before, rejected-by, answered-now counts, announcement kind, answer order). Non-trivial: at least one rotation with '
              'a pending request; distinct by hash of the script.'),
        must_hit=['server-clock-after-2038', 'same-request-rejected>=4-times-in-a-row', 'session:resumed-stored-without-key-id', 'fresh-keyed+rotation', 'second-rotation', 'rejected-message-is-an-ack', 'salt-notifications-in-a-burst', 'store-fails-once-then-same-salt-again', 'accepted+rejected-mixed', 'pending-across-two-rotations', 'rotation-with-nothing-pending', 'server-returns-to-the-salt-stored-at-the-start', 'salt-by-new_session_created', 'new_session_created:unique_id=0', 'new_session_created:unique_id=repeated',
                  'session:resumed', 'verdict:ok'],
        assumptions=['acknowledgements that the server rejects for their stale salt are not "requests": only tagged RPC requests are counted',
                     'the hook after an adoption fires after the salt was assigned and saved, so a concurrently written message may already carry it: a newer salt is never blamed',
                     'the session file is rewritten in place by the store; a torn read by the harness is repeated (the property is about the content once written)'],
    ),
    'C16': dict(
        pkg='./c16', test='TestC16', level='exploration', helpers={'vdriver': './cmd/vdriver'},
        quick=dict(shards=8, checks=25, budget_s=900),
        thorough=dict(shards=16, checks=4800, budget_s=3400),
        level_text=('Generated histories of 1..12 server-to-client events on a live client (fresh process per case, drained warning channel, one registered handler), each followed '
                    'by a probe request that must complete: every MTProto service constructor the client can be sent (pong, msgs_ack, new_session_created, bad_msg_notification, '
                    'msgs_state_info, msgs_all_info, msg_detailed_info, msg_new_detailed_info, future_salts, bad_server_salt for an unknown or an already answered message, a silent salt rotation), rpc_result / rpc_error for unknown ids, a repeated result for an answered '
                    'request, API objects as updates, unregistered constructor ids, truncated / empty / random bodies, empty and nested containers, gzip_packed around any object, '
                    'content-related or not, a well-formed value of every definition of mtproto.tl and of sampled API constructors (generated from the schema text, serialised by the reference codec), an orderly connection close - also with a request still unanswered, its answer following after one to three reconnections - (the server then expects a new connection whose frames are encrypted under the same key). Every event '
                    'kind is also run alone in four wrappings.'),
        technique='history generation (rapid) + per-event enumeration against a scripted reference server with a live client per case; state inspection for a stopped loop',
        rule=('case = list of server events with wrapping flags; after each a probe. Non-trivial: at least one event other than pong/ack; distinct by hash of the event list.'),
        must_hit=['event:>=6-connections-closed-in-a-row', 'server-clock-after-2038'] + ['event:' + k for k in ('pong', 'ack', 'new-session', 'bad-msg', 'state-info', 'all-info', 'detailed-info', 'new-detailed-info', 'future-salts', 'result-unknown',
                  'result-again', 'error-unknown', 'update', 'updates-too-long', 'unknown-ctor', 'truncated', 'empty-body', 'empty-container', 'nested-container', 'raw-soup', 'gzip-damaged', 'close', 'close-pending', 'bad-salt-unknown', 'bad-salt-answered', 'rotate')] + ['schema-object:mtproto.tl', 'schema-object:api_latest.tl', 'event-frame-in-two-tcp-segments', 'event:envelope:badlen', 'event:envelope:evenid', 'event:envelope:flip', 'event:envelope:truncate'] +
                 ['event-gzip-packed', 'event-in-container', 'handler-called', 'warning-surfaced', 'verdict:ok'],
        assumptions=['"reconnects" is judged by state: the listener keeps accepting, and a client that has not opened a new connection 3 s after a close while its receive loop sits idle counts as not reconnecting (also after the 8th close in a row)',
                     '"close" is an orderly close (FIN); an abortive close (RST) is outside the statement - observed: the client then neither reconnects nor reports anything (noted in DESIGN.md)',
                     'a request made while the client swaps connections may fail with a write error; the probe after a close is repeated until the new connection is in use',
                     'the warning channel is drained (as the examples do)'],
    ),
}
