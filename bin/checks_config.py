# Per-property configuration of bin/check: which harness package decides the property, how many shards and
# rapid cases per tier, the stated rule for a non-trivial case, and the classes a run must hit to be non-vacuous.
CHECKS = {
    'C05': dict(
        pkg='./c05', test='TestC05', level='exploration',
        level_text=('Generated and enumerated inputs compared with an independent textbook AES-IGE, the MTProto-1.0 KDF and a '
                    'conformant key-exchange peer; all wrapper payload lengths 0..600 (4096 thorough) x nonce leading-zero classes '
                    'are enumerated. Exploration is the right level: the domain is infinite but the failure classes (block chaining, '
                    'length residues, leading zeros) are reachable by construction.'),
        technique='property-based differential testing (rapid) + exhaustive enumeration of length residues against a reference AES-IGE',
        quick=dict(shards=4, checks=6000),
        thorough=dict(shards=16, checks=60000, budget_s=3000),
        rule=('rapid-generated + enumerated cases of three kinds: raw (32-byte key, 32-byte IV, input of 0..N bytes) compared '
              'block-by-block with a textbook AES-IGE written on crypto/aes, plus refusal of length 0 / non-multiples of 16 and '
              'caller-buffer immutability; msg (256-byte auth key, message) for the message-level wrapper in both directions '
              'against the MTProto-1.0 KDF; wrap (payload, new_nonce, server_nonce incl. leading zero bytes) for the key-exchange '
              'wrapper against a conformant peer. Non-trivial: raw input of >=3 blocks, msg of >=1 byte, every wrap case; '
              'distinct by hash of (kind,key,iv,data,nonces).'),
        must_hit=['raw:blocks>=3', 'raw:refused-length', 'wrap:(20+len)%16=0', 'wrap:new_nonce-leading-zero-bytes=1',
                  'wrap:server_nonce-leading-zero-bytes=1', 'msg:len%16=0', 'msg:len%16=15'],
        assumptions=['crypto/aes single-block operations and crypto/sha1 of the Go standard library are correct',
                     'out-of-place use only (no caller of the cipher encrypts in place)',
                     'auth keys are 256 bytes; message-level wrapper messages have >=1 byte (every caller prepends a 32-byte header)'],
    ),
}
