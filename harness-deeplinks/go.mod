module github.com/xelaj/mtproto/telegram/deeplinks/verifh

go 1.23

require (
	github.com/xelaj/mtproto/telegram/deeplinks v0.0.0
	pgregory.net/rapid v1.3.0
	verif/evid v0.0.0
)

require (
	github.com/gorilla/schema v1.2.0 // indirect
	github.com/pkg/errors v0.9.1 // indirect
)

replace github.com/xelaj/mtproto/telegram/deeplinks => /repo/telegram/deeplinks

replace verif/evid => ../evid
