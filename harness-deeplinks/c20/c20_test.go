package c20

import (
	"fmt"
	"net/url"
	"os"
	"runtime/debug"
	"strings"
	"testing"
	"unicode/utf8"

	"github.com/xelaj/mtproto/telegram/deeplinks"
	"pgregory.net/rapid"
	"verif/evid"
)

var run = evid.New("C20")

func TestMain(m *testing.M) {
	code := m.Run()
	run.Flush()
	os.Exit(code)
}

// Case: the link and, when it lies in the asserted sub-domain, the expected outcome.
type Case struct {
	Link string
	Want string // "" = only totality asserted; "err"; "user:<name>"; "join:<token>"
	Why  string
	// Pool: the links other goroutines resolve at the same time (concurrent phase)
	Pool []Case `json:",omitempty"`
}

// concurrent resolves the pool from 8 goroutines at once, each in its own order: a caller gets the answer for its own
// link, whatever the others ask.
func concurrent(pool []Case, rounds int) (Case, error) {
	type bad struct {
		c   Case
		err error
	}
	res := make(chan bad, 8)
	for w := 0; w < 8; w++ {
		go func(w int) {
			for r := 0; r < rounds; r++ {
				for i := range pool {
					c := pool[(i*(2*w+1)+r)%len(pool)]
					got, err := resolve(c.Link)
					if err == nil && c.Want != "" && got != c.Want {
						err = fmt.Errorf("Resolve(%q) = %s while 7 other goroutines resolve other links, want %s", c.Link, got, c.Want)
					}
					if err != nil {
						res <- bad{c, err}
						return
					}
				}
			}
			res <- bad{}
		}(w)
	}
	var first bad
	for w := 0; w < 8; w++ {
		if b := <-res; b.err != nil && first.err == nil {
			first = b
		}
	}
	return first.c, first.err
}

func resolve(link string) (got string, err error) {
	defer func() {
		if r := recover(); r != nil {
			err = fmt.Errorf("PANIC: %v\n%s", r, firstFrames(string(debug.Stack())))
		}
	}()
	res, e := deeplinks.Resolve(link)
	if e != nil {
		return "err", nil
	}
	switch v := res.(type) {
	case *deeplinks.ResolveParameters:
		if v == nil {
			return "nil-user", nil
		}
		if v.Start != "" || v.Post != 0 || v.Thread != 0 || v.Comment != 0 {
			return fmt.Sprintf("user:%s+extra", v.Domain), nil
		}
		return "user:" + v.Domain, nil
	case *deeplinks.JoinParameters:
		if v == nil {
			return "nil-join", nil
		}
		return "join:" + v.Invite, nil
	case nil:
		return "nil-without-error", nil
	default:
		return fmt.Sprintf("other:%T", res), nil
	}
}

func firstFrames(s string) string {
	var out []string
	for _, l := range strings.Split(s, "\n") {
		if strings.Contains(l, "deeplinks.") && !strings.Contains(l, "verifh") {
			out = append(out, strings.TrimSpace(l))
		}
	}
	if len(out) > 4 {
		out = out[:4]
	}
	return strings.Join(out, " | ")
}

func oracle(c Case) error {
	got, err := resolve(c.Link)
	if err != nil {
		return fmt.Errorf("Resolve(%q): %v", c.Link, err)
	}
	got2, err := resolve(c.Link)
	if err != nil {
		return fmt.Errorf("Resolve(%q) second call: %v", c.Link, err)
	}
	if got != got2 {
		return fmt.Errorf("Resolve(%q) is not deterministic: %s then %s", c.Link, got, got2)
	}
	if strings.HasPrefix(got, "nil-") {
		return fmt.Errorf("Resolve(%q) returned neither a link nor an error (%s)", c.Link, got)
	}
	if c.Want != "" && got != c.Want {
		return fmt.Errorf("Resolve(%q) = %s, want %s (%s)", c.Link, got, c.Want, c.Why)
	}
	return nil
}

var reserved = []string{"telegram.me", "telegram.dog", "t.me", "tx.me", "telesco.pe"}
var lookalikes = []string{"t.me.evil.com", "xt.me", "evil.com", "t.mee", "telegram.org", "tme", "t-me", "localhost", "example.t.me", "t.me.", "t.me@evil.com"}

// longName: nothing in the statement bounds the length of a link, a username or an invite token
func longName(t *rapid.T, label string) string {
	n := rapid.SampledFrom([]int{200, 255, 256, 1000, 2000, 2047, 2048, 2049, 4096, 8192, 9000}).Draw(t, label+"-len") + rapid.IntRange(-3, 3).Draw(t, label+"-delta")
	unit := rapid.StringMatching(`[A-Za-z0-9_]{1,7}`).Draw(t, label+"-unit")
	return strings.Repeat(unit, n/len(unit)+1)[:n]
}

func genName(t *rapid.T, label string) string {
	if rapid.IntRange(0, 39).Draw(t, label+"-long") == 0 {
		return longName(t, label)
	}
	return rapid.OneOf(
		rapid.StringMatching(`[A-Za-z0-9_\-]{1,32}`),
		rapid.StringMatching(`[A-Z][a-zA-Z0-9_]{4,12}`),
		rapid.StringMatching(`[\p{Lu}\p{Ll}]{1,8}`),
		rapid.SampledFrom([]string{"joinchat", "JoinChat", "a", "AAAAAEkk2WdoDrB4-Q8-gg", "ÀÉÎ", "İstanbul", "ǅ", "ẞ"}),
		// names that look like the syntax a router might use internally for its patterns
		rapid.SampledFrom([]string{"{username}", "{token}", "{x}", "{}", ":username", "*", "{username", "username}", "{Username}", "<username>", "$1", ".*", "[a-z]+"}),
	).Draw(t, label)
}

// gen builds a structured link and classifies it.
func gen(t *rapid.T) (Case, string) {
	if rapid.IntRange(0, 9).Draw(t, "soup") == 0 {
		// totality only: arbitrary strings
		var str string
		if rapid.Bool().Draw(t, "tokens") {
			toks := rapid.SliceOfN(rapid.SampledFrom(strings.Split("t.me|/|:|?|#|%|%zz|%41|//|@|http|https|tg|ftp|\x00|\x7f| |[|]|joinchat|é|.|..|\\", "|")), 0, 8).Draw(t, "toks")
			str = strings.Join(toks, "")
		} else {
			str = rapid.String().Draw(t, "str")
		}
		return Case{Link: str, Why: "arbitrary string: totality only"}, "soup"
	}
	scheme := rapid.SampledFrom([]string{"", "", "http://", "https://", "HTTPS://", "Http://", "tg://", "ftp://", "//", "ws://", "mailto:", "http:", "https:", "HTTPS:", "http:/", "https:///"}).Draw(t, "scheme")
	hostKind := rapid.SampledFrom([]string{"reserved", "reserved", "reserved", "lookalike", "upper", "empty", "bracketed"}).Draw(t, "hostkind")
	var host string
	switch hostKind {
	case "reserved":
		host = rapid.SampledFrom(reserved).Draw(t, "host")
	case "lookalike":
		host = rapid.SampledFrom(lookalikes).Draw(t, "host")
	case "upper":
		host = strings.ToUpper(rapid.SampledFrom(reserved).Draw(t, "host"))
	case "bracketed":
		// the syntax of an IPv6 literal around a name: Go's parser accepts it and strips the brackets (no browser follows
		// such a link); a link or an error, either way
		host = "[" + rapid.SampledFrom(append(append([]string{}, reserved...), "evil.com", "::1", "")).Draw(t, "host") + "]"
	}
	port := rapid.SampledFrom([]string{"", "", ":443", ":80", ":8443"}).Draw(t, "port")
	pathKind := rapid.SampledFrom([]string{"user", "user", "join", "join", "bare", "slash", "two", "three", "emptyjoin", "trailing", "doubleslash", "escaped"}).Draw(t, "pathkind")
	name := genName(t, "name")
	var path string
	switch pathKind {
	case "user":
		path = "/" + name
	case "join":
		path = "/joinchat/" + name
	case "bare":
		path = ""
	case "slash":
		path = "/"
	case "two":
		path = "/" + genName(t, "seg0") + "/" + name
		if strings.HasPrefix(path, "/joinchat/") {
			path = "/x" + path[1:]
		}
	case "three":
		path = "/" + genName(t, "seg0") + "/" + name + "/" + genName(t, "seg2")
	case "emptyjoin":
		path = "/joinchat/"
	case "trailing":
		path = "/" + name + "/"
	case "doubleslash":
		path = "//" + name
	case "escaped":
		path = "/%" + rapid.StringMatching(`[0-9A-Fa-f]{2}`).Draw(t, "esc") + name
	}
	tail := rapid.SampledFrom([]string{"", "", "?start=1", "#frag", "?a=b#c", "?", "#", "?domain=other&post=5", "?invite=zzz"}).Draw(t, "tail")
	if rapid.IntRange(0, 39).Draw(t, "long-tail") == 0 {
		tail = rapid.SampledFrom([]string{"?start=", "#", "?a=b&c="}).Draw(t, "long-tail-kind") + longName(t, "tailv")
	}
	link := scheme + host + port + path + tail
	c := Case{Link: link}
	// asserted sub-domain
	httpScheme := strings.EqualFold(scheme, "http://") || strings.EqualFold(scheme, "https://")
	schemeOK := httpScheme || (scheme == "" && port == "")
	switch {
	case scheme == "tg://" || scheme == "ftp://" || scheme == "ws://" || scheme == "mailto:":
		if utf8.ValidString(link) {
			c.Want, c.Why = "err", "scheme other than http(s)"
		}
	case scheme == "//" || (strings.HasSuffix(scheme, ":") && scheme != "mailto:") || scheme == "http:/" || scheme == "https:///":
		// protocol-relative, or http(s) without the authority slashes: a link or an error, either way
	case hostKind == "upper" || hostKind == "bracketed" || pathKind == "escaped" || pathKind == "doubleslash":
		// accepted either way (no assertion beyond totality)
	case !schemeOK:
		// scheme-less with a port: Go parses "t.me:443/x" as scheme "t.me" - accepted either way
	case hostKind == "lookalike" || hostKind == "empty":
		if hostKind == "empty" && scheme == "" {
			// "/name" or "name": a path without any host - must not resolve
			c.Want, c.Why = "err", "no host at all"
		} else {
			c.Want, c.Why = "err", "host is not Telegram-owned"
		}
	case pathKind == "user":
		c.Want, c.Why = "user:"+strings.ToLower(name), "one-segment path on a reserved host"
	case pathKind == "join":
		c.Want, c.Why = "join:"+name, "/joinchat/<token> on a reserved host"
	default:
		c.Want, c.Why = "err", "path shape "+pathKind+" is neither /<name> nor /joinchat/<token>"
	}
	// the oracle only asserts when Go's URL parser sees what we built (guards against generator/parser disagreement)
	if c.Want != "" && c.Want != "err" {
		u, err := url.Parse(link)
		if err != nil {
			c.Want, c.Why = "", "not parseable as built"
		} else if httpScheme && (u.Hostname() != host || u.Path != path) {
			c.Want, c.Why = "", "parser sees different host/path"
		}
	}
	cls := "asserted:" + strings.SplitN(c.Want, ":", 2)[0]
	if c.Want == "" {
		cls = "totality-only"
	}
	return c, fmt.Sprintf("%s|scheme=%q|host=%s|path=%s", cls, scheme, hostKind, pathKind)
}

func record(c Case, cls string) {
	u, err := url.Parse(c.Link)
	nt := err == nil && (u.Host != "" || u.Path != "")
	parts := strings.Split(cls, "|")
	classes := []string{parts[0]}
	for _, p := range parts[1:] {
		classes = append(classes, p)
	}
	if c.Want != "" {
		classes = append(classes, "want="+strings.SplitN(c.Want, ":", 2)[0]+"|"+strings.Join(parts[1:], "|"))
	}
	run.Case(nt, evid.Hash(c.Link), classes...)
	run.Sample(c)
}

func TestC20(t *testing.T) {
	if p := os.Getenv("VERIF_REPLAY"); p != "" {
		var c Case
		if err := evid.LoadReplay(p, &c); err != nil {
			t.Fatal(err)
		}
		run.Case(true, 1)
		run.Case(true, 2)
		run.Sample(map[string]any{"link": c.Link, "want": c.Want, "pool": len(c.Pool)})
		if len(c.Pool) > 0 {
			if _, err := concurrent(c.Pool, 200); err != nil {
				run.Violation(c, err.Error())
				t.Fatalf("replay fails: %v", err)
			}
			return
		}
		if err := oracle(c); err != nil {
			run.Violation(c, err.Error())
			t.Fatalf("replay fails: %v", err)
		}
		return
	}
	var pool []Case
	// a caller that treats the exported host list as its own (filters it in place, rewrites entries for display) must
	// not change what Resolve accepts afterwards
	for _, h := range [][]string{deeplinks.ReservedHosts(), deeplinks.ReservedHosts()} {
		for i := range h {
			h[i] = "evil.example"
		}
		_ = append(h[:0], "example.com")
	}
	run.Class("exported-host-list-edited-by-caller", 1)
	t.Run("enumerated", func(t *testing.T) {
		if run.Shard != 0 {
			return
		}
		// the full cross product of the statement's structured domain with fixed names
		n := int64(0)
		for _, scheme := range []string{"", "http://", "https://", "tg://", "ftp://"} {
			for _, host := range append(append([]string{""}, reserved...), lookalikes...) {
				for _, port := range []string{"", ":443"} {
					for _, path := range []string{"", "/", "/Durov", "/joinchat/AbC-1_x", "/joinchat", "/joinchat/", "/a/b", "/a/b/c", "/Durov/", "//Durov", "/%44urov", "/имя"} {
						for _, tail := range []string{"", "?start=x", "#f"} {
							link := scheme + host + port + path + tail
							c := Case{Link: link}
							isRes := false
							for _, r := range reserved {
								isRes = isRes || r == host
							}
							http := scheme == "http://" || scheme == "https://"
							if isRes && (http || (scheme == "" && port == "")) {
								switch path {
								case "/Durov":
									c.Want = "user:durov"
								case "/имя":
									c.Want = "user:имя"
								case "/joinchat":
									c.Want = "user:joinchat"
								case "/joinchat/AbC-1_x":
									c.Want = "join:AbC-1_x"
								case "", "/", "/joinchat/", "/a/b", "/a/b/c", "/Durov/":
									c.Want = "err"
								}
							} else if scheme == "tg://" || scheme == "ftp://" {
								c.Want = "err"
							} else if !isRes && (http || (scheme == "" && port == "")) && path != "//Durov" {
								c.Want = "err"
							}
							c.Why = "enumerated cross product"
							record(c, "enumerated|scheme="+scheme)
							n++
							if err := oracle(c); err != nil {
								p := run.ViolationNamed(fmt.Sprintf("enum%d", n), c, err.Error())
								t.Fatalf("violation (replay %s): %v", p, err)
							}
						}
					}
				}
			}
		}
		run.Exhaustive("scheme x host x port x path-shape x tail cross product", n)
	})
	t.Run("generated", func(t *testing.T) {
		rapid.Check(t, func(t *rapid.T) {
			c, cls := gen(t)
			record(c, cls)
			if err := oracle(c); err != nil {
				p := run.Violation(c, err.Error())
				t.Fatalf("violation (replay %s): %v", p, err)
			}
			if c.Want != "" && len(pool) < 400 {
				pool = append(pool, c)
			}
		})
	})
	if t.Failed() || len(pool) < 8 {
		return
	}
	t.Run("concurrent", func(t *testing.T) {
		rounds := run.Pick(20, 400)
		run.Class("concurrent:resolutions", int64(8*rounds*len(pool)))
		if c, err := concurrent(pool, rounds); err != nil {
			c.Pool = pool
			p := run.ViolationNamed("concurrent", c, err.Error())
			t.Fatalf("violation (replay %s): %v", p, err)
		}
	})
}

// FuzzResolve: coverage-guided totality + determinism (thorough tier only).
func FuzzResolve(f *testing.F) {
	for _, s := range []string{"t.me", "t.me/x", "https://t.me/joinchat/abc", "tg://resolve?domain=x", "http://t.me:443/a?b#c", "//t.me/x", "%", "t.me:443/x", "\x00", "/t.me/x", "telegram.me?x"} {
		f.Add(s)
	}
	f.Fuzz(func(t *testing.T, s string) {
		c := Case{Link: s, Why: "native fuzzing: totality"}
		if err := oracle(c); err != nil {
			p := run.Violation(c, err.Error())
			t.Fatalf("violation (replay %s): %v", p, err)
		}
	})
}
