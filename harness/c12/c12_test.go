package c12

import (
	"bytes"
	"encoding/json"
	"fmt"
	"os"
	"path/filepath"
	"strings"
	"sync"
	"testing"
	"time"
	"unicode/utf8"

	"github.com/xelaj/errs"
	"github.com/xelaj/mtproto/internal/session"
	"github.com/xelaj/mtproto/telegram/verifh/hx"
	"github.com/xelaj/mtproto/telegram/verifh/scen"
	"pgregory.net/rapid"
	"verif/evid"
)

var run = evid.New("C12")

func TestMain(m *testing.M) { hx.Main(m, run) }

// Sess is the replayable form of a session.
type Sess struct {
	Key, Hash []byte
	Salt      int64
	Host      string
}

// Op is one step of a history on the store.
type Op struct {
	Kind string // storeA storeFresh storeSameTick loadA loadFresh remove tear
	Path int    // index into the three path kinds: 0 absolute, 1 relative, 2 bare file name
	S    *Sess  `json:",omitempty"`
}

type Case struct{ Ops []Op }

var pathKinds = []string{"absolute", "relative", "bare"}

func toSession(s *Sess) *session.Session {
	return &session.Session{Key: s.Key, Hash: s.Hash, Salt: s.Salt, Hostname: s.Host}
}

// storeAndWipe stores a copy of the session the way a careful caller does: the key material it handed to Store is
// wiped (here: overwritten) as soon as Store has returned. What was stored is what Store was given.
func storeAndWipe(l session.SessionLoader, s *Sess) error {
	ss := &session.Session{Key: append([]byte{}, s.Key...), Hash: append([]byte{}, s.Hash...), Salt: s.Salt, Hostname: s.Host}
	err := l.Store(ss)
	hx.Scribble(ss.Key)
	hx.Scribble(ss.Hash)
	ss.Salt, ss.Hostname = ^ss.Salt, "wiped"
	return err
}

func same(got *session.Session, want *Sess) error {
	if got == nil {
		return fmt.Errorf("nil session")
	}
	if !bytes.Equal(got.Key, want.Key) || !bytes.Equal(got.Hash, want.Hash) || got.Salt != want.Salt || got.Hostname != want.Host {
		return fmt.Errorf("read back key[%d] hash[%d] salt=%d host=%q, stored key[%d] hash[%d] salt=%d host=%q",
			len(got.Key), len(got.Hash), got.Salt, got.Hostname, len(want.Key), len(want.Hash), want.Salt, want.Host)
	}
	return nil
}

// execute runs a history against the real store and the model; the first disagreement is returned.
func execute(c Case) error {
	return hx.Safely(func() error {
		root, err := os.MkdirTemp("", "verif-c12-")
		if err != nil {
			return fmt.Errorf("INFRA: %v", err)
		}
		defer os.RemoveAll(root)
		old, _ := os.Getwd()
		if err := os.Chdir(root); err != nil {
			return fmt.Errorf("INFRA: %v", err)
		}
		defer os.Chdir(old)
		os.Mkdir(filepath.Join(root, "sub"), 0o755)
		paths := []string{filepath.Join(root, "abs-session.json"), filepath.Join("sub", "rel-session.json"), "bare-session.json"}
		loaders := []session.SessionLoader{session.NewFromFile(paths[0]), session.NewFromFile(paths[1]), session.NewFromFile(paths[2])}
		model := make([]*Sess, 3)
		var kept hx.Retain
		for i, op := range c.Ops {
			if err := kept.Verify(); err != nil {
				return fmt.Errorf("before step %d: %v", i, err)
			}
			p := paths[op.Path]
			where := fmt.Sprintf("step %d (%s on %s path)", i, op.Kind, pathKinds[op.Path])
			switch op.Kind {
			case "storeA", "storeFresh", "storeSameTick":
				l := loaders[op.Path]
				if op.Kind == "storeFresh" {
					l = session.NewFromFile(p)
				}
				var before os.FileInfo
				if op.Kind == "storeSameTick" {
					before, _ = os.Stat(p)
				}
				if err := storeAndWipe(l, op.S); err != nil {
					return fmt.Errorf("%s: Store failed although the directory exists: %v", where, err)
				}
				if before != nil {
					// emulate a filesystem whose timestamp granularity puts both writes into one tick
					if err := os.Chtimes(p, before.ModTime(), before.ModTime()); err != nil {
						return fmt.Errorf("INFRA: %v", err)
					}
				}
				model[op.Path] = op.S
			case "loadA", "loadFresh":
				l := loaders[op.Path]
				if op.Kind == "loadFresh" {
					l = session.NewFromFile(p)
				}
				got, err := l.Load()
				if model[op.Path] == nil {
					if err == nil {
						return fmt.Errorf("%s: Load returned a session although nothing is stored", where)
					}
					if !errs.IsNotFound(err) {
						return fmt.Errorf("%s: missing file reported as %q, not as 'not found'", where, err)
					}
					continue
				}
				if err != nil {
					return fmt.Errorf("%s: Load failed: %v", where, err)
				}
				if err := same(got, model[op.Path]); err != nil {
					return fmt.Errorf("%s: %v", where, err)
				}
				// a session that was handed out stays what it was, whatever is stored or loaded afterwards
				kept.Keep("a session returned by Load", func() []byte {
					return []byte(fmt.Sprintf("%x|%x|%d|%s", got.Key, got.Hash, got.Salt, got.Hostname))
				})
			case "remove":
				if err := os.Remove(p); err != nil && !os.IsNotExist(err) {
					return fmt.Errorf("INFRA: %v", err)
				}
				model[op.Path] = nil
			case "tear":
				if model[op.Path] == nil {
					continue
				}
				full, err := os.ReadFile(p)
				if err != nil {
					return fmt.Errorf("INFRA: %v", err)
				}
				for n := 0; n < len(full); n++ { // every crash point of the write
					if err := os.WriteFile(p, full[:n], 0o600); err != nil {
						return fmt.Errorf("INFRA: %v", err)
					}
					for _, l := range []session.SessionLoader{session.NewFromFile(p), loaders[op.Path]} {
						got, err := l.Load()
						if err == nil && same(got, model[op.Path]) != nil {
							return fmt.Errorf("%s: file cut to %d of %d bytes was read as a different session (salt=%d host=%q)", where, n, len(full), got.Salt, got.Hostname)
						}
						if err == nil && l != loaders[op.Path] {
							return fmt.Errorf("%s: file cut to %d of %d bytes was accepted by a fresh loader", where, n, len(full))
						}
					}
				}
				run.Class("tear:prefixes", int64(len(full)))
				if err := os.WriteFile(p, full, 0o600); err != nil {
					return fmt.Errorf("INFRA: %v", err)
				}
				// healed: a fresh loader reads the session again
				got, err := session.NewFromFile(p).Load()
				if err != nil {
					return fmt.Errorf("%s: restored file not readable: %v", where, err)
				}
				if err := same(got, model[op.Path]); err != nil {
					return fmt.Errorf("%s: after restore: %v", where, err)
				}
			}
		}
		return nil
	})
}

func genSess(t *rapid.T) *Sess {
	s := &Sess{}
	s.Key = hx.Bytes(t, "key", 300, 0, 256)
	s.Hash = hx.Bytes(t, "hash", 40, 0, 8)
	s.Salt = rapid.OneOf(rapid.SampledFrom([]int64{0, 1, -1, 1<<63 - 1, -1 << 63, 255, 256, -256}), rapid.Int64()).Draw(t, "salt")
	s.Host = rapid.OneOf(
		rapid.SampledFrom([]string{"149.154.167.50:443", "", "localhost:1", "[::1]:443", "h\"ost\\:1", "<a>&b:2", "tab\there", "nl\nx", "\u2028\u2029", "дц.рф:443", "東京:443", "\x00\x01", "\u007f", "é"}),
		rapid.String(),
		rapid.StringMatching(`[a-z0-9.\-]{1,20}:[0-9]{1,5}`),
	).Draw(t, "host")
	if !utf8.ValidString(s.Host) {
		s.Host = strings.ToValidUTF8(s.Host, "?")
	}
	return s
}

func gen(t *rapid.T) Case {
	opGen := rapid.Custom(func(t *rapid.T) Op {
		op := Op{Path: rapid.IntRange(0, 2).Draw(t, "path")}
		op.Kind = rapid.SampledFrom([]string{"storeA", "storeA", "storeFresh", "storeSameTick", "storeSameTick", "loadA", "loadA", "loadA", "loadFresh", "loadFresh", "remove", "tear"}).Draw(t, "kind")
		if strings.HasPrefix(op.Kind, "store") {
			op.S = genSess(t)
		}
		return op
	})
	c := Case{Ops: rapid.SliceOfN(opGen, 1, 14).Draw(t, "ops")}
	if rapid.IntRange(0, 3).Draw(t, "family") == 0 {
		// two loaders on one path: loader A has seen X, the file changes behind its back, A stores X again
		path := rapid.IntRange(0, 2).Draw(t, "fpath")
		x, y := genSess(t), genSess(t)
		behind := rapid.SampledFrom([]string{"storeFresh", "remove", "storeFresh+remove"}).Draw(t, "behind")
		ops := []Op{{Kind: rapid.SampledFrom([]string{"storeA", "storeFresh"}).Draw(t, "first"), Path: path, S: x}, {Kind: "loadA", Path: path}}
		if strings.Contains(behind, "storeFresh") {
			ops = append(ops, Op{Kind: "storeFresh", Path: path, S: y})
		}
		if strings.Contains(behind, "remove") {
			ops = append(ops, Op{Kind: "remove", Path: path})
		}
		ops = append(ops, Op{Kind: rapid.SampledFrom([]string{"storeA", "storeSameTick"}).Draw(t, "again"), Path: path, S: x}, Op{Kind: "loadFresh", Path: path}, Op{Kind: "loadA", Path: path})
		// splice the directed core into the random history at a drawn position
		at := rapid.IntRange(0, len(c.Ops)).Draw(t, "at")
		c.Ops = append(append(append([]Op{}, c.Ops[:at]...), ops...), c.Ops[at:]...)
		if len(c.Ops) > 20 {
			c.Ops = c.Ops[:20]
		}
	}
	// storing a value again that was stored (and possibly loaded) before: "last store wins" also when the value is not new
	var earlier []*Sess
	for i := range c.Ops {
		if !strings.HasPrefix(c.Ops[i].Kind, "store") {
			continue
		}
		if len(earlier) > 0 && rapid.IntRange(0, 2).Draw(t, "restore") == 0 {
			c.Ops[i].S = earlier[rapid.IntRange(0, len(earlier)-1).Draw(t, "which")]
		}
		earlier = append(earlier, c.Ops[i].S)
	}
	return c
}

func record(c Case) {
	var cls []string
	nt := false
	stores := map[int]int{}
	for i, op := range c.Ops {
		cls = append(cls, "op:"+op.Kind, "path:"+pathKinds[op.Path])
		if strings.HasPrefix(op.Kind, "store") {
			stores[op.Path]++
			if op.S.Salt < 0 {
				cls = append(cls, "salt-negative")
				nt = true
			}
			for _, r := range op.S.Host {
				if r > 127 {
					cls = append(cls, "host-non-ascii")
					nt = true
					break
				}
			}
			if strings.ContainsAny(op.S.Host, "\"\\<>&\n\t\x00") {
				cls = append(cls, "host-json-metachar")
				nt = true
			}
			if len(op.S.Key) == 0 {
				cls = append(cls, "key-empty")
			}
		}
		if strings.HasPrefix(op.Kind, "store") {
			for _, prev := range c.Ops[:i] {
				if prev.S != nil && prev.S == op.S {
					cls = append(cls, "store-of-an-earlier-value")
					nt = true
					break
				}
			}
		}
		if strings.HasPrefix(op.Kind, "load") && stores[op.Path] >= 2 {
			cls = append(cls, "load-after-second-store")
			nt = true
		}
		if op.Kind == "loadA" && i > 0 && c.Ops[i-1].Kind == "storeSameTick" && c.Ops[i-1].Path == op.Path {
			cls = append(cls, "load-after-same-tick-store")
		}
		if op.Kind == "tear" && stores[op.Path] > 0 {
			cls = append(cls, "torn-file")
			nt = true
		}
		if strings.HasPrefix(op.Kind, "load") && stores[op.Path] == 0 {
			cls = append(cls, "load-missing")
		}
	}
	b, _ := json.Marshal(c)
	run.Case(nt, evid.Hash(b), cls...)
	if len(c.Ops) <= 6 {
		run.Sample(c)
	}
}

func TestC12(t *testing.T) {
	if p := hx.ReplayPath(); p != "" {
		var c Case
		if err := evid.LoadReplay(p, &c); err != nil {
			t.Fatal(err)
		}
		run.Case(true, 1)
		if len(c.Ops) == 1 && c.Ops[0].Kind == "load-store-race" {
			run.Case(true, 2)
			if err := loadStoreRace(run.Seed, 40); err != nil {
				run.Violation(c, err.Error())
				t.Fatalf("replay fails: %v", err)
			}
			return
		}
		if len(c.Ops) == 1 && c.Ops[0].Kind == "concurrent-stores" {
			run.Case(true, 2)
			if err := concurrentStores(run.Seed, 6000); err != nil {
				run.Violation(c, err.Error())
				t.Fatalf("replay fails: %v", err)
			}
			return
		}
		record(c)
		if err := execute(c); err != nil {
			run.Violation(c, err.Error())
			t.Fatalf("replay fails: %v", err)
		}
		return
	}
	t.Run("generated", func(t *testing.T) {
		rapid.Check(t, func(t *rapid.T) {
			c := gen(t)
			record(c)
			if err := execute(c); err != nil {
				hx.Fail(t, run, c, err)
			}
		})
	})
	if t.Failed() {
		return
	}
	t.Run("load-store-race", func(t *testing.T) {
		if err := loadStoreRace(run.Seed+uint64(run.Shard)*131, run.Pick(4, 40)); err != nil {
			if strings.HasPrefix(err.Error(), "INFRA:") {
				t.Skipf("%v", err)
			}
			p := run.ViolationNamed("load-store-race", Case{Ops: []Op{{Kind: "load-store-race"}}}, err.Error())
			t.Fatalf("violation (replay %s): %v", p, err)
		}
	})
	if t.Failed() {
		return
	}
	t.Run("concurrent-stores", func(t *testing.T) {
		// several clients of one process (one per data centre) save their sessions at the same time, each to its own
		// file through its own loader: what each reads back - through a fresh loader - is what it stored
		if err := concurrentStores(run.Seed+uint64(run.Shard)*977, run.Pick(300, 6000)); err != nil {
			p := run.ViolationNamed("concurrent-stores", Case{Ops: []Op{{Kind: "concurrent-stores"}}}, err.Error())
			t.Fatalf("violation (replay %s): %v", p, err)
		}
	})
}

// loadStoreRace: a long-lived loader is in the middle of Load (a big session, so that reading and parsing take a
// while) when another loader of the same path stores a newer session. Once everything is quiet the long-lived loader
// returns the last stored session - not the one it happened to be parsing.
func loadStoreRace(seed uint64, rounds int) error {
	root, err := os.MkdirTemp("", "verif-c12r-")
	if err != nil {
		return nil
	}
	defer os.RemoveAll(root)
	p := filepath.Join(root, "session.json")
	a, b := session.NewFromFile(p), session.NewFromFile(p)
	big := func(sd uint64) *Sess {
		return &Sess{Key: hx.Det(sd, 6<<20), Hash: hx.Det(sd+1, 8), Salt: int64(hx.DetU64(sd + 2)), Host: fmt.Sprintf("big-%d:443", sd%1000)}
	}
	small := func(sd uint64) *Sess {
		return &Sess{Key: hx.Det(sd, 256), Hash: hx.Det(sd+1, 8), Salt: int64(hx.DetU64(sd + 2)), Host: fmt.Sprintf("small-%d:443", sd%1000)}
	}
	for r := 0; r < rounds; r++ {
		sd := seed*7919 + uint64(r)*31
		if err := b.Store(toSession(big(sd))); err != nil {
			return fmt.Errorf("INFRA: %v", err)
		}
		loading := make(chan struct{})
		done := make(chan struct{})
		go func() {
			close(loading)
			a.Load() // slow: megabytes to read and parse; whatever it returns now is not judged
			close(done)
		}()
		<-loading
		time.Sleep(time.Duration(5+hx.DetU64(sd+5)%40) * time.Millisecond)
		last := small(sd + 9)
		if err := b.Store(toSession(last)); err != nil {
			return fmt.Errorf("INFRA: %v", err)
		}
		<-done
		time.Sleep(6 * time.Millisecond)
		got, err := a.Load()
		if err != nil {
			return fmt.Errorf("round %d: the long-lived loader cannot load after another loader stored: %v", r, err)
		}
		if err := same(got, last); err != nil {
			return fmt.Errorf("round %d: another loader stored a session while this one was loading the previous one; afterwards this loader still returns the old one: %v", r, err)
		}
	}
	run.Case(true, evid.Hash("load-store-race", seed), "load-store-race")
	return nil
}

func concurrentStores(seed uint64, rounds int) error {
	root, err := os.MkdirTemp("", "verif-c12c-")
	if err != nil {
		return nil
	}
	defer os.RemoveAll(root)
	const workers = 6
	errs := make(chan error, workers)
	var wg sync.WaitGroup
	for w := 0; w < workers; w++ {
		wg.Add(1)
		go func(w int) {
			defer wg.Done()
			p := filepath.Join(root, fmt.Sprintf("dc%d-session.json", w))
			l := session.NewFromFile(p)
			for r := 0; r < rounds; r++ {
				sd := seed*1000003 + uint64(w)*7919 + uint64(r)
				// same lengths in every worker (whole documents can be mistaken for one another), sometimes different ones
				hostLen := 14
				if r%5 == 4 {
					hostLen = 8 + int(hx.DetU64(sd+9)%30)
				}
				want := &Sess{Key: hx.Det(sd, 256), Hash: hx.Det(sd+1, 8), Salt: int64(hx.DetU64(sd + 2)), Host: fmt.Sprintf("%0*d:443", hostLen-4, w*1000+r%1000)}
				if err := storeAndWipe(l, want); err != nil {
					errs <- fmt.Errorf("client %d, store %d: Store failed while %d other loaders store to other files: %v", w, r, workers-1, err)
					return
				}
				got, err := session.NewFromFile(p).Load()
				if err != nil {
					errs <- fmt.Errorf("client %d, store %d: what was stored cannot be read back (%d other loaders store to other files at the same time): %v", w, r, workers-1, err)
					return
				}
				if err := same(got, want); err != nil {
					errs <- fmt.Errorf("client %d, store %d, with %d other loaders storing to other files at the same time: %v", w, r, workers-1, err)
					return
				}
			}
		}(w)
	}
	wg.Wait()
	close(errs)
	run.Case(true, evid.Hash("concurrent-stores", seed), "concurrent-stores")
	run.Class("concurrent-stores:round-trips", int64(workers*rounds))
	return <-errs
}

// ---------- resume: a client started on a store that holds a session ----------

type rapidSource struct{ t *rapid.T }

func (r rapidSource) Bytes(label string, n int) []byte { return hx.FixedBytes(r.t, label, n) }
func (r rapidSource) Int(label string, n int) int      { return rapid.IntRange(0, n-1).Draw(r.t, label) }

func judgeResume(sc *scen.Scenario, res *scen.Result, runErr error) (string, error) {
	if runErr != nil {
		return "inconclusive", fmt.Errorf("INFRA: %v", runErr)
	}
	if res.Died {
		return "violation", fmt.Errorf("client process died while resuming: %s", scen.PanicSite(res.Stderr))
	}
	if !res.Connected {
		return "violation", fmt.Errorf("a client started on a stored session did not connect: %s %s", res.ConnectErr, res.ConnectPanic)
	}
	for _, n := range res.Notes {
		if strings.HasPrefix(n, "loader-after-client:") {
			return "violation", fmt.Errorf("a stored session is not read back intact: %s", strings.TrimPrefix(n, "loader-after-client: "))
		}
	}
	first := true
	for _, ev := range res.Events {
		if ev.Server == "decoy" {
			return "violation", fmt.Errorf("the client contacted the configured address although the store names another one (event %s on the decoy listener)", ev.Kind)
		}
		switch ev.Kind {
		case "plain":
			return "violation", fmt.Errorf("the client started a new key exchange (plain-text frame) although the store holds a session")
		case "enc":
			if first {
				first = false
				if ev.Salt != sc.Resume.Salt {
					return "violation", fmt.Errorf("the first frame carries salt %d, the stored salt is %d", ev.Salt, sc.Resume.Salt)
				}
			}
		case "violation":
			return "violation", fmt.Errorf("server-side validation (wrong key?): %s", ev.Note)
		}
	}
	if first {
		return "violation", fmt.Errorf("no encrypted frame reached the stored address")
	}
	for _, c := range res.Calls {
		if !c.OK {
			return "violation", fmt.Errorf("a request on the resumed session did not complete: %+v", c)
		}
	}
	if !bytes.Equal(res.ClientAuthKey, sc.Resume.AuthKey) {
		return "violation", fmt.Errorf("the client does not hold the stored auth key")
	}
	return "ok", nil
}

func TestC12Resume(t *testing.T) {
	if hx.ReplayPath() != "" {
		return
	}
	rapid.Check(t, func(t *rapid.T) {
		s := rapidSource{t}
		sc := scen.NewResumed(s)
		sc.Resume.Salt = rapid.OneOf(rapid.SampledFrom([]int64{0, 1, -1, 1<<63 - 1, -1 << 63}), rapid.Int64()).Draw(t, "salt")
		switch rapid.IntRange(0, 5).Draw(t, "keyclass") {
		case 0:
			sc.Resume.AuthKey[0], sc.Resume.AuthKey[1] = 0, 0
		case 1:
			for i := range sc.Resume.AuthKey {
				sc.Resume.AuthKey[i] = 0xff
			}
		}
		sc.RPC.Decoy = true
		callers := scen.Callers(s, rapid.IntRange(1, 3).Draw(t, "n"), 1, 10)
		sc.RPC.Steps = []scen.Step{{Op: "probe"}, {Op: "call", Calls: callers}}
		sc.RPC.Steps, _ = scen.AnswerRounds(s, sc.RPC.Steps, callers, 0)
		sc.RPC.Steps = append(sc.RPC.Steps, scen.Step{Op: "await-calls"})
		res, runErr := scen.RunChild(sc, 120*time.Second)
		verdict, err := judgeResume(sc, res, runErr)
		cls := []string{"resume", "resume-verdict:" + verdict}
		cls = append(cls, "resume:configured-via:"+sc.Resume.Via)
		if sc.Resume.Salt < 0 {
			cls = append(cls, "resume:negative-salt")
		}
		run.Case(verdict != "inconclusive", evid.Hash(sc.Resume.AuthKey, sc.Resume.Salt), cls...)
		if err != nil {
			if strings.HasPrefix(err.Error(), "INFRA:") {
				t.Skipf("%v", err)
			}
			p := run.Violation(map[string]any{"Resume": sc}, err.Error())
			t.Fatalf("violation (replay %s): %v", p, err)
		}
	})
}
