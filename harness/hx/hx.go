// Package hx: small helpers shared by the check packages (panic capture, rapid generators, replay plumbing).
package hx

import (
	"fmt"
	"os"
	"runtime/debug"
	"strings"
	"sync"
	"testing"

	"pgregory.net/rapid"
	"verif/evid"
)

// Safely runs f and converts a panic into an error that names the panic site.
func Safely(f func() error) (err error) {
	defer func() {
		if r := recover(); r != nil {
			st := string(debug.Stack())
			err = fmt.Errorf("PANIC: %v\n%s", r, trimStack(st))
		}
	}()
	return f()
}

func trimStack(s string) string {
	lines := strings.Split(s, "\n")
	var out []string
	for _, l := range lines {
		if strings.Contains(l, "github.com/xelaj/mtproto") && !strings.Contains(l, "verifh") {
			out = append(out, strings.TrimSpace(l))
		}
		if len(out) >= 6 {
			break
		}
	}
	return strings.Join(out, "\n")
}

// Bytes draws a byte slice with a length drawn from lens ∪ [0,maxRandom].
func Bytes(t *rapid.T, label string, maxRandom int, lens ...int) []byte {
	var n int
	if len(lens) > 0 && rapid.Bool().Draw(t, label+".boundary") {
		n = rapid.SampledFrom(lens).Draw(t, label+".len")
	} else {
		n = rapid.IntRange(0, maxRandom).Draw(t, label+".len")
	}
	return FixedBytes(t, label, n)
}

// FixedBytes draws exactly n bytes; long strings are filled from an 8-byte drawn pattern so that huge cases
// stay cheap to generate and to shrink.
func FixedBytes(t *rapid.T, label string, n int) []byte {
	if n <= 64 {
		return rapid.SliceOfN(rapid.Byte(), n, n).Draw(t, label)
	}
	head := rapid.SliceOfN(rapid.Byte(), 32, 32).Draw(t, label+".head")
	seed := rapid.Uint64().Draw(t, label+".fill")
	b := make([]byte, n)
	copy(b, head)
	x := seed | 1
	for i := 32; i < n; i++ {
		x ^= x << 13
		x ^= x >> 7
		x ^= x << 17
		b[i] = byte(x >> 24)
	}
	return b
}

// Main is the TestMain body: flush evidence whatever happens.
func Main(m *testing.M, run *evid.Run) {
	code := m.Run()
	run.Flush()
	os.Exit(code)
}

// Fail records the violation (replay file) and fails the rapid case.
func Fail(t *rapid.T, run *evid.Run, c any, err error) {
	p := run.Violation(c, err.Error())
	t.Fatalf("violation (replay %s): %v", p, err)
}

// ReplayPath returns the replay file to run (VERIF_REPLAY) or "".
func ReplayPath() string { return os.Getenv("VERIF_REPLAY") }

// NShards returns the number of shard processes of this run (VERIF_NSHARDS, default 1).
func NShards() int {
	n := 1
	fmt.Sscanf(os.Getenv("VERIF_NSHARDS"), "%d", &n)
	if n < 1 {
		n = 1
	}
	return n
}

// Det returns n deterministic pseudo-random bytes for a seed (xorshift; no RNG state shared between cases).
func Det(seed uint64, n int) []byte {
	b := make([]byte, n)
	x := seed*0x9e3779b97f4a7c15 | 1
	for i := range b {
		x ^= x << 13
		x ^= x >> 7
		x ^= x << 17
		b[i] = byte(x >> 32)
	}
	return b
}

func DetU64(seed uint64) uint64 {
	x := seed*0x9e3779b97f4a7c15 | 1
	for i := 0; i < 4; i++ {
		x ^= x << 13
		x ^= x >> 7
		x ^= x << 17
	}
	return x
}

// Pool keeps the first cases of a run for its concurrent phase.
type Pool[T any] struct {
	mu    sync.Mutex
	Items []T
	Max   int
}

func (p *Pool[T]) Add(x T) {
	p.mu.Lock()
	if p.Max == 0 {
		p.Max = 256
	}
	if len(p.Items) < p.Max {
		p.Items = append(p.Items, x)
	}
	p.mu.Unlock()
}

// RunConcurrent applies the sequential oracle to the pooled cases from several goroutines at once, each in its own
// order: code that is a function of its arguments gives every caller the answer for its own case, whoever else is
// calling. The first failure of each worker is recorded (replay = that case; it may need the company to fail again).
func RunConcurrent[T any](t *testing.T, run *evid.Run, items []T, workers, rounds int, oracle func(T) error) {
	if len(items) == 0 {
		return
	}
	var wg sync.WaitGroup
	errs := make(chan error, workers)
	for w := 0; w < workers; w++ {
		wg.Add(1)
		go func(w int) {
			defer wg.Done()
			for r := 0; r < rounds; r++ {
				for i := range items {
					c := items[(i*(2*w+1)+r+w)%len(items)]
					if err := oracle(c); err != nil {
						if strings.HasPrefix(err.Error(), "INFRA:") {
							return
						}
						msg := fmt.Sprintf("under concurrent use from %d goroutines: %v", workers, err)
						p := run.ViolationNamed(fmt.Sprintf("concurrent-w%d", w), c, msg)
						errs <- fmt.Errorf("violation (replay %s): %s", p, msg)
						return
					}
				}
			}
		}(w)
	}
	wg.Wait()
	close(errs)
	run.Class("concurrent:evaluations", int64(workers*rounds*len(items)))
	for err := range errs {
		t.Errorf("%v", err)
	}
}

// Retain keeps results the code under test has handed out and checks later that they still are what they were: a
// result that lives in memory the callee reuses (a pooled or per-object buffer) changes when the callee works again.
type Retain struct {
	mu    sync.Mutex
	items []retained
	Max   int // ring size (default 6)
}

type retained struct {
	what string
	live func() []byte
	snap []byte
}

// Keep remembers a result; live returns its current content.
func (r *Retain) Keep(what string, live func() []byte) {
	snap := append([]byte{}, live()...)
	r.mu.Lock()
	if r.Max == 0 {
		r.Max = 6
	}
	if len(r.items) >= r.Max {
		r.items = r.items[1:]
	}
	r.items = append(r.items, retained{what, live, snap})
	r.mu.Unlock()
}

// Verify reports the first kept result that has changed since it was handed out (and forgets it).
func (r *Retain) Verify() error {
	r.mu.Lock()
	defer r.mu.Unlock()
	for i, it := range r.items {
		if now := it.live(); string(now) != string(it.snap) {
			r.items = append(r.items[:i:i], r.items[i+1:]...)
			return fmt.Errorf("%s changed after it was returned: the callee went on using its memory (was %d bytes %x…, now %d bytes %x…)", it.what, len(it.snap), head(it.snap), len(now), head(now))
		}
	}
	return nil
}

func head(b []byte) []byte {
	if len(b) > 12 {
		return b[:12]
	}
	return b
}

// Scribble overwrites a buffer the harness owns (all of its capacity) the way a caller does who reuses its buffer for
// the next message: whatever the code under test handed out before must not depend on it any more.
func Scribble(b []byte) {
	b = b[:cap(b)]
	for i := range b {
		b[i] ^= 0xa5
	}
}
