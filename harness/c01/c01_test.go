package c01

import (
	"bytes"
	"fmt"
	"reflect"
	"sort"
	"strings"
	"sync"
	"sync/atomic"
	"testing"

	"github.com/xelaj/mtproto/internal/encoding/tl"
	"github.com/xelaj/mtproto/internal/mtproto/objects"
	"github.com/xelaj/mtproto/telegram/verifh/hx"
	"github.com/xelaj/mtproto/telegram/verifh/tlx"
	"pgregory.net/rapid"
	"verif/evid"
)

var run = evid.New("C01")

func TestMain(m *testing.M) { hx.Main(m, run) }

// Case: the type to build and the recorded choices of the builder (a pure function of them).
type Case struct {
	Type       string // Go type name of the top-level value ("*telegram.User", "telegram.BaseTheme")
	Enum       uint32 `json:",omitempty"` // for enum types: the member
	Wide       int    `json:",omitempty"` // > 0: the first vector of objects in the value is given exactly this many elements
	Draws      []uint64
	Depth      int
	Big        bool
	ForceState map[int]int    `json:",omitempty"`
	ForceMask  map[int]uint64 `json:",omitempty"`
	Huge       int            `json:",omitempty"` // set the first string/bytes field to this many bytes
	Dump       string         `json:",omitempty"` // rendering of the value, for the reader
}

var (
	reg    *tlx.Registry
	byName = map[string]reflect.Type{}
	names  []string // struct type names (registered + wrappers), sorted
)

func setup() {
	if reg != nil {
		return
	}
	reg = tlx.LoadRegistry()
	for _, t := range append(append([]reflect.Type{}, reg.Structs...), reg.Extra...) {
		byName[t.String()] = t
		names = append(names, t.String())
	}
	mcT := reg.ByID[0x73f1f8dc]
	if mcT != nil {
		byName[mcT.String()] = mcT
		names = append(names, mcT.String())
	}
	for t := range reg.Enums {
		byName[t.String()] = t
	}
	sort.Strings(names)
}

// excluded reports whether the type falls under an open known finding (excluded from generation, counted).
func excluded(name string) string {
	switch name {
	case "*objects.GzipPacked":
		if run.Open("gzip-packed-marshal") {
			return "gzip-packed-marshal"
		}
	case "*objects.MsgCopy":
		if run.Open("msg-copy-not-encodable") {
			return "msg-copy-not-encodable"
		}
	}
	return ""
}

func build(c *Case, src tlx.Src) (reflect.Value, *tlx.Builder, error) {
	t, ok := byName[c.Type]
	if !ok {
		return reflect.Value{}, nil, fmt.Errorf("INFRA: unknown type %s", c.Type)
	}
	b := &tlx.Builder{R: reg, S: src, MaxDepth: c.Depth, Big: c.Big}
	if t.Kind() == reflect.Uint32 {
		return reflect.ValueOf(c.Enum).Convert(t), b, nil
	}
	if c.ForceState != nil {
		b.Force = &tlx.Force{Type: t, State: c.ForceState, Mask: c.ForceMask}
	}
	v := b.Struct(t, c.Depth)
	if c.Huge > 0 {
		st := v.Elem()
		for i := 0; i < st.NumField(); i++ {
			f := st.Field(i)
			if f.Kind() == reflect.String {
				f.SetString(string(bytes.Repeat([]byte{0xa7}, c.Huge)))
				break
			}
			if f.Kind() == reflect.Slice && f.Type().Elem().Kind() == reflect.Uint8 {
				f.SetBytes(bytes.Repeat([]byte{0xa7}, c.Huge))
				break
			}
		}
	}
	if c.Wide > 0 && !widen(b, v, c.Wide) {
		return reflect.Value{}, nil, fmt.Errorf("INFRA: %s has no vector of objects to widen", c.Type)
	}
	return v, b, nil
}

// widen gives the first vector of objects found in v (two levels deep) exactly n elements.
func widen(b *tlx.Builder, v reflect.Value, n int) bool {
	var walk func(v reflect.Value, depth int) bool
	walk = func(v reflect.Value, depth int) bool {
		for v.Kind() == reflect.Ptr || v.Kind() == reflect.Interface {
			if v.IsNil() {
				return false
			}
			v = v.Elem()
		}
		if v.Kind() != reflect.Struct {
			return false
		}
		for i := 0; i < v.NumField(); i++ {
			f := v.Field(i)
			if f.Kind() == reflect.Slice && f.CanSet() {
				switch f.Type().Elem().Kind() {
				case reflect.Ptr, reflect.Interface, reflect.Struct:
					if f.Len() == 0 {
						continue // an absent conditional vector stays absent
					}
					out := reflect.MakeSlice(f.Type(), 0, n)
					for k := 0; k < n; k++ {
						out = reflect.Append(out, f.Index(k%f.Len()))
					}
					f.Set(out)
					return true
				}
			}
		}
		if depth > 0 {
			for i := 0; i < v.NumField(); i++ {
				if walk(v.Field(i), depth-1) {
					return true
				}
			}
		}
		return false
	}
	return walk(v, 2)
}

func oracle(v reflect.Value) error {
	return hx.Safely(func() error {
		val := v.Interface()
		b1, err := tl.Marshal(val)
		if err != nil {
			return fmt.Errorf("Marshal: %v", err)
		}
		b2, err := tl.Marshal(val)
		if err != nil || !bytes.Equal(b1, b2) {
			return fmt.Errorf("serialising the same value twice gives different bytes (err %v)", err)
		}
		// by naming the expected type
		var target reflect.Value
		if v.Kind() == reflect.Ptr {
			target = reflect.New(v.Type().Elem())
		} else {
			target = reflect.New(v.Type())
		}
		// the decoder reads from a buffer of the caller's (a receive buffer), which the caller uses again afterwards
		in := append(make([]byte, 0, len(b1)+8), b1...)
		if err := tl.Decode(in, target.Interface()); err != nil {
			return fmt.Errorf("Decode into %v: %v", target.Type(), err)
		}
		if !bytes.Equal(in, b1) {
			return fmt.Errorf("Decode changed the bytes it was given")
		}
		hx.Scribble(in)
		got := target
		if v.Kind() != reflect.Ptr {
			got = target.Elem()
		}
		if d := tlx.Equal(v, got); d != "" {
			return fmt.Errorf("Decode into the named type returns a different value at %s (compared after the caller reused the buffer it decoded from)", d)
		}
		if b3, err := tl.Marshal(got.Interface()); err != nil || !bytes.Equal(b3, b1) {
			return fmt.Errorf("re-serialising the decoded value gives different bytes (err %v)", err)
		}
		// by letting the decoder choose the type from the constructor id
		var id uint32
		if o, ok := val.(tl.Object); ok {
			id = o.CRC()
		}
		if rt, ok := reg.ByID[id]; ok && rt == v.Type() {
			in := append(make([]byte, 0, len(b1)+8), b1...)
			obj, err := tl.DecodeUnknownObject(in)
			if err != nil {
				return fmt.Errorf("DecodeUnknownObject: %v", err)
			}
			if !bytes.Equal(in, b1) {
				return fmt.Errorf("DecodeUnknownObject changed the bytes it was given")
			}
			hx.Scribble(in)
			if d := tlx.Equal(v, reflect.ValueOf(obj)); d != "" {
				return fmt.Errorf("DecodeUnknownObject returns a different value at %s (compared after the caller reused the buffer it decoded from)", d)
			}
			ov := reflect.ValueOf(obj)
			kept.Keep("a value returned by DecodeUnknownObject", func() []byte { return []byte(tlx.Equal(v, ov)) })
		}
		// what was handed out stays what it was while the codec works on other values
		if len(b1) > 1<<20 {
			return nil
		}
		kept.Keep("the bytes returned by Marshal", func() []byte { return b1 })
		kept.Keep("a value filled by Decode", func() []byte { return []byte(tlx.Equal(v, got)) })
		return kept.Verify()
	})
}

var pool hx.Pool[Case]

var kept hx.Retain

func evaluate(c *Case, src tlx.Src) error {
	rec := &tlx.Recorder{In: src}
	var v reflect.Value
	var b *tlx.Builder
	err := hx.Safely(func() error {
		var e error
		v, b, e = build(c, rec)
		return e
	})
	if err != nil {
		return fmt.Errorf("INFRA: builder: %v", err)
	}
	c.Draws = rec.Draws
	c.Dump = tlx.Dump(v, 60)
	var cls []string
	nt := false
	for f := range b.Feat {
		if strings.HasPrefix(f, "group:") {
			cls = append(cls, f)
			continue
		}
		cls = append(cls, "feat:"+f)
		switch f {
		case "group-present-mixed", "str-len-252..257", "str-len-65535..65536", "depth>=2", "vector>=2", "int128/256-leading-zero", "double-nonfinite-or-negzero":
			nt = true
		}
	}
	if c.Huge > 0 {
		cls = append(cls, "feat:str-len-2^24-1")
		nt = true
	}
	if c.Wide > 0 {
		cls = append(cls, "feat:vector>=999")
		nt = true
	}
	if c.Enum != 0 {
		cls = append(cls, "top-level-enum", fmt.Sprintf("ctor:%s#%08x", c.Type, c.Enum))
	} else {
		cls = append(cls, "ctor:"+c.Type)
	}
	run.Case(nt, evid.Hash(c.Type, c.Enum, fmt.Sprint(c.Draws), fmt.Sprint(c.ForceState), fmt.Sprint(c.ForceMask), c.Huge, c.Wide), cls...)
	if len(c.Dump) < 400 {
		run.Sample(map[string]any{"type": c.Type, "value": c.Dump, "draws": len(c.Draws)})
	}
	return oracle(v)
}

func firstDiffBytes(a, b []byte) int {
	for i := range a {
		if i >= len(b) || a[i] != b[i] {
			return i
		}
	}
	return len(a)
}

type rapidSrc struct{ t *rapid.T }

func (r rapidSrc) U64() uint64 {
	// mostly small numbers (choice indices), sometimes full-width
	return rapid.OneOf(rapid.Uint64Range(0, 63), rapid.Uint64()).Draw(r.t, "d")
}

// bigPacked: gzip_packed{msgs_state_info{info: n compressible bytes}} through Marshal and DecodeUnknownObject.
func bigPacked(n int) error {
	info := bytes.Repeat([]byte("0123456789abcdef"), n/16+1)[:n]
	in := &objects.GzipPacked{Obj: &objects.MsgsStateInfo{ReqMsgID: 7, Info: info}}
	err := hx.Safely(func() error {
		b, err := tl.Marshal(in)
		if err != nil {
			return fmt.Errorf("Marshal: %v", err)
		}
		obj, err := tl.DecodeUnknownObject(b)
		if err != nil {
			return fmt.Errorf("DecodeUnknownObject of the %d bytes Marshal produced: %v", len(b), err)
		}
		gz, ok := obj.(*objects.GzipPacked)
		if !ok {
			return fmt.Errorf("decoded to %T", obj)
		}
		inner, ok := gz.Obj.(*objects.MsgsStateInfo)
		if !ok || inner.ReqMsgID != 7 || !bytes.Equal(inner.Info, info) {
			return fmt.Errorf("the packed object decodes to a different value (%T)", gz.Obj)
		}
		return nil
	})
	if err != nil {
		return fmt.Errorf("gzip_packed{msgs_state_info with %d bytes}: %v", n, err)
	}
	return nil
}

func TestC01(t *testing.T) {
	setup()
	if p := hx.ReplayPath(); p != "" {
		var c Case
		if err := evid.LoadReplay(p, &c); err != nil {
			t.Fatal(err)
		}
		run.Case(true, 1)
		if strings.HasPrefix(c.Type, "special:big-packed:") {
			var n int
			fmt.Sscanf(c.Type, "special:big-packed:%d", &n)
			if err := bigPacked(n); err != nil {
				run.Violation(c, err.Error())
				t.Fatalf("replay fails: %v", err)
			}
			return
		}
		if err := evaluate(&c, &tlx.Replay{Draws: c.Draws}); err != nil {
			run.Violation(c, err.Error())
			t.Fatalf("replay fails: %v", err)
		}
		return
	}
	depth := run.Pick(3, 6)
	nsh := hx.NShards()
	t.Run("first-use-concurrent", func(t *testing.T) {
		// what the codec learns about a type the first time it meets it (tags, layouts) is learnt while other goroutines
		// meet the same type: before anything else has been encoded in this process, a value of a type with conditional
		// fields is serialised and read back from 12 goroutines released together; every one must produce the bytes a
		// later, sequential serialisation produces
		var n int64
		idx := 0
		limit := run.Pick(48, 600)
		for _, name := range names {
			pt := byName[name]
			if excluded(name) != "" || pt.Kind() != reflect.Ptr || pt.Elem().Kind() != reflect.Struct || len(tlx.Groups(pt.Elem())) == 0 {
				continue
			}
			idx++
			if idx%nsh != run.Shard || n >= int64(limit) {
				continue
			}
			c := &Case{Type: name, Depth: 2}
			rec := &tlx.Recorder{In: &tlx.Xor{S: run.Seed*131 + uint64(idx)}}
			var v reflect.Value
			if err := hx.Safely(func() error {
				var e error
				v, _, e = build(c, rec)
				return e
			}); err != nil {
				t.Fatalf("INFRA: builder: %v", err)
			}
			c.Draws = rec.Draws
			// every other type whose mandatory fields are all scalars, strings or vectors is met as its zero value: all
			// conditional fields absent, so a goroutine that wrongly takes one for mandatory writes bytes the others do not
			if idx/nsh%2 == 0 {
				plain := true
				for i := 0; i < pt.Elem().NumField(); i++ {
					f := pt.Elem().Field(i)
					if _, cond := f.Tag.Lookup("tl"); !cond && (f.Type.Kind() == reflect.Ptr || f.Type.Kind() == reflect.Interface) {
						plain = false
					}
				}
				if plain {
					v = reflect.New(pt.Elem())
					c.Draws = nil
					run.Class("first-use-concurrent:zero-value", 1)
				}
			}
			n++
			run.Case(true, evid.Hash("first-use", name, fmt.Sprint(c.Draws)), "first-use-concurrent")
			const workers = 12
			var ready, wg sync.WaitGroup
			var start atomic.Bool
			outs := make([][]byte, workers)
			errs := make([]error, workers)
			for w := 0; w < workers; w++ {
				ready.Add(1)
				wg.Add(1)
				go func(w int) {
					defer wg.Done()
					ready.Done()
					for !start.Load() { // spinning: all twelve leave within a fraction of a microsecond
					}
					errs[w] = hx.Safely(func() error {
						b, err := tl.Marshal(v.Interface())
						outs[w] = b
						if err != nil {
							return fmt.Errorf("Marshal: %v", err)
						}
						return oracle(v)
					})
				}(w)
			}
			ready.Wait()
			start.Store(true)
			wg.Wait()
			later, lerr := tl.Marshal(v.Interface())
			for w := 0; w < workers; w++ {
				var msg string
				switch {
				case errs[w] != nil && lerr == nil:
					msg = fmt.Sprintf("under concurrent first use of the type (12 goroutines): %v - a later sequential serialisation succeeds", errs[w])
				case lerr == nil && !bytes.Equal(outs[w], later):
					msg = fmt.Sprintf("under concurrent first use of the type (12 goroutines) the value is serialised to %d bytes that differ from the %d bytes of a later sequential serialisation at byte %d", len(outs[w]), len(later), firstDiffBytes(outs[w], later))
				}
				if msg != "" {
					p := run.ViolationNamed("first-use-"+strings.TrimPrefix(name, "*"), c, msg)
					t.Errorf("violation (replay %s): %s", p, msg)
					return
				}
			}
		}
		run.Exhaustive("types with conditional fields met for the first time by 12 goroutines at once (this shard's share, capped)", n)
	})
	if t.Failed() {
		return
	}
	t.Run("every-constructor", func(t *testing.T) {
		k := run.Pick(2, 24)
		var n int64
		idx := 0
		for _, name := range names {
			if why := excluded(name); why != "" {
				run.Excluded(why)
				continue
			}
			for j := 0; j < k; j++ {
				idx++
				if idx%nsh != run.Shard {
					continue
				}
				c := &Case{Type: name, Depth: depth, Big: false}
				n++
				if err := evaluate(c, &tlx.Xor{S: run.Seed*7919 + uint64(idx)}); err != nil {
					p := run.ViolationNamed(fmt.Sprintf("ctor-%s-%d", strings.TrimPrefix(name, "*"), j), c, err.Error())
					t.Errorf("violation (replay %s): %v", p, err)
					return
				}
			}
		}
		// every enum member as a top-level value
		var enumTypes []reflect.Type
		for et := range reg.Enums {
			enumTypes = append(enumTypes, et)
		}
		sort.Slice(enumTypes, func(i, j int) bool { return enumTypes[i].String() < enumTypes[j].String() })
		for _, et := range enumTypes {
			for _, m := range reg.Enums[et] {
				idx++
				if idx%nsh != run.Shard {
					continue
				}
				c := &Case{Type: et.String(), Enum: m}
				n++
				if err := evaluate(c, &tlx.Xor{S: 1}); err != nil {
					p := run.ViolationNamed(fmt.Sprintf("enum-%s-%08x", et.Name(), m), c, err.Error())
					t.Errorf("violation (replay %s): %v", p, err)
					return
				}
			}
		}
		run.Exhaustive("every registered constructor, wrapper and enum member as top-level value (this shard's share)", n)
	})
	t.Run("group-patterns", func(t *testing.T) {
		// every presence pattern of every multi-field conditional group
		var n int64
		idx := 0
		for _, name := range names {
			pt := byName[name]
			if pt.Kind() != reflect.Ptr || pt.Elem().Kind() != reflect.Struct {
				continue
			}
			for _, g := range tlx.MultiGroups(pt.Elem()) {
				type pat struct {
					state int
					mask  uint64
				}
				pats := []pat{{0, 0}, {1, 0}}
				for m := uint64(0); m < 1<<uint(g.ValueFields()); m++ {
					pats = append(pats, pat{2, m})
				}
				for _, p := range pats {
					for rep := 0; rep < run.Pick(2, 8); rep++ {
						idx++
						if idx%nsh != run.Shard {
							continue
						}
						c := &Case{Type: name, Depth: depth, ForceState: map[int]int{g.Bit(): p.state}, ForceMask: map[int]uint64{g.Bit(): p.mask}}
						n++
						if err := evaluate(c, &tlx.Xor{S: run.Seed*31 + uint64(idx)}); err != nil {
							pp := run.ViolationNamed(fmt.Sprintf("group-%s-bit%d-state%d-mask%d", strings.TrimPrefix(name, "*"), g.Bit(), p.state, p.mask), c, err.Error())
							t.Errorf("violation (replay %s): %v", pp, err)
							return
						}
					}
				}
			}
		}
		run.Exhaustive("presence patterns of all multi-field flag groups (this shard's share)", n)
	})
	t.Run("big-packed", func(t *testing.T) {
		// gzip_packed around an object of just under / just over 2^24 bytes (its one bytes field near the longest
		// string TL can carry; compressible, so that the packed data stays far below that limit)
		if run.Shard != 0 {
			return
		}
		for _, n := range []int{1<<24 - 40, 1<<24 - 1} {
			run.Case(true, evid.Hash("big-packed", n), "feat:gzip_packed-around-2^24-bytes")
			if err := bigPacked(n); err != nil {
				p := run.ViolationNamed(fmt.Sprintf("big-packed-%d", n), &Case{Type: fmt.Sprintf("special:big-packed:%d", n)}, err.Error())
				t.Errorf("violation (replay %s): %v", p, err)
				return
			}
		}
	})
	t.Run("wide-vectors", func(t *testing.T) {
		// very many items: vectors of objects with 999 / 1000 / 1001 / 4097 (thorough: 70000) elements
		widths := []int{999, 1000, 1001, 4097}
		if run.Thorough() {
			widths = append(widths, 65537, 70000)
		}
		var n int64
		idx := 0
		for _, name := range names {
			pt := byName[name]
			if excluded(name) != "" || pt.Kind() != reflect.Ptr || pt.Elem().Kind() != reflect.Struct {
				continue
			}
			has := false
			for i := 0; i < pt.Elem().NumField(); i++ {
				ft := pt.Elem().Field(i).Type
				if ft.Kind() == reflect.Slice && (ft.Elem().Kind() == reflect.Ptr || ft.Elem().Kind() == reflect.Interface) {
					has = true
				}
			}
			if !has {
				continue
			}
			idx++
			if idx%nsh != run.Shard || n >= int64(run.Pick(12, 400)) {
				continue
			}
			c := &Case{Type: name, Depth: 2, Wide: widths[idx/nsh%len(widths)], ForceState: nil}
			err := evaluate(c, &tlx.Xor{S: run.Seed*53 + uint64(idx)})
			if err != nil && strings.HasPrefix(err.Error(), "INFRA:") {
				continue // the drawn value left that vector absent
			}
			n++
			if err != nil {
				p := run.ViolationNamed(fmt.Sprintf("wide-%s-%d", strings.TrimPrefix(name, "*"), c.Wide), c, err.Error())
				t.Errorf("violation (replay %s): %v", p, err)
				return
			}
		}
		run.Exhaustive("vectors of objects widened to 999..4097 elements (this shard's share, capped)", n)
	})
	if run.Thorough() && run.Shard == 0 {
		t.Run("huge-strings", func(t *testing.T) {
			for _, name := range []string{"*telegram.InputMediaContact", "*telegram.UploadSaveFilePartParams", "*objects.MsgsStateInfo"} {
				c := &Case{Type: name, Depth: 1, Huge: 1<<24 - 1}
				if err := evaluate(c, &tlx.Xor{S: 5}); err != nil {
					p := run.ViolationNamed("huge-"+strings.TrimPrefix(name, "*"), c, err.Error())
					t.Errorf("violation (replay %s): %v", p, err)
				}
			}
		})
	}
	if t.Failed() {
		return
	}
	t.Run("generated", func(t *testing.T) {
		rapid.Check(t, func(t *rapid.T) {
			name := rapid.SampledFrom(names).Draw(t, "type")
			if why := excluded(name); why != "" {
				run.Excluded(why)
				t.Skip("excluded by open known finding")
			}
			c := &Case{Type: name, Depth: rapid.IntRange(1, depth).Draw(t, "depth"), Big: run.Thorough() && rapid.IntRange(0, 20).Draw(t, "big") == 0}
			if err := evaluate(c, rapidSrc{t}); err != nil {
				if strings.HasPrefix(err.Error(), "INFRA:") {
					t.Fatalf("%v", err)
				}
				hx.Fail(t, run, c, err)
			}
			if !c.Big && c.Huge == 0 {
				pool.Add(*c)
			}
		})
	})
	if t.Failed() {
		return
	}
	t.Run("concurrent", func(t *testing.T) {
		// senders and the receive loop serialise and deserialise at the same time
		hx.RunConcurrent(t, run, pool.Items, 8, run.Pick(2, 40), func(c Case) error {
			var v reflect.Value
			if err := hx.Safely(func() error {
				var e error
				v, _, e = build(&c, &tlx.Replay{Draws: c.Draws})
				return e
			}); err != nil {
				return fmt.Errorf("INFRA: builder: %v", err)
			}
			return oracle(v)
		})
	})
}
