package c03

// The envelope as the client meets it: sealed packets of one session arrive over a connection, in the order the server
// wrote them - which is not the order of their msg_ids (an answer stamped earlier may be written later, a message whose
// acknowledgement got lost arrives again, a server clock beyond 2038 gives negative ids) - and each is opened by
// transport.ReadMsg to exactly the fields the key holder sealed; what the client writes is opened by the reference.

import (
	"bytes"
	"context"
	"encoding/binary"
	"fmt"
	"io"
	"net"
	"strings"
	"testing"
	"time"

	"github.com/xelaj/mtproto/internal/mode"
	"github.com/xelaj/mtproto/internal/mtproto/messages"
	"github.com/xelaj/mtproto/internal/transport"
	"github.com/xelaj/mtproto/telegram/verifh/hx"
	"github.com/xelaj/mtproto/telegram/verifh/ref"
	"pgregory.net/rapid"
	"verif/evid"
)

type WireCase struct {
	Abridged bool
	Key      []byte
	Salt     int64
	Session  int64
	In       []WireMsg // server to client, in wire order
	Out      []WireMsg // client to server (written after everything was read)
}

type WireMsg struct {
	MsgID int64
	SeqNo int32
	Body  []byte
	Pad   []byte
}

type wireInf struct{ c *WireCase }

func (i wireInf) GetSessionID() int64  { return i.c.Session }
func (i wireInf) GetSeqNo() int32      { return 0 }
func (i wireInf) GetServerSalt() int64 { return i.c.Salt }
func (i wireInf) GetAuthKey() []byte   { return i.c.Key }

func wireFrame(abridged bool, p []byte) []byte {
	if abridged {
		return ref.FrameAbridged(p)
	}
	return ref.FrameIntermediate(p)
}

func oracleWire(c WireCase) error {
	ln, err := net.Listen("tcp", "127.0.0.1:0")
	if err != nil {
		return fmt.Errorf("INFRA: %v", err)
	}
	defer ln.Close()
	var stream []byte
	for _, m := range c.In {
		stream = append(stream, wireFrame(c.Abridged, ref.Seal(c.Key, ref.Envelope{Salt: c.Salt, Session: c.Session, MsgID: m.MsgID, SeqNo: m.SeqNo, Body: m.Body}, 8, m.Pad))...)
	}
	type back struct {
		frames [][]byte
		err    error
	}
	backCh := make(chan back, 1)
	go func() {
		var b back
		defer func() { backCh <- b }()
		conn, err := ln.Accept()
		if err != nil {
			b.err = err
			return
		}
		defer conn.Close()
		conn.(*net.TCPConn).SetLinger(0)
		conn.SetDeadline(time.Now().Add(60 * time.Second))
		ann := ref.IntermediateAnnouncement()
		if c.Abridged {
			ann = ref.AbridgedAnnouncement()
		}
		got := make([]byte, len(ann))
		if _, err := io.ReadFull(conn, got); err != nil || !bytes.Equal(got, ann) {
			b.err = fmt.Errorf("announcement % x (err %v)", got, err)
			return
		}
		if _, err := conn.Write(stream); err != nil {
			b.err = err
			return
		}
		for range c.Out {
			var n int
			if c.Abridged {
				h := make([]byte, 1)
				if _, err := io.ReadFull(conn, h); err != nil {
					b.err = err
					return
				}
				n = int(h[0]) * 4
				if h[0] == 0x7f {
					h3 := make([]byte, 3)
					if _, err := io.ReadFull(conn, h3); err != nil {
						b.err = err
						return
					}
					n = (int(h3[0]) | int(h3[1])<<8 | int(h3[2])<<16) * 4
				}
			} else {
				h := make([]byte, 4)
				if _, err := io.ReadFull(conn, h); err != nil {
					b.err = err
					return
				}
				n = int(binary.LittleEndian.Uint32(h))
			}
			f := make([]byte, n)
			if _, err := io.ReadFull(conn, f); err != nil {
				b.err = err
				return
			}
			b.frames = append(b.frames, f)
		}
	}()
	ctx, cancel := context.WithCancel(context.Background())
	defer cancel()
	v := mode.Intermediate
	if c.Abridged {
		v = mode.Abridged
	}
	tr, err := transport.NewTransport(wireInf{&c}, transport.TCPConnConfig{Ctx: ctx, Host: ln.Addr().String(), Timeout: 20 * time.Second}, v)
	if err != nil {
		return fmt.Errorf("INFRA: NewTransport: %v", err)
	}
	defer tr.Close()
	var got []*messages.Encrypted
	for i, want := range c.In {
		var m messages.Common
		var rerr error
		if perr := hx.Safely(func() error { m, rerr = tr.ReadMsg(); return nil }); perr != nil {
			return fmt.Errorf("reading packet %d of %d: %v", i+1, len(c.In), perr)
		}
		if rerr != nil {
			return fmt.Errorf("packet %d of %d (msg_id %d, after msg_id %s), sealed by the key holder for this session, was refused: %v", i+1, len(c.In), want.MsgID, prevIDs(c.In[:i]), rerr)
		}
		e, ok := m.(*messages.Encrypted)
		if !ok {
			return fmt.Errorf("packet %d came back as %T", i+1, m)
		}
		got = append(got, e)
	}
	// everything delivered stays what it was while later packets are read
	for i, want := range c.In {
		e := got[i]
		if e.MsgID != want.MsgID || e.SeqNo != want.SeqNo || e.Salt != c.Salt || e.SessionID != c.Session || !bytes.Equal(e.Msg, want.Body) {
			return fmt.Errorf("packet %d of %d was opened to msg_id=%d seq_no=%d salt=%d session=%d body[%d]; the key holder sealed msg_id=%d seq_no=%d salt=%d session=%d body[%d]",
				i+1, len(c.In), e.MsgID, e.SeqNo, e.Salt, e.SessionID, len(e.Msg), want.MsgID, want.SeqNo, c.Salt, c.Session, len(want.Body))
		}
	}
	for i, o := range c.Out {
		if err := hx.Safely(func() error { return tr.WriteMsg(&messages.Encrypted{Msg: o.Body, MsgID: o.MsgID}, false) }); err != nil {
			return fmt.Errorf("writing message %d: %v", i+1, err)
		}
	}
	b := <-backCh
	if b.err != nil {
		if strings.Contains(b.err.Error(), "announcement") {
			return fmt.Errorf("the client did not announce its transport: %v", b.err)
		}
		return fmt.Errorf("INFRA: reference peer: %v", b.err)
	}
	for i, f := range b.frames {
		e, pad, err := ref.Open(c.Key, f, 0)
		if err != nil {
			return fmt.Errorf("client message %d cannot be opened by a conformant server: %v", i+1, err)
		}
		o := c.Out[i]
		if e.MsgID != o.MsgID || e.Salt != c.Salt || e.Session != c.Session || !bytes.Equal(e.Body, o.Body) || pad < 0 || pad > 15 {
			return fmt.Errorf("client message %d opened to msg_id=%d salt=%d session=%d body[%d] padding=%d; the client was given msg_id=%d salt=%d session=%d body[%d]", i+1, e.MsgID, e.Salt, e.Session, len(e.Body), pad, o.MsgID, c.Salt, c.Session, len(o.Body))
		}
	}
	return nil
}

func prevIDs(ms []WireMsg) string {
	if len(ms) == 0 {
		return "none"
	}
	var s []string
	for _, m := range ms {
		s = append(s, fmt.Sprint(m.MsgID))
	}
	return strings.Join(s, ", ")
}

func genWire(t *rapid.T) (WireCase, []string) {
	c := WireCase{Abridged: rapid.Bool().Draw(t, "abridged"), Key: genKey(t), Salt: i64(t, "salt"), Session: i64(t, "session")}
	n := rapid.IntRange(1, 6).Draw(t, "n")
	base := (time.Now().Unix() + int64(rapid.SampledFrom([]int64{0, 0, 0, 1 << 31}).Draw(t, "clock"))) << 32
	var cls []string
	var ids []int64
	for i := 0; i < n; i++ {
		ids = append(ids, base+int64(i)*1024+int64(rapid.SampledFrom([]int{1, 3}).Draw(t, "parity")))
	}
	order := rapid.SampledFrom([]string{"rising", "falling", "shuffled", "redelivery"}).Draw(t, "order")
	switch order {
	case "falling":
		for i, j := 0, len(ids)-1; i < j; i, j = i+1, j-1 {
			ids[i], ids[j] = ids[j], ids[i]
		}
	case "shuffled":
		for i := len(ids) - 1; i > 0; i-- {
			j := rapid.IntRange(0, i).Draw(t, "perm")
			ids[i], ids[j] = ids[j], ids[i]
		}
	case "redelivery":
		if len(ids) > 1 {
			ids[len(ids)-1] = ids[rapid.IntRange(0, len(ids)-2).Draw(t, "again")]
		}
	}
	lower := false
	for i := 1; i < len(ids); i++ {
		if ids[i] <= ids[i-1] {
			lower = true
		}
	}
	if lower {
		cls = append(cls, "wire:msg_id-not-above-the-previous-one")
	}
	if base < 0 {
		cls = append(cls, "wire:server-clock-after-2038")
	}
	for i := range ids {
		c.In = append(c.In, WireMsg{MsgID: ids[i], SeqNo: int32(rapid.IntRange(0, 1<<20).Draw(t, "seq")), Body: hx.FixedBytes(t, "body", 4*rapid.IntRange(0, 64).Draw(t, "words")), Pad: hx.FixedBytes(t, "pad", 16)})
	}
	for i, k := 0, rapid.IntRange(0, 3).Draw(t, "nout"); i < k; i++ {
		c.Out = append(c.Out, WireMsg{MsgID: (time.Now().Unix()<<32 + int64(i)*4096) &^ 3, Body: hx.FixedBytes(t, "obody", 4*rapid.IntRange(1, 64).Draw(t, "owords"))})
	}
	if len(c.Out) > 0 {
		cls = append(cls, "wire:client-writes")
	}
	return c, append(cls, "wire:order="+order)
}

func TestC03Wire(t *testing.T) {
	if hx.ReplayPath() != "" {
		return
	}
	rapid.Check(t, func(t *rapid.T) {
		c, cls := genWire(t)
		run.Case(true, evid.Hash(c.Key, c.Salt, c.Session, fmt.Sprint(c.In), fmt.Sprint(c.Out), c.Abridged), append(cls, "wire")...)
		if err := oracleWire(c); err != nil {
			if strings.HasPrefix(err.Error(), "INFRA:") {
				t.Skipf("%v", err)
			}
			p := run.Violation(map[string]any{"Wire": c}, err.Error())
			t.Fatalf("violation (replay %s): %v", p, err)
		}
	})
}
