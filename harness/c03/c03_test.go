package c03

import (
	"bytes"
	"encoding/binary"
	"fmt"
	"sync"
	"testing"

	"github.com/xelaj/mtproto/internal/mtproto/messages"
	"github.com/xelaj/mtproto/telegram/verifh/hx"
	"github.com/xelaj/mtproto/telegram/verifh/ref"
	"pgregory.net/rapid"
	"verif/evid"
)

var run = evid.New("C03")

func TestMain(m *testing.M) { hx.Main(m, run) }

type Case struct {
	Dir     string // c2s | s2c | plain
	Key     []byte
	Salt    int64
	Session int64
	MsgID   int64
	SeqNo   int32 // the client's counter (even) for c2s; the wire seq_no for s2c
	Ack     bool
	Body    []byte
	Pad     []byte
	// Derived: what the derived fields of the message struct (AuthKeyHash, MsgKey) hold when it is handed to Serialize:
	// "" nothing, "consistent" the values that belong to the key and body, "stale" values of another key / message
	Derived string `json:",omitempty"`
}

type informator struct{ c *Case }

func (i informator) GetSessionID() int64  { return i.c.Session }
func (i informator) GetSeqNo() int32      { return i.c.SeqNo }
func (i informator) GetServerSalt() int64 { return i.c.Salt }
func (i informator) GetAuthKey() []byte   { return i.c.Key }

// kept: packets and messages handed out earlier must stay what they were while others are sealed and opened
var kept hx.Retain

func oracle(c Case) error {
	if err := oracleOne(c); err != nil {
		return err
	}
	return kept.Verify()
}

// keyBufs: the caller keeps its auth key in a buffer of its own and writes the next key over the previous one (a
// re-keyed session, the next stored session): the same memory, other content. Last in, first out, so that sequential
// calls see one buffer again and again; concurrent callers each hold their own while they work.
var keyBufs struct {
	mu   sync.Mutex
	free [][]byte
}

func takeKeyBuf(key []byte) []byte {
	keyBufs.mu.Lock()
	var b []byte
	if n := len(keyBufs.free); n > 0 {
		b, keyBufs.free = keyBufs.free[n-1], keyBufs.free[:n-1]
	} else {
		b = make([]byte, 256)
	}
	keyBufs.mu.Unlock()
	if len(key) != len(b) {
		return append([]byte{}, key...)
	}
	copy(b, key)
	return b
}

func giveKeyBuf(b []byte) {
	if len(b) != 256 {
		return
	}
	keyBufs.mu.Lock()
	keyBufs.free = append(keyBufs.free, b)
	keyBufs.mu.Unlock()
}

func oracleOne(c Case) error {
	return hx.Safely(func() error {
		switch c.Dir {
		case "c2s":
			key := takeKeyBuf(c.Key)
			defer giveKeyBuf(key)
			cc := c
			cc.Key = key
			em := &messages.Encrypted{Msg: append([]byte{}, c.Body...), MsgID: c.MsgID}
			switch c.Derived {
			case "consistent":
				em.AuthKeyHash = ref.AuthKeyID(c.Key)
			case "stale":
				// the key id and message key of some other key and message: the envelope is derived from the auth key in use
				em.AuthKeyHash = ref.SHA1(c.Pad, []byte("other key"))[:8]
				em.MsgKey = ref.SHA1(c.Pad, []byte("other message"))[:16]
			}
			pkt, err := em.Serialize(informator{&cc}, c.Ack)
			if err != nil {
				return fmt.Errorf("Serialize: %v", err)
			}
			if len(pkt) < 24 || !bytes.Equal(pkt[:8], ref.AuthKeyID(c.Key)) {
				return fmt.Errorf("auth_key_id is not SHA1(auth_key)[12:20] (the caller keeps the key in one buffer and had another key in it before)")
			}
			if (len(pkt)-24)%16 != 0 {
				return fmt.Errorf("encrypted part has length %d, not a multiple of 16", len(pkt)-24)
			}
			e, padding, err := ref.Open(c.Key, pkt, 0)
			if err != nil {
				return fmt.Errorf("a conformant server cannot open the packet: %v", err)
			}
			wantSeq := c.SeqNo
			if c.Ack {
				wantSeq |= 1
			}
			if e.Salt != c.Salt || e.Session != c.Session || e.MsgID != c.MsgID || e.SeqNo != wantSeq || !bytes.Equal(e.Body, c.Body) {
				return fmt.Errorf("server recovers salt=%d session=%d msg_id=%d seq_no=%d body[%d], sent salt=%d session=%d msg_id=%d seq_no=%d body[%d]",
					e.Salt, e.Session, e.MsgID, e.SeqNo, len(e.Body), c.Salt, c.Session, c.MsgID, wantSeq, len(c.Body))
			}
			if padding < 0 || padding > 15 {
				return fmt.Errorf("padding of %d bytes (must be 0..15)", padding)
			}
			if !bytes.Equal(key, c.Key) {
				return fmt.Errorf("Serialize modified the auth key")
			}
			kept.Keep("a packet returned by Encrypted.Serialize", func() []byte { return pkt })
		case "s2c":
			pkt := ref.Seal(c.Key, ref.Envelope{Salt: c.Salt, Session: c.Session, MsgID: c.MsgID, SeqNo: c.SeqNo, Body: c.Body}, 8, c.Pad)
			key := takeKeyBuf(c.Key)
			defer giveKeyBuf(key)
			in := append(make([]byte, 0, len(pkt)+16), pkt...)
			m, err := messages.DeserializeEncrypted(in, key)
			if err != nil {
				return fmt.Errorf("DeserializeEncrypted refuses a packet sealed by a conformant server: %v", err)
			}
			// the caller reads the next packet into the same receive buffer
			hx.Scribble(in)
			if m.Salt != c.Salt || m.SessionID != c.Session || m.MsgID != c.MsgID || m.SeqNo != c.SeqNo || !bytes.Equal(m.Msg, c.Body) {
				return fmt.Errorf("opened to salt=%d session=%d msg_id=%d seq_no=%d body[%d], sealed salt=%d session=%d msg_id=%d seq_no=%d body[%d]",
					m.Salt, m.SessionID, m.MsgID, m.SeqNo, len(m.Msg), c.Salt, c.Session, c.MsgID, c.SeqNo, len(c.Body))
			}
			if m.GetMsgID() != int(c.MsgID) || m.GetSeqNo() != int(c.SeqNo) || !bytes.Equal(m.GetMsg(), c.Body) {
				return fmt.Errorf("accessor values differ from the sealed ones")
			}
			kept.Keep("the body of a message returned by DeserializeEncrypted", func() []byte { return m.Msg })
		case "plain":
			pkt, err := (&messages.Unencrypted{Msg: append([]byte{}, c.Body...), MsgID: c.MsgID}).Serialize(informator{&c})
			if err != nil {
				return err
			}
			want := make([]byte, 8, 20+len(c.Body))
			want = binary.LittleEndian.AppendUint64(want, uint64(c.MsgID))
			want = binary.LittleEndian.AppendUint32(want, uint32(len(c.Body)))
			want = append(want, c.Body...)
			if !bytes.Equal(pkt, want) {
				return fmt.Errorf("plain packet is not 8 zero bytes | msg_id | exact length | body")
			}
			kept.Keep("a packet returned by Unencrypted.Serialize", func() []byte { return pkt })
			// the reference-built plain packet of a server (msg_id with server parity) deserialises to (msg_id, body)
			sid := c.MsgID | 1
			in := make([]byte, 8, 20+len(c.Body))
			in = binary.LittleEndian.AppendUint64(in, uint64(sid))
			in = binary.LittleEndian.AppendUint32(in, uint32(len(c.Body)))
			in = append(in, c.Body...)
			m, err := messages.DeserializeUnencrypted(in)
			if err != nil {
				return fmt.Errorf("DeserializeUnencrypted refuses a conformant plain packet: %v", err)
			}
			if m.MsgID != sid || !bytes.Equal(m.Msg, c.Body) || m.GetSeqNo() != 0 {
				return fmt.Errorf("plain packet opened to msg_id=%d body[%d], want msg_id=%d body[%d]", m.MsgID, len(m.Msg), sid, len(c.Body))
			}
		default:
			return fmt.Errorf("bad dir")
		}
		return nil
	})
}

func record(c Case) {
	cls := []string{fmt.Sprintf("%s:len%%16=%d", c.Dir, len(c.Body)%16)}
	if c.Dir == "c2s" {
		cls = append(cls, fmt.Sprintf("c2s:ack=%v", c.Ack))
		if c.SeqNo < 0 {
			cls = append(cls, "c2s:seq_no>=2^31")
		}
		if c.Derived != "" {
			cls = append(cls, "c2s:derived-fields-"+c.Derived)
		}
	}
	if len(c.Body) >= 65536 {
		cls = append(cls, c.Dir+":len>=65536")
	}
	run.Case(len(c.Body) > 0, evid.Hash(c.Dir, c.Key, c.Salt, c.Session, c.MsgID, c.SeqNo, c.Ack, c.Body, c.Derived), cls...)
	run.Sample(map[string]any{"dir": c.Dir, "salt": c.Salt, "session": c.Session, "msg_id": c.MsgID, "seq_no": c.SeqNo, "ack": c.Ack,
		"body_len": len(c.Body), "key_head": fmt.Sprintf("%x", c.Key[:min(8, len(c.Key))])})
}

func genKey(t *rapid.T) []byte {
	switch rapid.IntRange(0, 9).Draw(t, "keyclass") {
	case 0:
		return make([]byte, 256)
	case 1:
		return bytes.Repeat([]byte{0xff}, 256)
	case 2:
		k := hx.FixedBytes(t, "key", 256)
		k[0], k[1] = 0, 0
		return k
	}
	return hx.FixedBytes(t, "key", 256)
}

func i64(t *rapid.T, l string) int64 {
	return rapid.OneOf(rapid.SampledFrom([]int64{0, 1, -1, 1<<63 - 1, -1 << 63}), rapid.Int64()).Draw(t, l)
}

func gen(t *rapid.T) Case {
	c := Case{Dir: rapid.SampledFrom([]string{"c2s", "c2s", "s2c", "s2c", "plain"}).Draw(t, "dir")}
	c.Key = genKey(t)
	c.Salt, c.Session = i64(t, "salt"), i64(t, "session")
	c.Body = hx.Bytes(t, "body", run.Pick(2048, 8192), 0, 1, 15, 16, 17, 65535, 65536)
	c.Pad = hx.FixedBytes(t, "pad", 16)
	switch c.Dir {
	case "c2s":
		c.MsgID = i64(t, "msgid") &^ 3
		// the client's counter is an int32 that grows by two per message: any even value, the far end included
		c.SeqNo = rapid.OneOf(rapid.SampledFrom([]int32{0, 2, 1<<31 - 2, -1 << 31, -2, -1<<31 + 2}), rapid.Int32()).Draw(t, "seq") &^ 1
		c.Ack = rapid.Bool().Draw(t, "ack")
		c.Derived = rapid.SampledFrom([]string{"", "consistent", "stale"}).Draw(t, "derived")
	case "s2c":
		c.MsgID = i64(t, "msgid")&^3 | rapid.SampledFrom([]int64{1, 3}).Draw(t, "parity")
		c.SeqNo = rapid.Int32().Draw(t, "seq")
	case "plain":
		c.MsgID = i64(t, "msgid") &^ 3
	}
	return c
}

func TestC03(t *testing.T) {
	if p := hx.ReplayPath(); p != "" {
		var c Case
		if err := evid.LoadReplay(p, &c); err != nil {
			t.Fatal(err)
		}
		record(c)
		run.Case(true, 1)
		run.Case(true, 2)
		// the case as the run saw it: the caller's key buffer held another key before
		prev := c
		prev.Key = append([]byte{}, c.Key...)
		for i := range prev.Key {
			prev.Key[i] ^= 0xff
		}
		oracle(prev)
		if err := oracle(c); err != nil {
			run.Violation(c, err.Error())
			t.Fatalf("replay fails: %v", err)
		}
		return
	}
	t.Run("exhaustive-lengths", func(t *testing.T) {
		// every body length 0..N once per direction, spread over the shards
		maxLen := run.Pick(1100, 65536)
		nsh := max(1, hx.NShards())
		n := int64(0)
		for l := run.Shard; l <= maxLen; l += nsh {
			for _, dir := range []string{"c2s", "s2c"} {
				c := Case{Dir: dir, Key: hx.Det(run.Seed+uint64(l), 256), Salt: int64(hx.DetU64(run.Seed + uint64(l) + 1)), Session: int64(hx.DetU64(run.Seed + uint64(l) + 2)),
					MsgID: int64(hx.DetU64(run.Seed+uint64(l)+3)) &^ 3, SeqNo: int32(l * 2), Ack: l%2 == 0, Body: hx.Det(run.Seed+uint64(l)+4, l), Pad: hx.Det(uint64(l), 16)}
				if dir == "s2c" {
					c.MsgID |= 1
				}
				record(c)
				n++
				if err := oracle(c); err != nil {
					p := run.ViolationNamed(fmt.Sprintf("%s-len%d", dir, l), c, err.Error())
					t.Fatalf("violation (replay %s): %v", p, err)
				}
			}
		}
		run.Exhaustive("body lengths 0..N, both directions", n)
	})
	t.Run("concurrent", func(t *testing.T) {
		// the same oracle from several goroutines at once: sending goroutines and the receive loop of a client (and
		// several clients in one process) seal and open packets concurrently
		workers, per := 8, run.Pick(1500, 20000)
		errs := make(chan error, workers)
		var wg sync.WaitGroup
		for w := 0; w < workers; w++ {
			wg.Add(1)
			go func(w int) {
				defer wg.Done()
				for i := 0; i < per; i++ {
					sd := run.Seed*1000003 + uint64(run.Shard)*7919 + uint64(w)*104729 + uint64(i)
					l := int(hx.DetU64(sd) % 600)
					dir := []string{"c2s", "s2c"}[(w+i)%2]
					c := Case{Dir: dir, Key: hx.Det(sd+1, 256), Salt: int64(hx.DetU64(sd + 2)), Session: int64(hx.DetU64(sd + 3)), MsgID: int64(hx.DetU64(sd+4)) &^ 3,
						SeqNo: int32(i * 2), Ack: i%2 == 0, Body: hx.Det(sd+5, l), Pad: hx.Det(sd+6, 16)}
					if dir == "s2c" {
						c.MsgID |= 1
					}
					run.Case(l > 0, evid.Hash("conc", c.Dir, c.Key, c.MsgID, c.Body), "concurrent:"+dir)
					if err := oracle(c); err != nil {
						p := run.ViolationNamed(fmt.Sprintf("concurrent-w%d-i%d", w, i), c, "under concurrent use from 8 goroutines: "+err.Error())
						errs <- fmt.Errorf("violation (replay %s): %v", p, err)
						return
					}
				}
			}(w)
		}
		wg.Wait()
		close(errs)
		for err := range errs {
			t.Errorf("%v", err)
		}
	})
	if t.Failed() {
		return
	}
	t.Run("generated", func(t *testing.T) {
		rapid.Check(t, func(t *rapid.T) {
			c := gen(t)
			record(c)
			if err := oracle(c); err != nil {
				hx.Fail(t, run, c, err)
			}
		})
	})
}
