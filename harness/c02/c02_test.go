package c02

import (
	"bytes"
	"compress/gzip"
	"encoding/binary"
	"errors"
	"fmt"
	"math/big"
	"reflect"
	"strings"
	"sync/atomic"
	"testing"

	"github.com/xelaj/mtproto/internal/encoding/tl"
	"github.com/xelaj/mtproto/internal/mtproto/messages"
	"github.com/xelaj/mtproto/internal/mtproto/objects"
	"github.com/xelaj/mtproto/telegram/verifh/hx"
	"github.com/xelaj/mtproto/telegram/verifh/tlx"
	"pgregory.net/rapid"
	"verif/evid"
)

var run = evid.New("C02")

func TestMain(m *testing.M) { hx.Main(m, run) }

type Case struct {
	Def       string // "file:name" of the definition, or a special: "special:container", "special:gzip", "special:vector"
	Draws     []uint64
	Depth     int
	Big       bool
	ForceBits map[int]bool `json:",omitempty"`
	StrLen    int          `json:",omitempty"`
	Dump      string       `json:",omitempty"`
}

var (
	sch   *tlx.Schema
	reg   *tlx.Registry
	scope []*tlx.Def
)

func setup(t *testing.T) {
	if sch != nil {
		return
	}
	var err error
	sch, err = tlx.Load()
	if err != nil {
		t.Fatalf("INFRA: %v", err)
	}
	reg = tlx.LoadRegistry()
	notImpl := map[string]bool{"invokeAfterMsg": true, "invokeAfterMsgs": true, "invokeWithoutUpdates": true, "invokeWithMessagesRange": true}
	for _, d := range sch.API(true) {
		if d.Generic && notImpl[d.Name] {
			continue
		}
		scope = append(scope, d)
	}
	for _, n := range tlx.WireUsedMTProto {
		if d := sch.MTProto(n); d != nil && !tlx.HandWritten[n] {
			scope = append(scope, d)
		}
	}
}

func firstDiff(a, b []byte) int {
	for i := range a {
		if i >= len(b) || a[i] != b[i] {
			return i
		}
	}
	return len(a)
}

// check compares the code under test with the reference for one abstract value.
func check(v *tlx.Val) (skipped bool, err error) {
	err = hx.Safely(func() error {
		refB, refErr := tlx.Encode(v)
		gv, berr := tlx.Bridge(reg, v)
		if berr != nil {
			if errors.Is(berr, tlx.ErrSkip) {
				skipped = true
				return nil
			}
			return fmt.Errorf("INFRA: bridge: %v", berr)
		}
		got, merr := tl.Marshal(gv.Interface())
		if refErr != nil {
			if !errors.Is(refErr, tlx.ErrTooLong) {
				return fmt.Errorf("INFRA: reference encoder: %v", refErr)
			}
			if merr == nil {
				return fmt.Errorf("%s: a byte string of 2^24 bytes or more was encoded (%d bytes out) instead of being refused", v.Def.Name, len(got))
			}
			return nil
		}
		if merr != nil {
			return fmt.Errorf("%s: Marshal: %v", v.Def.Name, merr)
		}
		if !bytes.Equal(got, refB) {
			d := firstDiff(got, refB)
			return fmt.Errorf("%s: serialisation differs from the schema-defined one at byte %d (got %d bytes, reference %d bytes): got …%x, want …%x", v.Def.Name, d, len(got), len(refB),
				got[min(d, len(got)):min(d+8, len(got))], refB[min(d, len(refB)):min(d+8, len(refB))])
		}
		// bytes built from the schema decode to the corresponding value
		if _, registered := reg.ByID[v.Def.ID]; registered && !v.Def.Generic {
			obj, err := tl.DecodeUnknownObject(refB)
			if err != nil {
				return fmt.Errorf("%s: DecodeUnknownObject of the reference bytes: %v", v.Def.Name, err)
			}
			if d := tlx.Equal(gv, reflect.ValueOf(obj)); d != "" {
				return fmt.Errorf("%s: reference bytes decode to a different value at %s", v.Def.Name, d)
			}
		}
		if gv.Kind() == reflect.Ptr {
			target := reflect.New(gv.Type().Elem())
			if err := tl.Decode(refB, target.Interface()); err != nil {
				return fmt.Errorf("%s: Decode of the reference bytes into %v: %v", v.Def.Name, target.Type(), err)
			}
			if d := tlx.Equal(gv, target); d != "" {
				return fmt.Errorf("%s: reference bytes decode (named type) to a different value at %s", v.Def.Name, d)
			}
		}
		// the same value with its first vector of objects made long (1200 items, as a contact list or a dialog list has):
		// same serialisation, and the bytes decode to it
		if wideCount.Add(1)%8 == 0 {
			if w := widen(v, 1200); w != nil {
				refW, err1 := tlx.Encode(w)
				gw, err2 := tlx.Bridge(reg, w)
				if err1 == nil && err2 == nil {
					run.Class("feat:vector-of-1200-objects", 1)
					gotW, err := tl.Marshal(gw.Interface())
					if err != nil {
						return fmt.Errorf("%s with a vector of 1200 objects: Marshal: %v", v.Def.Name, err)
					}
					if !bytes.Equal(gotW, refW) {
						return fmt.Errorf("%s with a vector of 1200 objects: serialisation differs from the schema-defined one at byte %d", v.Def.Name, firstDiff(gotW, refW))
					}
					if _, registered := reg.ByID[v.Def.ID]; registered && !v.Def.Generic {
						obj, err := tl.DecodeUnknownObject(refW)
						if err != nil {
							return fmt.Errorf("%s with a vector of 1200 objects: DecodeUnknownObject of the reference bytes: %v", v.Def.Name, err)
						}
						if d := tlx.Equal(gw, reflect.ValueOf(obj)); d != "" {
							return fmt.Errorf("%s with a vector of 1200 objects: reference bytes decode to a different value at %s", v.Def.Name, d)
						}
					}
				}
			}
		}
		// the same value again, its bytes fields cut out of one buffer of the caller's (adjacent, with spare capacity over
		// the following ones): same serialisation, and the caller's buffer is left alone
		if ga, err := tlx.Bridge(reg, v); err == nil {
			if blob, n := tlx.Adjacent(ga); n >= 1 {
				run.Class("feat:bytes-fields-cut-from-one-buffer", 1)
				before := append([]byte{}, blob...)
				gotA, err := tl.Marshal(ga.Interface())
				if err != nil {
					return fmt.Errorf("%s with its bytes fields cut from one buffer: Marshal: %v", v.Def.Name, err)
				}
				if !bytes.Equal(gotA, refB) {
					return fmt.Errorf("%s with its %d bytes fields cut from one buffer: serialisation differs from the schema-defined one at byte %d", v.Def.Name, n, firstDiff(gotA, refB))
				}
				if !bytes.Equal(blob, before) {
					return fmt.Errorf("%s: Marshal wrote into the caller's buffer behind a bytes field (offset %d of %d)", v.Def.Name, firstDiff(blob, before), len(blob))
				}
			}
		}
		// the same value again with one sub-object in two places (a caller resolves a peer once and uses it twice, a
		// vector names one object twice): the same Go pointer on both sides
		if shareSubvalues(v) {
			run.Class("feat:one-object-in-two-places", 1)
			refS, err := tlx.Encode(v)
			if err != nil {
				return nil
			}
			gs, err := tlx.BridgeShared(reg, v)
			if err != nil {
				return nil
			}
			gotS, err := tl.Marshal(gs.Interface())
			if err != nil {
				return fmt.Errorf("%s with one object referenced from two places: Marshal: %v", v.Def.Name, err)
			}
			if !bytes.Equal(gotS, refS) {
				return fmt.Errorf("%s with one object referenced from two places: serialisation differs from the schema-defined one at byte %d", v.Def.Name, firstDiff(gotS, refS))
			}
		}
		return nil
	})
	return
}

var wideCount atomic.Int64

// widen returns a copy of v (top level copied, the rest shared) in which the first non-empty vector of objects has n
// items (the existing ones repeated); nil if v has no such vector.
func widen(v *tlx.Val, n int) *tlx.Val {
	for i, p := range v.Def.Params {
		items, ok := v.Fields[i].([]any)
		if !ok || p.Type.Kind != "vector" || len(items) == 0 {
			continue
		}
		if _, isObj := items[0].(*tlx.Val); !isObj {
			continue
		}
		w := *v
		w.Fields = append([]any{}, v.Fields...)
		wide := make([]any, 0, n)
		for j := 0; j < n; j++ {
			wide = append(wide, items[j%len(items)])
		}
		w.Fields[i] = wide
		return &w
	}
	return nil
}

// shareSubvalues makes the second of two sub-values of the same constructor (two fields, or two items of one vector)
// the very same abstract value as the first. Reports whether it found such a pair.
func shareSubvalues(v *tlx.Val) bool {
	first := map[uint32]*tlx.Val{}
	done := false
	visit := func(x any) any {
		sv, ok := x.(*tlx.Val)
		if !ok || sv == nil || len(sv.Def.Params) == 0 {
			return x
		}
		if f, seen := first[sv.Def.ID]; seen && f != sv {
			done = true
			return f
		}
		first[sv.Def.ID] = sv
		return x
	}
	for i, f := range v.Fields {
		switch x := f.(type) {
		case *tlx.Val:
			v.Fields[i] = visit(x)
		case []any:
			for k := range x {
				x[k] = visit(x[k])
			}
		}
	}
	return done
}

var pool hx.Pool[Case]

// again evaluates a recorded case without touching the statistics (concurrent phase).
func again(c Case) error {
	d := sch.ByName[c.Def]
	if d == nil {
		return fmt.Errorf("INFRA: unknown definition %s", c.Def)
	}
	g := &tlx.AGen{Sch: sch, S: &tlx.Replay{Draws: c.Draws}, MaxDepth: c.Depth, Big: c.Big, ForceBits: c.ForceBits, StrLen: c.StrLen}
	v, err := g.Val(d, c.Depth)
	if err != nil {
		return fmt.Errorf("INFRA: generator: %v", err)
	}
	_, err = check(v)
	return err
}

func evaluate(c *Case, src tlx.Src) error {
	if strings.HasPrefix(c.Def, "special:") {
		return special(c, src)
	}
	d := sch.ByName[c.Def]
	if d == nil {
		return fmt.Errorf("INFRA: unknown definition %s", c.Def)
	}
	rec := &tlx.Recorder{In: src}
	g := &tlx.AGen{Sch: sch, S: rec, MaxDepth: c.Depth, Big: c.Big, ForceBits: c.ForceBits, StrLen: c.StrLen}
	v, err := g.Val(d, c.Depth)
	if err != nil {
		return fmt.Errorf("INFRA: generator: %v", err)
	}
	c.Draws = rec.Draws
	nt := len(d.Params) > 0 && (g.Feat["flag-bit-set"] > 0 || g.Feat["string>=254"] > 0 || g.Feat["vector>=2"] > 0 || g.Feat["nested-object"] > 0 || c.StrLen >= 254)
	cls := []string{"def:" + c.Def}
	for f := range g.Feat {
		cls = append(cls, "feat:"+f)
	}
	skipped, err := check(v)
	if skipped {
		cls = append(cls, "skipped:no-go-type-can-hold-it")
		nt = false
	} else {
		cls = append(cls, "direction:encode", "direction:decode")
	}
	run.Case(nt, evid.Hash(c.Def, fmt.Sprint(c.Draws), fmt.Sprint(c.ForceBits), c.StrLen), cls...)
	if len(d.Params) > 0 && len(c.Draws) < 40 {
		if b, e := tlx.Encode(v); e == nil && len(b) < 200 {
			run.Sample(map[string]any{"definition": d.Line, "flags": c.ForceBits, "reference_bytes": fmt.Sprintf("%x", b)})
		}
	}
	return err
}

// special cases: types with hand-written (un)marshalers and top-level vectors.
func special(c *Case, src tlx.Src) error {
	rec := &tlx.Recorder{In: src}
	defer func() { c.Draws = rec.Draws }()
	g := &tlx.AGen{Sch: sch, S: rec, MaxDepth: 2}
	pick := func(n int) int { return int(rec.U64() % uint64(n)) }
	leaf := func() (*tlx.Val, []byte, reflect.Value, error) {
		api := sch.API(false)
		for {
			d := api[pick(len(api))]
			if d.Generic || d.Function {
				continue
			}
			v, err := g.Val(d, 1)
			if err != nil {
				continue
			}
			b, err := tlx.Encode(v)
			if err != nil {
				continue
			}
			gv, err := tlx.Bridge(reg, v)
			if err != nil {
				continue
			}
			return v, b, gv, nil
		}
	}
	return hx.Safely(func() error {
		switch c.Def {
		case "special:container":
			n := pick(4)
			var want []byte
			want = binary.LittleEndian.AppendUint32(want, 0x73f1f8dc)
			want = binary.LittleEndian.AppendUint32(want, uint32(n))
			mc := make(objects.MessageContainer, 0, n)
			for i := 0; i < n; i++ {
				_, body, _, _ := leaf()
				id, seq := int64(rec.U64()), int32(rec.U64())
				want = binary.LittleEndian.AppendUint64(want, uint64(id))
				want = binary.LittleEndian.AppendUint32(want, uint32(seq))
				want = binary.LittleEndian.AppendUint32(want, uint32(len(body)))
				want = append(want, body...)
				mc = append(mc, &messages.Encrypted{MsgID: id, SeqNo: seq, Msg: body})
			}
			run.Case(n > 0, evid.Hash("container", want), "def:special:container", "direction:encode", "direction:decode")
			got, err := tl.Marshal(&mc)
			if err != nil {
				return fmt.Errorf("msg_container: Marshal: %v", err)
			}
			if !bytes.Equal(got, want) {
				return fmt.Errorf("msg_container: serialisation differs from msg_container#73f1f8dc count {msg_id seqno bytes body} at byte %d", firstDiff(got, want))
			}
			obj, err := tl.DecodeUnknownObject(want)
			if err != nil {
				return fmt.Errorf("msg_container: DecodeUnknownObject: %v", err)
			}
			dec, ok := obj.(*objects.MessageContainer)
			if !ok || len(*dec) != n {
				return fmt.Errorf("msg_container: decoded to %T with wrong item count", obj)
			}
			for i, m := range *dec {
				if m.MsgID != mc[i].MsgID || m.SeqNo != mc[i].SeqNo || !bytes.Equal(m.Msg, mc[i].Msg) {
					return fmt.Errorf("msg_container: item %d decoded to different fields", i)
				}
			}
		case "special:gzip":
			_, body, gv, _ := leaf()
			var zb bytes.Buffer
			zw := gzip.NewWriter(&zb)
			zw.Write(body)
			zw.Close()
			w := binary.LittleEndian.AppendUint32(nil, 0x3072cfa1)
			pk := zb.Bytes()
			// TL string header
			if len(pk) < 254 {
				w = append(w, byte(len(pk)))
			} else {
				w = append(w, 254, byte(len(pk)), byte(len(pk)>>8), byte(len(pk)>>16))
			}
			w = append(w, pk...)
			for len(w)%4 != 0 {
				w = append(w, 0)
			}
			run.Case(true, evid.Hash("gzip", w), "def:special:gzip", "direction:decode")
			obj, err := tl.DecodeUnknownObject(w)
			if err != nil {
				return fmt.Errorf("gzip_packed: DecodeUnknownObject: %v", err)
			}
			gz, ok := obj.(*objects.GzipPacked)
			if !ok {
				return fmt.Errorf("gzip_packed decoded to %T", obj)
			}
			if d := tlx.Equal(gv, reflect.ValueOf(gz.Obj)); d != "" {
				return fmt.Errorf("gzip_packed: packed object decodes to a different value at %s", d)
			}
		case "special:vector":
			// a top-level Vector<int>/Vector<long>/Vector<single-constructor object> decoded with a hint
			switch pick(3) {
			case 0:
				n := pick(6)
				w := binary.LittleEndian.AppendUint32(nil, 0x1cb5c415)
				w = binary.LittleEndian.AppendUint32(w, uint32(n))
				want := make([]int32, n)
				for i := range want {
					want[i] = int32(rec.U64())
					w = binary.LittleEndian.AppendUint32(w, uint32(want[i]))
				}
				run.Case(n >= 2, evid.Hash("vec-int", w), "def:special:vector", "direction:decode")
				obj, err := tl.DecodeUnknownObject(w, reflect.TypeOf([]int32{}))
				if err != nil {
					return fmt.Errorf("Vector<int> with hint: %v", err)
				}
				if got, ok := tl.UnwrapNativeTypes(obj).([]int32); !ok || fmt.Sprint(got) != fmt.Sprint(want) {
					return fmt.Errorf("Vector<int> with hint decoded to %v, want %v", tl.UnwrapNativeTypes(obj), want)
				}
				// the caller's own list of predictions (one per nesting level, kept in a table and used for every answer of
				// that kind): the vector inside an rpc_result, read twice with the same list
				kept := []reflect.Type{reflect.TypeOf([]int32{}), reflect.TypeOf([]int64{})}
				res := append(binary.LittleEndian.AppendUint64(binary.LittleEndian.AppendUint32(nil, 0xf35c6d01), 77), w...)
				for round := 1; round <= 2; round++ {
					o2, err := tl.DecodeUnknownObject(res, kept...)
					if err != nil {
						return fmt.Errorf("rpc_result{Vector<int>} decoded with the caller's list of two predictions, use %d of the same list: %v", round, err)
					}
					if rr, ok := o2.(*objects.RpcResult); !ok || fmt.Sprint(tl.UnwrapNativeTypes(rr.Obj)) != fmt.Sprint(want) {
						return fmt.Errorf("rpc_result{Vector<int>} decoded with the caller's list of two predictions, use %d of the same list: got %v, want %v", round, o2, want)
					}
				}
			case 1:
				n := pick(6)
				w := binary.LittleEndian.AppendUint32(nil, 0x1cb5c415)
				w = binary.LittleEndian.AppendUint32(w, uint32(n))
				want := make([]int64, n)
				for i := range want {
					want[i] = int64(rec.U64())
					w = binary.LittleEndian.AppendUint64(w, uint64(want[i]))
				}
				run.Case(n >= 2, evid.Hash("vec-long", w), "def:special:vector", "direction:decode")
				obj, err := tl.DecodeUnknownObject(w, reflect.TypeOf([]int64{}))
				if err != nil {
					return fmt.Errorf("Vector<long> with hint: %v", err)
				}
				if got, ok := tl.UnwrapNativeTypes(obj).([]int64); !ok || fmt.Sprint(got) != fmt.Sprint(want) {
					return fmt.Errorf("Vector<long> with hint decoded to %v, want %v", tl.UnwrapNativeTypes(obj), want)
				}
			default:
				n := pick(4)
				_, _, first, _ := leaf()
				et := first.Type()
				w := binary.LittleEndian.AppendUint32(nil, 0x1cb5c415)
				w = binary.LittleEndian.AppendUint32(w, uint32(n))
				want := reflect.MakeSlice(reflect.SliceOf(et), 0, n)
				for want.Len() < n {
					_, b, gv, _ := leaf()
					if gv.Type() != et {
						continue
					}
					w = append(w, b...)
					want = reflect.Append(want, gv)
				}
				if et.Kind() != reflect.Ptr {
					return nil
				}
				run.Case(n >= 2, evid.Hash("vec-obj", w), "def:special:vector", "direction:decode")
				obj, err := tl.DecodeUnknownObject(w, want.Type())
				if err != nil {
					return fmt.Errorf("Vector<%v> with hint: %v", et, err)
				}
				if d := tlx.Equal(want, reflect.ValueOf(tl.UnwrapNativeTypes(obj))); d != "" {
					return fmt.Errorf("Vector<%v> with hint decodes to a different value at %s", et, d)
				}
			}
		}
		return nil
	})
}

type rapidSrc struct{ t *rapid.T }

func (r rapidSrc) U64() uint64 {
	return rapid.OneOf(rapid.Uint64Range(0, 63), rapid.Uint64()).Draw(r.t, "d")
}

// tooLongPacked: a gzip_packed (bare and as the result of an rpc_result) whose compressed payload exceeds 2^24-1 bytes.
func tooLongPacked(seed uint64) error {
	part := func(seed uint64) []byte {
		b := make([]byte, 6<<20)
		x := seed | 1
		for i := 0; i+8 <= len(b); i += 8 {
			x ^= x << 13
			x ^= x >> 7
			x ^= x << 17
			binary.LittleEndian.PutUint64(b[i:], x)
		}
		return b
	}
	inner := &objects.PQInnerData{Pq: part(seed + 1), P: part(seed + 2), Q: part(seed + 3), Nonce: &tl.Int128{Int: big.NewInt(1)}, ServerNonce: &tl.Int128{Int: big.NewInt(2)}, NewNonce: &tl.Int256{Int: big.NewInt(3)}}
	return hx.Safely(func() error {
		if _, err := tl.Marshal(inner); err != nil {
			return fmt.Errorf("INFRA: the object to pack is not serialisable: %v", err)
		}
		for _, v := range []any{&objects.GzipPacked{Obj: inner}, &objects.RpcResult{ReqMsgID: 4, Obj: &objects.GzipPacked{Obj: inner}}} {
			out, err := tl.Marshal(v)
			if err == nil {
				return fmt.Errorf("%T with more than 2^24 bytes of packed data was not refused: Marshal returned %d bytes and no error", v, len(out))
			}
		}
		return nil
	})
}

func TestC02(t *testing.T) {
	setup(t)
	if p := hx.ReplayPath(); p != "" {
		var c Case
		if err := evid.LoadReplay(p, &c); err != nil {
			t.Fatal(err)
		}
		run.Case(true, 1)
		if c.Def == "special:too-long-packed" {
			run.Case(true, 2)
			if err := tooLongPacked(run.Seed); err != nil {
				run.Violation(c, err.Error())
				t.Fatalf("replay fails: %v", err)
			}
			return
		}
		if err := evaluate(&c, &tlx.Replay{Draws: c.Draws}); err != nil {
			run.Violation(c, err.Error())
			t.Fatalf("replay fails: %v", err)
		}
		return
	}
	depth := run.Pick(3, 5)
	nsh := hx.NShards()
	t.Run("every-definition", func(t *testing.T) {
		idx := 0
		var n int64
		try := func(c *Case, seed uint64, name string) bool {
			idx++
			if idx%nsh != run.Shard {
				return true
			}
			n++
			if err := evaluate(c, &tlx.Xor{S: seed}); err != nil {
				if strings.HasPrefix(err.Error(), "INFRA:") {
					t.Fatalf("%v", err)
				}
				p := run.ViolationNamed(strings.NewReplacer(":", "-", ".", "_").Replace(c.Def)+"-"+name, c, err.Error())
				t.Errorf("violation (replay %s): %v", p, err)
				return false
			}
			return true
		}
		for _, d := range scope {
			key := d.File + ":" + d.Name
			bits := tlx.FlagBits(d)
			// every presence pattern when there are at most 6 flag bits; otherwise none/all/singles/pairs
			var pats []map[int]bool
			if len(bits) <= 6 {
				for m := 0; m < 1<<uint(len(bits)); m++ {
					p := map[int]bool{}
					for i, b := range bits {
						p[b] = m&(1<<uint(i)) != 0
					}
					pats = append(pats, p)
				}
			} else {
				all := map[int]bool{}
				for _, b := range bits {
					all[b] = true
				}
				pats = append(pats, map[int]bool{}, all)
				for i, b := range bits {
					pats = append(pats, map[int]bool{b: true})
					for _, b2 := range bits[i+1:] {
						pats = append(pats, map[int]bool{b: true, b2: true})
					}
				}
			}
			for pi, p := range pats {
				for rep := 0; rep < run.Pick(1, 4); rep++ {
					if !try(&Case{Def: key, Depth: depth, ForceBits: p}, run.Seed*101+uint64(idx)+7, fmt.Sprintf("pat%d", pi)) {
						return
					}
				}
			}
			// boundary string lengths on the first string/bytes parameter
			hasStr := false
			for _, p := range d.Params {
				if (p.Type.Kind == "string" || p.Type.Kind == "bytes") && !p.Type.Optional {
					hasStr = true
				}
			}
			if hasStr && idx%7 == 0 {
				for _, l := range []int{1, 252, 253, 254, 255, 256, 257, 65535, 65536} {
					if !try(&Case{Def: key, Depth: 1, StrLen: l}, uint64(l), fmt.Sprintf("len%d", l)) {
						return
					}
				}
			}
		}
		run.Exhaustive("flag presence patterns (all when <= 6 bits) of every definition in scope (this shard's share)", n)
	})
	t.Run("too-long", func(t *testing.T) {
		if run.Shard != 0 {
			return
		}
		for _, key := range []string{"api_latest.tl:inputMediaContact", "api_latest.tl:upload.saveFilePart", "mtproto.tl:msgs_state_info"} {
			for _, l := range []int{1<<24 - 1, 1 << 24, 1<<24 + 1} {
				c := &Case{Def: key, Depth: 1, StrLen: l}
				if err := evaluate(c, &tlx.Xor{S: 3}); err != nil {
					p := run.ViolationNamed(fmt.Sprintf("strlen%d-%s", l, strings.NewReplacer(":", "-", ".", "_").Replace(key)), c, err.Error())
					t.Errorf("violation (replay %s): %v", p, err)
					return
				}
			}
		}
	})
	t.Run("too-long-packed", func(t *testing.T) {
		// gzip_packed whose compressed payload does not fit the 24-bit length: refused, not mis-encoded. The packed
		// object is valid on its own (three incompressible 6 MiB byte fields, each below the limit).
		if run.Shard%hx.NShards() != 1%hx.NShards() {
			return
		}
		run.Case(true, evid.Hash("too-long-packed", run.Seed), "def:special:gzip", "feat:packed-data>=2^24", "direction:encode")
		err := tooLongPacked(run.Seed)
		if err != nil && !strings.HasPrefix(err.Error(), "INFRA:") {
			p := run.ViolationNamed("too-long-packed", &Case{Def: "special:too-long-packed"}, err.Error())
			t.Errorf("violation (replay %s): %v", p, err)
		}
	})
	if t.Failed() {
		return
	}
	t.Run("generated", func(t *testing.T) {
		rapid.Check(t, func(t *rapid.T) {
			var c *Case
			if rapid.IntRange(0, 9).Draw(t, "special") == 0 {
				c = &Case{Def: rapid.SampledFrom([]string{"special:container", "special:gzip", "special:vector"}).Draw(t, "which")}
			} else {
				d := scope[rapid.IntRange(0, len(scope)-1).Draw(t, "def")]
				c = &Case{Def: d.File + ":" + d.Name, Depth: rapid.IntRange(1, depth).Draw(t, "depth"), Big: run.Thorough() && rapid.IntRange(0, 30).Draw(t, "big") == 0}
			}
			if err := evaluate(c, rapidSrc{t}); err != nil {
				if strings.HasPrefix(err.Error(), "INFRA:") {
					t.Fatalf("%v", err)
				}
				hx.Fail(t, run, c, err)
			}
			if !c.Big && !strings.HasPrefix(c.Def, "special:") && c.StrLen < 4096 {
				pool.Add(*c)
			}
		})
	})
	if t.Failed() {
		return
	}
	t.Run("concurrent", func(t *testing.T) {
		// senders and the receive loop serialise and deserialise at the same time
		hx.RunConcurrent(t, run, pool.Items, 8, run.Pick(2, 40), again)
	})
}
