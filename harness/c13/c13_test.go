package c13

import (
	"fmt"
	"sort"
	"strings"
	"testing"

	"github.com/xelaj/mtproto/telegram/verifh/hx"
	"github.com/xelaj/mtproto/telegram/verifh/tlx"
	"verif/evid"
)

var run = evid.New("C13")

func TestMain(m *testing.M) { hx.Main(m, run) }

// Case names one definition (file:name) whose translation is compared; "registry:<id>" names a registered id
// that no schema line defines.
type Case struct {
	Def           string
	Disagreements []string `json:",omitempty"`
}

var (
	sch *tlx.Schema
	reg *tlx.Registry
)

func setup(t *testing.T) {
	var err error
	sch, err = tlx.Load()
	if err != nil {
		t.Fatalf("INFRA: %v", err)
	}
	reg = tlx.LoadRegistry()
}

func scope() []*tlx.Def {
	var defs []*tlx.Def
	defs = append(defs, sch.API(true)...)
	for _, n := range tlx.WireUsedMTProto {
		if d := sch.MTProto(n); d != nil {
			defs = append(defs, d)
		}
	}
	return defs
}

var notImplemented = map[string]bool{"invokeAfterMsg": true, "invokeAfterMsgs": true, "invokeWithoutUpdates": true, "invokeWithMessagesRange": true}

func compare(key string) []string {
	if strings.HasPrefix(key, "registry:") {
		var id uint32
		fmt.Sscanf(strings.TrimPrefix(key, "registry:"), "%x", &id)
		if _, ok := sch.ByID[id]; !ok {
			return []string{fmt.Sprintf("registered constructor %08x (%v) is defined by neither schema file", id, reg.ByID[id])}
		}
		return nil
	}
	d := sch.ByName[key]
	if d == nil {
		return []string{"INFRA: unknown definition " + key}
	}
	return tlx.CompareDef(sch, reg, d)
}

func TestC13(t *testing.T) {
	setup(t)
	if p := hx.ReplayPath(); p != "" {
		var c Case
		if err := evid.LoadReplay(p, &c); err != nil {
			t.Fatal(err)
		}
		run.Case(true, 1)
		run.Case(true, evid.Hash(c.Def))
		run.Class("programs", 1)
		if ds := compare(c.Def); len(ds) > 0 {
			c.Disagreements = ds
			run.Violation(c, strings.Join(ds, "; "))
			t.Fatalf("replay fails: %v", ds)
		}
		return
	}
	if run.Shard != 0 {
		return
	}
	t.Run("definitions", func(t *testing.T) {
		var n, skipped int64
		for _, d := range scope() {
			key := d.File + ":" + d.Name
			if d.Generic && notImplemented[d.Name] {
				run.Note("documented as not implemented (no Go type expected): " + d.Name)
				skipped++
				continue
			}
			n++
			nt := len(d.Params) > 0
			cls := []string{"programs", "file:" + d.File}
			if d.Function {
				cls = append(cls, "kind:function")
			} else if sch.AllNullary(d.File, d.Result) {
				cls = append(cls, "kind:enum-member")
			} else {
				cls = append(cls, "kind:constructor")
			}
			if d.Dormant {
				cls = append(cls, "dormant-definition")
			}
			if d.Generic {
				cls = append(cls, "hand-written-wrapper")
			}
			for _, p := range d.Params {
				if p.Type.Optional {
					cls = append(cls, "has-conditional-fields")
					break
				}
			}
			run.Case(nt, evid.Hash(key), cls...)
			ds := compare(key)
			if len(ds) > 0 {
				run.Class("disagreements_checked", int64(len(ds)))
				c := Case{Def: key, Disagreements: ds}
				p := run.ViolationNamed(strings.NewReplacer(":", "-", ".", "_", "/", "_").Replace(key), c, d.Name+": "+strings.Join(ds, "; "))
				t.Errorf("violation (replay %s): %s: %v", p, d.Name, ds)
			}
			if n%97 == 0 || len(d.Params) > 12 {
				run.Sample(map[string]any{"definition": d.Line, "go_type": fmt.Sprint(goType(d)), "disagreements": len(ds)})
			}
		}
		run.Exhaustive("definitions of api_latest.tl (incl. 5 dormant header lines, 3 hand-written wrappers) and wire-used definitions of mtproto.tl", n)
	})
	t.Run("nothing-extra-registered", func(t *testing.T) {
		ids := append([]uint32{}, reg.IDs...)
		sort.Slice(ids, func(i, j int) bool { return ids[i] < ids[j] })
		for _, id := range ids {
			key := fmt.Sprintf("registry:%08x", id)
			run.Case(true, evid.Hash(key), "registered-id")
			if ds := compare(key); len(ds) > 0 {
				run.Class("disagreements_checked", 1)
				p := run.ViolationNamed("registry-"+key[9:], Case{Def: key, Disagreements: ds}, ds[0])
				t.Errorf("violation (replay %s): %v", p, ds)
			}
		}
		run.Exhaustive("registered constructor ids", int64(len(ids)))
	})
}

func goType(d *tlx.Def) any {
	t, ok := reg.GoType(d)
	if !ok {
		return "<none>"
	}
	return t
}
