package c13

import (
	"fmt"
	"go/ast"
	"go/parser"
	"go/token"
	"path/filepath"
	"sort"
	"strings"
	"testing"
	"time"

	"github.com/xelaj/mtproto/telegram/verifh/hx"
	"github.com/xelaj/mtproto/telegram/verifh/scen"
	"github.com/xelaj/mtproto/telegram/verifh/tls"
	"github.com/xelaj/mtproto/telegram/verifh/tlx"
	"verif/evid"
)

var run = evid.New("C13")

func TestMain(m *testing.M) { hx.Main(m, run) }

// Case names one definition (file:name) whose translation is compared; "registry:<id>" names a registered id
// that no schema line defines.
type Case struct {
	Def           string
	Disagreements []string `json:",omitempty"`
}

var (
	sch *tlx.Schema
	reg *tlx.Registry
)

func setup(t *testing.T) {
	var err error
	sch, err = tlx.Load()
	if err != nil {
		t.Fatalf("INFRA: %v", err)
	}
	reg = tlx.LoadRegistry()
}

func scope() []*tlx.Def {
	var defs []*tlx.Def
	defs = append(defs, sch.API(true)...)
	for _, n := range tlx.WireUsedMTProto {
		if d := sch.MTProto(n); d != nil {
			defs = append(defs, d)
		}
	}
	return defs
}

var notImplemented = map[string]bool{"invokeAfterMsg": true, "invokeAfterMsgs": true, "invokeWithoutUpdates": true, "invokeWithMessagesRange": true}

func compare(key string) []string {
	if strings.HasPrefix(key, "registry:") {
		var id uint32
		fmt.Sscanf(strings.TrimPrefix(key, "registry:"), "%x", &id)
		if _, ok := sch.ByID[id]; !ok {
			return []string{fmt.Sprintf("registered constructor %08x (%v) is defined by neither schema file", id, reg.ByID[id])}
		}
		return nil
	}
	if strings.HasPrefix(key, "const:") {
		// an exported constant of the layer: the identifier a caller writes stands for the constructor of that name
		var name string
		var id uint32
		fmt.Sscanf(strings.ReplaceAll(strings.TrimPrefix(key, "const:"), "=", " "), "%s %x", &name, &id)
		d, ok := sch.ByID[id]
		if !ok {
			return []string{fmt.Sprintf("exported constant %s = %#x is the id of no constructor of the schema", name, id)}
		}
		if squash(d.Name) != squash(name) {
			return []string{fmt.Sprintf("exported constant %s = %#x carries the id of the schema's %s (a caller who names %s sends %s)", name, id, d.Name, name, d.Name)}
		}
		return nil
	}
	d := sch.ByName[key]
	if d == nil {
		return []string{"INFRA: unknown definition " + key}
	}
	return tlx.CompareDef(sch, reg, d)
}

// squash: letters and digits of an identifier, lower case ("storage.fileJpeg", "StorageFileJpeg" -> "storagefilejpeg")
func squash(s string) string {
	var b strings.Builder
	for _, r := range strings.ToLower(s) {
		if (r >= 'a' && r <= 'z') || (r >= '0' && r <= '9') {
			b.WriteRune(r)
		}
	}
	return b.String()
}

// exportedConstants lists "Name=hex" for every typed constant with a hexadecimal value in the generated files of the layer.
func exportedConstants() ([]string, error) {
	dir := filepath.Join(tls.RepoDir(), "telegram")
	files, err := filepath.Glob(filepath.Join(dir, "*_gen.go"))
	if err != nil || len(files) == 0 {
		return nil, fmt.Errorf("no generated files under %s (%v)", dir, err)
	}
	var out []string
	fset := token.NewFileSet()
	for _, f := range files {
		af, err := parser.ParseFile(fset, f, nil, 0)
		if err != nil {
			return nil, err
		}
		for _, decl := range af.Decls {
			gd, ok := decl.(*ast.GenDecl)
			if !ok || gd.Tok != token.CONST {
				continue
			}
			for _, sp := range gd.Specs {
				vs := sp.(*ast.ValueSpec)
				if vs.Type == nil || len(vs.Names) != 1 || len(vs.Values) != 1 {
					continue
				}
				lit, ok := vs.Values[0].(*ast.BasicLit)
				if !ok || lit.Kind != token.INT || !strings.HasPrefix(lit.Value, "0x") {
					continue
				}
				out = append(out, vs.Names[0].Name+"="+strings.TrimPrefix(lit.Value, "0x"))
			}
		}
	}
	sort.Strings(out)
	return out, nil
}

func TestC13(t *testing.T) {
	setup(t)
	if p := hx.ReplayPath(); p != "" {
		var mc struct{ Methods *methodCase }
		if err := evid.LoadReplay(p, &mc); err == nil && mc.Methods != nil && mc.Methods.Scenario != nil {
			run.Case(true, 1)
			run.Case(true, 2)
			runMethods(t, mc.Methods.Scenario, "replay")
			return
		}
		var c Case
		if err := evid.LoadReplay(p, &c); err != nil {
			t.Fatal(err)
		}
		run.Case(true, 1)
		run.Case(true, evid.Hash(c.Def))
		run.Class("programs", 1)
		if ds := compare(c.Def); len(ds) > 0 {
			c.Disagreements = ds
			run.Violation(c, strings.Join(ds, "; "))
			t.Fatalf("replay fails: %v", ds)
		}
		return
	}
	if run.Shard != 0 {
		return
	}
	t.Run("definitions", func(t *testing.T) {
		var n, skipped int64
		for _, d := range scope() {
			key := d.File + ":" + d.Name
			if d.Generic && notImplemented[d.Name] {
				run.Note("documented as not implemented (no Go type expected): " + d.Name)
				skipped++
				continue
			}
			n++
			nt := len(d.Params) > 0
			cls := []string{"programs", "file:" + d.File}
			if d.Function {
				cls = append(cls, "kind:function")
			} else if sch.AllNullary(d.File, d.Result) {
				cls = append(cls, "kind:enum-member")
			} else {
				cls = append(cls, "kind:constructor")
			}
			if d.Dormant {
				cls = append(cls, "dormant-definition")
			}
			if d.Generic {
				cls = append(cls, "hand-written-wrapper")
			}
			for _, p := range d.Params {
				if p.Type.Optional {
					cls = append(cls, "has-conditional-fields")
					break
				}
			}
			run.Case(nt, evid.Hash(key), cls...)
			ds := compare(key)
			if len(ds) > 0 {
				run.Class("disagreements_checked", int64(len(ds)))
				c := Case{Def: key, Disagreements: ds}
				p := run.ViolationNamed(strings.NewReplacer(":", "-", ".", "_", "/", "_").Replace(key), c, d.Name+": "+strings.Join(ds, "; "))
				t.Errorf("violation (replay %s): %s: %v", p, d.Name, ds)
			}
			if n%97 == 0 || len(d.Params) > 12 {
				run.Sample(map[string]any{"definition": d.Line, "go_type": fmt.Sprint(goType(d)), "disagreements": len(ds)})
			}
		}
		run.Exhaustive("definitions of api_latest.tl (incl. 5 dormant header lines, 3 hand-written wrappers) and wire-used definitions of mtproto.tl", n)
	})
	t.Run("exported-constants", func(t *testing.T) {
		cs, err := exportedConstants()
		if err != nil {
			t.Fatalf("INFRA: %v", err)
		}
		for _, c := range cs {
			key := "const:" + c
			run.Case(true, evid.Hash(key), "exported-constant")
			if ds := compare(key); len(ds) > 0 {
				run.Class("disagreements_checked", 1)
				p := run.ViolationNamed("const-"+strings.SplitN(c, "=", 2)[0], Case{Def: key, Disagreements: ds}, ds[0])
				t.Errorf("violation (replay %s): %v", p, ds)
			}
		}
		run.Exhaustive("typed constants with constructor ids in telegram/*_gen.go", int64(len(cs)))
	})
	t.Run("nothing-extra-registered", func(t *testing.T) {
		ids := append([]uint32{}, reg.IDs...)
		sort.Slice(ids, func(i, j int) bool { return ids[i] < ids[j] })
		for _, id := range ids {
			key := fmt.Sprintf("registry:%08x", id)
			run.Case(true, evid.Hash(key), "registered-id")
			if ds := compare(key); len(ds) > 0 {
				run.Class("disagreements_checked", 1)
				p := run.ViolationNamed("registry-"+key[9:], Case{Def: key, Disagreements: ds}, ds[0])
				t.Errorf("violation (replay %s): %v", p, ds)
			}
		}
		run.Exhaustive("registered constructor ids", int64(len(ids)))
	})
}

func goType(d *tlx.Def) any {
	t, ok := reg.GoType(d)
	if !ok {
		return "<none>"
	}
	return t
}

// ---------- part B: every generated client method called end to end ----------

type methodCase struct {
	Scenario *scen.Scenario
	Function string
}

func runMethods(t *testing.T, sc *scen.Scenario, round string) bool {
	res, err := scen.RunChild(sc, 300*time.Second)
	if err != nil {
		t.Logf("INFRA: %v", err)
		return true
	}
	if res.Died {
		c := methodCase{Scenario: sc}
		p := run.ViolationNamed("methods-died-"+round, map[string]any{"Methods": c}, "client process died while its methods were called: "+scen.PanicSite(res.Stderr))
		t.Errorf("violation (replay %s)", p)
		return false
	}
	if !res.Connected {
		c := methodCase{Scenario: sc}
		p := run.ViolationNamed("methods-connect-"+round, map[string]any{"Methods": c}, "telegram.NewClient failed against the reference server (invokeWithLayer/initConnection/help.getConfig): "+res.ConnectErr)
		t.Errorf("violation (replay %s): %s", p, res.ConnectErr)
		return false
	}
	ok := true
	for _, m := range res.Methods {
		cls := []string{"method-call", "programs", "result-kind:" + m.Result}
		if m.Args == 1 {
			cls = append(cls, "args:single-or-params-struct")
		} else if m.Args > 1 {
			cls = append(cls, "args:positional")
		}
		if m.Pass > 0 {
			cls = append(cls, "second-call-on-the-same-client")
		}
		if m.AfterRefused {
			cls = append(cls, "call-after-a-refused-call")
		}
		if m.Pass == 2 {
			cls = append(cls, "zero-valued-scalar-arguments")
		}
		if m.Pass == 3 {
			cls = append(cls, "same-method-from-4-goroutines-at-once")
		}
		run.Case(true, evid.Hash("method", m.Function, sc.Methods.Seed, sc.Methods.Invert, m.Pass), cls...)
		if m.OK {
			continue
		}
		if strings.HasPrefix(m.Msg, "INFRA:") {
			run.Class("method-skipped-by-harness", 1)
			continue
		}
		run.Class("disagreements_checked", 1)
		one := *sc
		ms := *sc.Methods
		ms.Only = m.Function
		one.Methods = &ms
		p := run.ViolationNamed("method-"+strings.ReplaceAll(m.Function, ".", "_")+"-"+round, map[string]any{"Methods": methodCase{Scenario: &one, Function: m.Function}}, m.Method+" ("+m.Function+"): "+m.Msg)
		t.Errorf("violation (replay %s): %s: %s", p, m.Method, m.Msg)
		ok = false
	}
	if len(res.Methods) < 300 && sc.Methods.Only == "" {
		t.Logf("INFRA: only %d methods were called", len(res.Methods))
	}
	if len(res.Methods) > 0 {
		run.Sample(map[string]any{"method": res.Methods[len(res.Methods)/2].Method, "function": res.Methods[len(res.Methods)/2].Function, "result_kind": res.Methods[len(res.Methods)/2].Result})
	}
	return ok
}

func TestC13Methods(t *testing.T) {
	if hx.ReplayPath() != "" {
		return
	}
	keys, err := scen.KeyPool()
	if err != nil {
		t.Fatalf("INFRA: %v", err)
	}
	rounds := run.Pick(2, 160)
	nsh := hx.NShards()
	for r := 0; r < rounds; r++ {
		if r%nsh != run.Shard-100 && nsh > 1 {
			if r%nsh != run.Shard%nsh {
				continue
			}
		}
		sc := &scen.Scenario{Kind: "methods", RSA: keys[r%len(keys)], Resume: &scen.Resume{AuthKey: hx.Det(run.Seed+uint64(r), 256), Salt: int64(hx.DetU64(run.Seed + uint64(r)))},
			Methods: &scen.MethodsSpec{Seed: run.Seed*131 + uint64(r/2), Invert: r%2 == 1}, PatienceMs: 3000}
		if !runMethods(t, sc, fmt.Sprintf("r%d", r)) {
			return
		}
	}
}
