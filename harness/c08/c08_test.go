package c08

import (
	"bytes"
	"context"
	"encoding/binary"
	"errors"
	"fmt"
	"io"
	"net"
	"runtime"
	"strings"
	"testing"
	"time"

	"github.com/xelaj/mtproto/internal/mode"
	"github.com/xelaj/mtproto/internal/mtproto/messages"
	"github.com/xelaj/mtproto/internal/transport"
	"github.com/xelaj/mtproto/telegram/verifh/hx"
	"github.com/xelaj/mtproto/telegram/verifh/ref"
	"pgregory.net/rapid"
	"verif/evid"
)

var run = evid.New("C08")

func TestMain(m *testing.M) { hx.Main(m, run) }

type Case struct {
	Kind     string // format | tcp | detect
	Abridged bool
	// message payloads are described compactly: length + fill seed (contents are deterministic)
	Lens      []int
	Seed      uint64
	Code      *int32 // tcp: a 4-byte transport error frame follows the messages
	CodeFirst bool   `json:",omitempty"` // the error frame precedes the messages instead of following them
	Close     string // tcp: "boundary" (orderly close after the stream), "mid" (inside the last message), "" (keep open)
	Cuts      []int  // tcp: sizes of the TCP writes (a composition of the stream length; remainder in one write)
	Back      []int  // tcp: lengths of plain messages the client then writes back
	// CloseAfterWrite (tcp): right after its last write the client cancels its context and closes the transport, while
	// the peer is slow to read: everything written still arrives, followed by a clean end of stream
	CloseAfterWrite bool `json:",omitempty"`
	// QuietMs (tcp): the connection is configured with this read timeout, and the client is quiet for 4/3 of it between
	// its last read and its first write (a caller that sends a request after an idle period)
	QuietMs int `json:",omitempty"`
	// RefusedFirst (tcp, abridged): before each of its messages the client tries one whose length is no whole number of
	// words (RefusedFirst extra bytes, 1..3) - abridged framing cannot carry it; nothing of it may reach the peer
	RefusedFirst int    `json:",omitempty"`
	First        []byte // detect: first bytes presented to Detect
}

func payload(seed uint64, i, n int) []byte { return hx.Det(seed*131+uint64(i)+1, n) }

// memConn honours the exact-count read contract the modes rely on (as tcpConn.Read does through io.ReadFull).
type memConn struct {
	r *bytes.Reader
	w bytes.Buffer
}

func (m *memConn) Read(p []byte) (int, error) {
	if len(p) == 0 {
		return 0, nil
	}
	n, err := io.ReadFull(m.r, p)
	if err == io.ErrUnexpectedEOF {
		return n, io.ErrUnexpectedEOF
	}
	return n, err
}
func (m *memConn) Write(p []byte) (int, error) { return m.w.Write(p) }

func frame(abridged bool, p []byte) []byte {
	if abridged {
		return ref.FrameAbridged(p)
	}
	return ref.FrameIntermediate(p)
}

func announcement(abridged bool) []byte {
	if abridged {
		return ref.AbridgedAnnouncement()
	}
	return ref.IntermediateAnnouncement()
}

func variant(abridged bool) mode.Variant {
	if abridged {
		return mode.Abridged
	}
	return mode.Intermediate
}

func oracle(c Case) error {
	return hx.Safely(func() error {
		switch c.Kind {
		case "format":
			return oracleFormat(c)
		case "detect":
			return oracleDetect(c)
		case "tcp":
			return oracleTCP(c)
		}
		return fmt.Errorf("bad kind")
	})
}

func oracleFormat(c Case) error {
	// write side
	conn := &memConn{r: bytes.NewReader(nil)}
	m, err := mode.New(variant(c.Abridged), conn)
	if err != nil {
		return fmt.Errorf("mode.New: %v", err)
	}
	want := append([]byte{}, announcement(c.Abridged)...)
	for i, n := range c.Lens {
		p := payload(c.Seed, i, n)
		if err := m.WriteMsg(append([]byte{}, p...)); err != nil {
			return fmt.Errorf("WriteMsg(%d bytes): %v", n, err)
		}
		want = append(want, frame(c.Abridged, p)...)
	}
	if got := conn.w.Bytes(); !bytes.Equal(got, want) {
		d := 0
		for d < len(got) && d < len(want) && got[d] == want[d] {
			d++
		}
		return fmt.Errorf("written stream differs from the specified framing at byte %d (got %d bytes, want %d)", d, len(got), len(want))
	}
	if v, err := mode.GetVariant(m); err != nil || v != variant(c.Abridged) {
		return fmt.Errorf("GetVariant = %v, %v", v, err)
	}
	// read side: reference-framed bytes
	rconn := &memConn{r: bytes.NewReader(want)}
	rm, err := mode.Detect(rconn)
	if err != nil {
		return fmt.Errorf("Detect on a valid announcement: %v", err)
	}
	if v, err := mode.GetVariant(rm); err != nil || v != variant(c.Abridged) {
		return fmt.Errorf("Detect picked variant %v (err %v)", v, err)
	}
	var kept [][]byte
	for i, n := range c.Lens {
		got, err := rm.ReadMsg()
		if err != nil {
			return fmt.Errorf("ReadMsg #%d (%d bytes): %v", i, n, err)
		}
		if !bytes.Equal(got, payload(c.Seed, i, n)) {
			return fmt.Errorf("ReadMsg #%d returned %d bytes, want the %d bytes that were framed", i, len(got), n)
		}
		kept = append(kept, got)
	}
	if got, err := rm.ReadMsg(); err != io.EOF {
		return fmt.Errorf("end of stream reported as (%d bytes, %v), want io.EOF", len(got), err)
	}
	// the sequence as a whole: what was handed out earlier is still what was sent once the later messages were read
	for i, n := range c.Lens {
		if !bytes.Equal(kept[i], payload(c.Seed, i, n)) {
			return fmt.Errorf("message #%d (%d bytes) changed after later messages were read: the received sequence is not the sent one", i, n)
		}
	}
	return nil
}

func oracleDetect(c Case) error {
	conn := &memConn{r: bytes.NewReader(c.First)}
	m, err := mode.Detect(conn)
	validA := len(c.First) >= 1 && c.First[0] == 0xef
	validI := len(c.First) >= 4 && bytes.Equal(c.First[:4], []byte{0xee, 0xee, 0xee, 0xee})
	switch {
	case validA || validI:
		if err != nil {
			return fmt.Errorf("Detect(% x): %v", c.First, err)
		}
		if v, _ := mode.GetVariant(m); v != variant(validA) {
			return fmt.Errorf("Detect(% x) picked %v", c.First, v)
		}
	default:
		if err == nil {
			return fmt.Errorf("Detect(% x) accepted an unknown announcement", c.First)
		}
	}
	return nil
}

type stubInf struct{}

func (stubInf) GetSessionID() int64  { return 1 }
func (stubInf) GetSeqNo() int32      { return 0 }
func (stubInf) GetServerSalt() int64 { return 2 }
func (stubInf) GetAuthKey() []byte   { return bytes.Repeat([]byte{0x5a}, 256) }

func oracleTCP(c Case) (err error) {
	ln, err := net.Listen("tcp", "127.0.0.1:0")
	if err != nil {
		return fmt.Errorf("INFRA: %v", err)
	}
	defer ln.Close()
	// the stream the server plays
	var stream []byte
	type exp struct {
		id   int64
		body []byte
	}
	var exps []exp
	for i, n := range c.Lens {
		id := int64(i)*8 + 1 + int64(i%2)*2 // server parity 1 or 3
		body := payload(c.Seed, i, n)
		exps = append(exps, exp{id, body})
		stream = append(stream, frame(c.Abridged, ref.PlainPacket(id, body))...)
	}
	lastStart := len(stream)
	if len(c.Lens) > 0 {
		lastStart = len(stream) - len(frame(c.Abridged, ref.PlainPacket(0, exps[len(exps)-1].body)))
	}
	if c.Code != nil && c.CodeFirst {
		// the server complains first (flood, unknown key) and goes on serving: everything behind the four bytes is still a message
		pre := frame(c.Abridged, binary.LittleEndian.AppendUint32(nil, uint32(*c.Code)))
		stream = append(append([]byte{}, pre...), stream...)
		lastStart += len(pre)
	} else if c.Code != nil {
		stream = append(stream, frame(c.Abridged, binary.LittleEndian.AppendUint32(nil, uint32(*c.Code)))...)
	}
	if c.Close == "mid" && len(c.Lens) > 0 && c.Code == nil {
		stream = stream[:lastStart+(len(stream)-lastStart)/2]
	}
	srvErr := make(chan error, 1)
	backGot := make(chan []byte, 1)
	release := make(chan struct{})
	go func() {
		conn, err := ln.Accept()
		if err != nil {
			srvErr <- err
			return
		}
		defer conn.Close()
		conn.(*net.TCPConn).SetNoDelay(true)
		conn.(*net.TCPConn).SetLinger(0) // no TIME_WAIT: tens of thousands of cases per run
		conn.SetDeadline(time.Now().Add(60 * time.Second))
		ann := make([]byte, len(announcement(c.Abridged)))
		if _, err := io.ReadFull(conn, ann); err != nil || !bytes.Equal(ann, announcement(c.Abridged)) {
			srvErr <- fmt.Errorf("announcement % x (err %v)", ann, err)
			return
		}
		off := 0
		for _, n := range c.Cuts {
			if off >= len(stream) {
				break
			}
			if off+n > len(stream) {
				n = len(stream) - off
			}
			conn.Write(stream[off : off+n])
			off += n
			runtime.Gosched()
			time.Sleep(30 * time.Microsecond)
		}
		if off < len(stream) {
			conn.Write(stream[off:])
		}
		if c.Close != "" {
			conn.(*net.TCPConn).CloseWrite()
		}
		// client -> server direction: read what the client writes back, byte-exactly
		var wantBack int
		for i, n := range c.Back {
			wantBack += len(frame(c.Abridged, ref.PlainPacket(0, payload(c.Seed+7, i, n))))
		}
		if c.CloseAfterWrite {
			time.Sleep(120 * time.Millisecond) // a busy peer: the client has closed long before this side reads
			var all []byte
			chunk := make([]byte, 4096)
			for {
				n, rerr := conn.Read(chunk)
				all = append(all, chunk[:n]...)
				if rerr != nil {
					err = rerr
					break
				}
			}
			backGot <- all
			if err != io.EOF {
				srvErr <- fmt.Errorf("the peer did not see a clean end of stream after the client closed: %v (%d of %d bytes received)", err, len(all), wantBack)
				return
			}
			<-release
			srvErr <- nil
			return
		}
		buf := make([]byte, wantBack)
		_, err = io.ReadFull(conn, buf)
		backGot <- buf
		if err != nil {
			srvErr <- fmt.Errorf("reading the client's messages: %v", err)
			return
		}
		<-release
		srvErr <- nil
	}()
	ctx, cancel := context.WithCancel(context.Background())
	defer cancel()
	timeout := 60 * time.Second
	if c.QuietMs > 0 {
		timeout = time.Duration(c.QuietMs) * time.Millisecond
	}
	tr, err := transport.NewTransport(stubInf{}, transport.TCPConnConfig{Ctx: ctx, Host: ln.Addr().String(), Timeout: timeout}, variant(c.Abridged))
	if err != nil {
		return fmt.Errorf("INFRA: NewTransport: %v", err)
	}
	defer tr.Close()
	defer close(release)
	nFull := len(exps)
	if c.Close == "mid" && c.Code == nil && nFull > 0 {
		nFull--
	}
	readCode := func() error {
		m, err := tr.ReadMsg()
		var ec transport.ErrCode
		if err == nil {
			return fmt.Errorf("4-byte frame carrying %d delivered as a message (%d bytes)", *c.Code, len(m.GetMsg()))
		}
		if !errors.As(err, &ec) {
			return fmt.Errorf("4-byte frame carrying %d surfaced as %T %v, want transport.ErrCode", *c.Code, err, err)
		}
		if int64(ec) != int64(*c.Code) {
			return fmt.Errorf("4-byte frame carrying %d surfaced as ErrCode(%d)", *c.Code, int64(ec))
		}
		return nil
	}
	if c.Code != nil && c.CodeFirst {
		if err := readCode(); err != nil {
			return err
		}
	}
	var kept []messages.Common
	for i := 0; i < nFull; i++ {
		m, err := tr.ReadMsg()
		if err != nil && c.QuietMs > 0 && strings.Contains(err.Error(), "i/o timeout") {
			return fmt.Errorf("INFRA: the listener was slower than the %d ms read timeout of this case", c.QuietMs)
		}
		if err != nil {
			return fmt.Errorf("message #%d (%d-byte body) not delivered: %v", i, len(exps[i].body), err)
		}
		if m.GetMsgID() != int(exps[i].id) || !bytes.Equal(m.GetMsg(), exps[i].body) {
			return fmt.Errorf("message #%d delivered as msg_id=%d body[%d], sent msg_id=%d body[%d]", i, m.GetMsgID(), len(m.GetMsg()), exps[i].id, len(exps[i].body))
		}
		kept = append(kept, m)
	}
	defer func() {
		for i, m := range kept {
			if err == nil && (m.GetMsgID() != int(exps[i].id) || !bytes.Equal(m.GetMsg(), exps[i].body)) {
				err = fmt.Errorf("message #%d (%d-byte body) changed after later messages were read: the received sequence is not the sent one", i, len(exps[i].body))
			}
		}
	}()
	if c.Code != nil && !c.CodeFirst {
		if err := readCode(); err != nil {
			return err
		}
	}
	switch c.Close {
	case "boundary":
		m, err := tr.ReadMsg()
		if err != io.EOF {
			return fmt.Errorf("orderly close at a message boundary surfaced as (%v, %v), want io.EOF", m, err)
		}
	case "mid":
		if c.Code == nil && len(exps) > 0 {
			m, err := tr.ReadMsg()
			if err == nil {
				return fmt.Errorf("stream closed inside a message but ReadMsg delivered a message of %d bytes", len(m.GetMsg()))
			}
		}
	}
	// client -> server
	var wantBack []byte
	if c.QuietMs > 0 {
		time.Sleep(time.Duration(c.QuietMs) * time.Millisecond * 4 / 3)
	}
	for i, n := range c.Back {
		body := payload(c.Seed+7, i, n)
		id := int64(i+1) * 4
		if c.RefusedFirst > 0 && c.Abridged {
			odd := payload(c.Seed+9, i, n+c.RefusedFirst)
			if err := tr.WriteMsg(&messages.Unencrypted{Msg: odd, MsgID: id}, false); err == nil {
				return fmt.Errorf("WriteMsg accepted a %d-byte message in abridged mode, which frames whole words only", 20+len(odd))
			}
		}
		if err := tr.WriteMsg(&messages.Unencrypted{Msg: body, MsgID: id}, false); err != nil {
			return fmt.Errorf("WriteMsg: %v", err)
		}
		wantBack = append(wantBack, frame(c.Abridged, ref.PlainPacket(id, body))...)
	}
	if c.CloseAfterWrite {
		cancel()
		tr.Close()
	}
	select {
	case got := <-backGot:
		if c.CloseAfterWrite && !bytes.Equal(got, wantBack) {
			return fmt.Errorf("the client wrote %d bytes (every WriteMsg returned nil), cancelled and closed; the peer received %d of them (equal prefix: %v)", len(wantBack), len(got), bytes.HasPrefix(wantBack, got))
		}
		if !bytes.Equal(got, wantBack) {
			return fmt.Errorf("the peer received %d bytes from the client that differ from the specified framing of its %d messages", len(got), len(c.Back))
		}
	case <-time.After(60 * time.Second):
		return fmt.Errorf("INFRA: timeout waiting for the listener")
	}
	if c.CloseAfterWrite {
		// how the stream ended for the peer
		select {
		case e := <-srvErr:
			if e != nil {
				return e
			}
		case <-time.After(100 * time.Millisecond):
		}
	}
	return nil
}

func record(c Case) {
	var cls []string
	nt := false
	cls = append(cls, "kind:"+c.Kind)
	if c.Kind != "detect" {
		if c.Abridged {
			cls = append(cls, "abridged")
		} else {
			cls = append(cls, "intermediate")
		}
	}
	hdr := 4
	for _, n := range c.Lens {
		total := n
		if c.CloseAfterWrite {
			cls = append(cls, "client-closes-right-after-writing")
		}
		if c.Kind == "tcp" {
			total += 20
		}
		if total/4 >= 127 {
			cls = append(cls, "msg>=127words")
			nt = true
		}
		if total/4 == 126 || total/4 == 127 {
			cls = append(cls, "msg-at-127-word-switch")
		}
		if total >= 1<<20 {
			cls = append(cls, "msg>=2^20bytes")
		}
		if total >= 1<<24 {
			cls = append(cls, "msg>=2^24bytes")
		}
		if total/4 >= 1<<16 {
			cls = append(cls, "msg>=2^16words")
		}
		if total == 0 {
			cls = append(cls, "msg-empty")
		}
	}
	if c.Kind == "tcp" {
		if c.Abridged {
			hdr = 1
		}
		if len(c.Cuts) > 0 && c.Cuts[0] < hdr {
			cls = append(cls, "cut-inside-header")
			nt = true
		}
		if len(c.Lens) >= 2 && (len(c.Cuts) == 0 || c.Cuts[0] > 2*(hdr+20)) {
			cls = append(cls, ">=2-messages-in-one-segment")
			nt = true
		}
		if len(c.Cuts) > 8 {
			cls = append(cls, "many-segments")
			nt = true
		}
		if c.Code != nil {
			cls = append(cls, "error-frame")
			if *c.Code < 0 {
				cls = append(cls, "error-frame-negative")
			}
			if c.CodeFirst {
				cls = append(cls, "error-frame-followed-by-messages")
			}
		}
		if c.Close != "" {
			cls = append(cls, "close:"+c.Close)
		}
		if len(c.Back) > 0 {
			cls = append(cls, "client-writes")
		}
		if c.QuietMs > 0 {
			cls = append(cls, "client-writes-after-quiet-period>timeout")
		}
		if c.RefusedFirst > 0 && c.Abridged && len(c.Back) > 0 {
			cls = append(cls, "client-writes-after-a-refused-write")
		}
	}
	if len(c.Lens) >= 2 {
		nt = true
	}
	run.Case(nt, evid.Hash(c.Kind, c.Abridged, fmt.Sprint(c.Lens), c.Seed, fmt.Sprint(c.Code), c.Close, fmt.Sprint(c.Cuts), fmt.Sprint(c.Back), c.First, c.QuietMs, c.RefusedFirst), cls...)
	if len(c.Cuts) <= 12 {
		run.Sample(c)
	}
}

func genLen(t *rapid.T, label string, max int) int {
	return 4 * rapid.OneOf(
		// in words: around the one-byte / extended switch (127) and around every byte of the three-byte length
		rapid.SampledFrom([]int{0, 1, 2, 120, 121, 122, 125, 126, 127, 128, 129, 130, 255, 256, 257, 300, 65535, 65536, 65537}),
		rapid.IntRange(0, 140),
		rapid.IntRange(0, max/4),
	).Draw(t, label)
}

func gen(t *rapid.T) Case {
	c := Case{Seed: rapid.Uint64Range(1, 1<<40).Draw(t, "seed"), Abridged: rapid.Bool().Draw(t, "abridged")}
	switch rapid.IntRange(0, 9).Draw(t, "kind") {
	case 0:
		c.Kind = "detect"
		c.First = rapid.OneOf(
			rapid.SampledFrom([][]byte{{0xef}, {0xee, 0xee, 0xee, 0xee}, {0xee, 0xee, 0xee, 0xef}, {0xee}, {0xdd, 0xdd, 0xdd, 0xdd}, {0x00}, {0xef, 0xef}, {0x7f}, {0xee, 0x00, 0xee, 0xee}}),
			rapid.SliceOfN(rapid.Byte(), 1, 6),
		).Draw(t, "first")
	case 1, 2, 3, 4:
		c.Kind = "format"
		n := rapid.IntRange(1, 8).Draw(t, "nmsgs")
		for i := 0; i < n; i++ {
			c.Lens = append(c.Lens, genLen(t, "len", run.Pick(1<<16, 1<<20)))
		}
	default:
		c.Kind = "tcp"
		n := rapid.IntRange(0, 5).Draw(t, "nmsgs")
		for i := 0; i < n; i++ {
			c.Lens = append(c.Lens, genLen(t, "len", run.Pick(1<<14, 1<<20)))
		}
		if rapid.Bool().Draw(t, "hascode") || n == 0 {
			v := rapid.OneOf(rapid.SampledFrom([]int32{-404, -429, -444, -1, 404, 1<<31 - 1, -1 << 31, 0}), rapid.Int32()).Draw(t, "code")
			c.Code = &v
		}
		c.Close = rapid.SampledFrom([]string{"", "boundary", "boundary", "mid"}).Draw(t, "close")
		if c.Code != nil && n > 0 && rapid.Bool().Draw(t, "codefirst") {
			c.CodeFirst = true
			if c.Close == "mid" {
				c.Close = "boundary"
			}
		}
		switch rapid.IntRange(0, 3).Draw(t, "cutstyle") {
		case 0: // one byte at a time for the first bytes
			k := rapid.IntRange(1, 600).Draw(t, "bytewise")
			for i := 0; i < k; i++ {
				c.Cuts = append(c.Cuts, 1)
			}
		case 1: // random composition
			c.Cuts = rapid.SliceOfN(rapid.IntRange(1, 64), 0, 40).Draw(t, "cuts")
		case 2: // few big segments
			c.Cuts = rapid.SliceOfN(rapid.IntRange(1, 5000), 0, 6).Draw(t, "cuts")
		}
		nb := rapid.IntRange(0, 3).Draw(t, "nback")
		for i := 0; i < nb; i++ {
			c.Back = append(c.Back, genLen(t, "backlen", 4096))
		}
		if nb > 0 && rapid.IntRange(0, 3).Draw(t, "refusedfirst") == 0 {
			c.RefusedFirst = rapid.IntRange(1, 3).Draw(t, "oddbytes")
		}
		if c.Close == "" && c.Code == nil && nb > 0 && rapid.IntRange(0, 15).Draw(t, "quiet") == 0 {
			c.QuietMs = 150
		}
		if c.Close == "" && rapid.IntRange(0, 7).Draw(t, "closeafterwrite") == 0 {
			// more than the socket buffers hold, then close at once
			c.CloseAfterWrite = true
			c.Back = append(c.Back, 1<<20, 504, 4*rapid.IntRange(0, 300).Draw(t, "lastback"))
		}
	}
	return c
}

// compositions enumerates every composition of n (ordered sums), i.e. every way TCP can split n bytes.
func compositions(n int, f func([]int)) {
	for mask := 0; mask < 1<<(n-1); mask++ {
		var parts []int
		run := 1
		for i := 0; i < n-1; i++ {
			if mask&(1<<i) != 0 {
				parts = append(parts, run)
				run = 1
			} else {
				run++
			}
		}
		parts = append(parts, run)
		f(parts)
	}
}

func TestC08(t *testing.T) {
	if p := hx.ReplayPath(); p != "" {
		var c Case
		if err := evid.LoadReplay(p, &c); err != nil {
			t.Fatal(err)
		}
		run.Case(true, 1)
		record(c)
		if err := oracle(c); err != nil {
			run.Violation(c, err.Error())
			t.Fatalf("replay fails: %v", err)
		}
		return
	}
	t.Run("compositions", func(t *testing.T) {
		// every composition of short streams, spread over the shards
		nsh, idx := hx.NShards(), 0
		var total int64
		try := func(c Case) {
			idx++
			if idx%nsh != run.Shard {
				return
			}
			total++
			record(c)
			if err := oracle(c); err != nil {
				p := run.ViolationNamed(fmt.Sprintf("comp%d", idx), c, err.Error())
				t.Fatalf("violation (replay %s): %v", p, err)
			}
		}
		m404, m429 := int32(-404), int32(-429)
		// intermediate: one error frame = 8 bytes; abridged: one error frame = 5 bytes; both with close
		for _, abr := range []bool{false, true} {
			n := 8
			if abr {
				n = 5
			}
			compositions(n, func(parts []int) {
				try(Case{Kind: "tcp", Abridged: abr, Seed: 3, Code: &m404, Close: "boundary", Cuts: append([]int{}, parts...)})
			})
		}
		// a minimal message (empty body: 20-byte plain packet) followed by an error frame: all compositions of the first
		// N bytes (header and start of the packet), remainder in one write
		first := run.Pick(10, 14)
		for _, abr := range []bool{false, true} {
			compositions(first, func(parts []int) {
				try(Case{Kind: "tcp", Abridged: abr, Seed: 5, Lens: []int{0}, Code: &m429, Close: "boundary", Cuts: append([]int{}, parts...)})
			})
		}
		// a long-header abridged message (>= 127 words): all compositions of its first N bytes
		compositions(first, func(parts []int) {
			try(Case{Kind: "tcp", Abridged: true, Seed: 9, Lens: []int{127*4 - 20, 4}, Close: "boundary", Cuts: append([]int{}, parts...)})
		})
		run.Exhaustive("compositions of short streams / stream heads over loopback TCP (this shard's share)", total)
	})
	t.Run("boundary-lengths", func(t *testing.T) {
		if run.Shard != 0 {
			return
		}
		// every message length 0,4,..,1024 once per mode through the format check
		var n int64
		for _, abr := range []bool{false, true} {
			for l := 0; l <= 1024; l += 4 {
				c := Case{Kind: "format", Abridged: abr, Seed: uint64(l) + 1, Lens: []int{l, l}}
				record(c)
				n++
				if err := oracle(c); err != nil {
					p := run.ViolationNamed(fmt.Sprintf("len%d-%v", l, abr), c, err.Error())
					t.Fatalf("violation (replay %s): %v", p, err)
				}
			}
		}
		if run.Thorough() {
			for _, abr := range []bool{false, true} {
				for _, l := range []int{1 << 20, (1<<24 - 1) * 4} { // up to the largest length the abridged header carries
					c := Case{Kind: "format", Abridged: abr, Seed: 77, Lens: []int{l}}
					record(c)
					n++
					if err := oracle(c); err != nil {
						p := run.ViolationNamed(fmt.Sprintf("biglen%d-%v", l, abr), c, err.Error())
						t.Fatalf("violation (replay %s): %v", p, err)
					}
				}
			}
		}
		// around 2^24 bytes: the abridged header counts words, 2^22 of them here
		for _, abr := range []bool{false, true} {
			for _, l := range []int{1<<24 - 4, 1 << 24, 1<<24 + 4} {
				c := Case{Kind: "format", Abridged: abr, Seed: 79, Lens: []int{l, 8}}
				record(c)
				n++
				if err := oracle(c); err != nil {
					p := run.ViolationNamed(fmt.Sprintf("len%d-%v", l, abr), c, err.Error())
					t.Fatalf("violation (replay %s): %v", p, err)
				}
			}
		}
		// a refused write (no whole number of words) followed by valid ones, short and long header
		for _, back := range [][]int{{8, 12}, {127 * 4, 4}} {
			c := Case{Kind: "tcp", Abridged: true, Seed: 13, Lens: []int{4}, Back: back, RefusedFirst: 2}
			record(c)
			n++
			if err := oracle(c); err != nil && !strings.HasPrefix(err.Error(), "INFRA:") {
				p := run.ViolationNamed(fmt.Sprintf("refused-%d", back[0]), c, err.Error())
				t.Fatalf("violation (replay %s): %v", p, err)
			}
		}
		// a request sent after the connection was quiet for longer than its read timeout
		for _, abr := range []bool{false, true} {
			c := Case{Kind: "tcp", Abridged: abr, Seed: 11, Lens: []int{64}, Back: []int{40, 1 << 16}, QuietMs: 150}
			record(c)
			n++
			if err := oracle(c); err != nil && !strings.HasPrefix(err.Error(), "INFRA:") {
				p := run.ViolationNamed(fmt.Sprintf("quiet-%v", abr), c, err.Error())
				t.Fatalf("violation (replay %s): %v", p, err)
			}
		}
		run.Exhaustive("message lengths 0..1024 step 4, both modes", n)
	})
	t.Run("generated", func(t *testing.T) {
		rapid.Check(t, func(t *rapid.T) {
			c := gen(t)
			record(c)
			if err := oracle(c); err != nil {
				if strings.HasPrefix(err.Error(), "INFRA:") {
					t.Skipf("%v", err)
				}
				hx.Fail(t, run, c, err)
			}
		})
	})
}
