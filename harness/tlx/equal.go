package tlx

import (
	"bytes"
	"fmt"
	"math"
	"reflect"
	"strings"

	"github.com/xelaj/mtproto/internal/encoding/tl"
)

// Equal is TL equality of two Go values: scalars exact, float64 by bits, byte strings and slices by content with
// nil == empty (TL cannot express the difference), 128/256-bit integers by value, interfaces by dynamic type and
// content. It returns "" when equal, else the path of the first difference.
func Equal(a, b reflect.Value) string { return eq(a, b, "") }

func eq(a, b reflect.Value, path string) string {
	if !a.IsValid() || !b.IsValid() {
		if a.IsValid() != b.IsValid() {
			return path + ": one side missing"
		}
		return ""
	}
	if a.Type() != b.Type() {
		return fmt.Sprintf("%s: type %v vs %v", path, a.Type(), b.Type())
	}
	switch a.Kind() {
	case reflect.Float64:
		if math.Float64bits(a.Float()) != math.Float64bits(b.Float()) {
			return fmt.Sprintf("%s: %v vs %v", path, a.Float(), b.Float())
		}
	case reflect.Int32, reflect.Int64, reflect.Int:
		if a.Int() != b.Int() {
			return fmt.Sprintf("%s: %d vs %d", path, a.Int(), b.Int())
		}
	case reflect.Uint32:
		if a.Uint() != b.Uint() {
			return fmt.Sprintf("%s: %#x vs %#x", path, a.Uint(), b.Uint())
		}
	case reflect.Bool:
		if a.Bool() != b.Bool() {
			return fmt.Sprintf("%s: %v vs %v", path, a.Bool(), b.Bool())
		}
	case reflect.String:
		if a.String() != b.String() {
			return fmt.Sprintf("%s: string[%d] vs string[%d]", path, a.Len(), b.Len())
		}
	case reflect.Slice:
		if a.Type().Elem().Kind() == reflect.Uint8 {
			if !bytes.Equal(a.Bytes(), b.Bytes()) {
				return fmt.Sprintf("%s: bytes[%d] vs bytes[%d]", path, a.Len(), b.Len())
			}
			return ""
		}
		if a.Len() != b.Len() {
			return fmt.Sprintf("%s: %d vs %d elements", path, a.Len(), b.Len())
		}
		for i := 0; i < a.Len(); i++ {
			if d := eq(a.Index(i), b.Index(i), fmt.Sprintf("%s[%d]", path, i)); d != "" {
				return d
			}
		}
	case reflect.Ptr:
		if a.IsNil() || b.IsNil() {
			if a.IsNil() != b.IsNil() {
				return path + ": nil vs non-nil"
			}
			return ""
		}
		if x, ok := a.Interface().(*tl.Int128); ok {
			y := b.Interface().(*tl.Int128)
			if (x.Int == nil) != (y.Int == nil) || (x.Int != nil && x.Cmp(y.Int) != 0) {
				return fmt.Sprintf("%s: int128 %v vs %v", path, x.Int, y.Int)
			}
			return ""
		}
		if x, ok := a.Interface().(*tl.Int256); ok {
			y := b.Interface().(*tl.Int256)
			if (x.Int == nil) != (y.Int == nil) || (x.Int != nil && x.Cmp(y.Int) != 0) {
				return fmt.Sprintf("%s: int256 %v vs %v", path, x.Int, y.Int)
			}
			return ""
		}
		return eq(a.Elem(), b.Elem(), path)
	case reflect.Interface:
		if a.IsNil() || b.IsNil() {
			if a.IsNil() != b.IsNil() {
				return path + ": nil vs non-nil interface"
			}
			return ""
		}
		return eq(a.Elem(), b.Elem(), path)
	case reflect.Struct:
		for i := 0; i < a.NumField(); i++ {
			if d := eq(a.Field(i), b.Field(i), path+"."+a.Type().Field(i).Name); d != "" {
				return d
			}
		}
	default:
		return fmt.Sprintf("%s: unsupported kind %v", path, a.Kind())
	}
	return ""
}

// Dump renders a value compactly for samples and replay files.
func Dump(v reflect.Value, budget int) string {
	var sb strings.Builder
	dump(&sb, v, &budget)
	return sb.String()
}

func dump(sb *strings.Builder, v reflect.Value, budget *int) {
	if *budget <= 0 {
		sb.WriteString("…")
		return
	}
	*budget--
	switch v.Kind() {
	case reflect.Ptr, reflect.Interface:
		if v.IsNil() {
			sb.WriteString("nil")
			return
		}
		if x, ok := v.Interface().(*tl.Int128); ok {
			fmt.Fprintf(sb, "int128(%x)", x.Int)
			return
		}
		if x, ok := v.Interface().(*tl.Int256); ok {
			fmt.Fprintf(sb, "int256(%x)", x.Int)
			return
		}
		dump(sb, v.Elem(), budget)
	case reflect.Struct:
		sb.WriteString(v.Type().Name() + "{")
		for i := 0; i < v.NumField(); i++ {
			if v.Field(i).IsZero() {
				continue
			}
			sb.WriteString(v.Type().Field(i).Name + ":")
			dump(sb, v.Field(i), budget)
			sb.WriteString(" ")
		}
		sb.WriteString("}")
	case reflect.Slice:
		if v.Type().Elem().Kind() == reflect.Uint8 {
			fmt.Fprintf(sb, "bytes[%d]", v.Len())
			return
		}
		fmt.Fprintf(sb, "[%d:", v.Len())
		for i := 0; i < v.Len() && i < 4; i++ {
			dump(sb, v.Index(i), budget)
			sb.WriteString(" ")
		}
		sb.WriteString("]")
	case reflect.String:
		fmt.Fprintf(sb, "string[%d]", v.Len())
	case reflect.Uint32:
		fmt.Fprintf(sb, "%#x", v.Uint())
	default:
		fmt.Fprintf(sb, "%v", v.Interface())
	}
}
