package tlx

import (
	"fmt"
	"math"
)

// AGen generates abstract values (schema-directed) from a choice source.
type AGen struct {
	Sch      *Schema
	S        Src
	MaxDepth int
	Big      bool
	// ForceBits: presence of each flag bit of the top-level definition (nil = drawn)
	ForceBits map[int]bool
	// StrLen forces the length of the first string/bytes parameter of the top-level definition (>0)
	StrLen int
	Feat   map[string]int
	minD   map[string]int
}

func (g *AGen) pick(n int) int {
	if n <= 1 {
		return 0
	}
	return int(g.S.U64() % uint64(n))
}

func (g *AGen) feat(s string) {
	if g.Feat == nil {
		g.Feat = map[string]int{}
	}
	g.Feat[s]++
}

func (g *AGen) fill(n int) []byte {
	out := make([]byte, n)
	x := g.S.U64() | 1
	for i := range out {
		x ^= x << 13
		x ^= x >> 7
		x ^= x << 17
		out[i] = byte(x >> 16)
	}
	return out
}

var aStrLens = []int{0, 1, 2, 3, 4, 5, 252, 253, 254, 255, 256, 257}

func (g *AGen) str() []byte {
	c := g.pick(40)
	var n int
	switch {
	case c < len(aStrLens):
		n = aStrLens[c]
	case c == 12 && g.Big:
		n = 65535
	case c == 13 && g.Big:
		n = 65536
	default:
		n = g.pick(300)
	}
	if n >= 254 {
		g.feat("string>=254")
	}
	if n >= 252 && n <= 257 {
		g.feat("len-252..257")
	}
	if n >= 65535 {
		g.feat("len-65535..65536")
	}
	if n <= 5 {
		g.feat("len-0..5")
	}
	return g.fill(n)
}

// minDepthType: smallest depth needed for a value of a boxed type.
func (g *AGen) minDepthDef(d *Def, seen map[string]bool) int {
	worst := 0
	for _, p := range d.Params {
		if p.Type.Optional {
			continue
		}
		t := p.Type
		for t.Kind == "vector" {
			t = Type{} // vectors may be empty
		}
		switch t.Kind {
		case "boxed":
			if dd := g.minDepthType(t.File+":"+t.Name, seen) + 1; dd > worst {
				worst = dd
			}
		case "bare":
			if bd := g.Sch.BareCtor(t.Name); bd != nil {
				if dd := g.minDepthDef(bd, seen) + 1; dd > worst {
					worst = dd
				}
			}
		case "Object", "!X":
			if worst < 1 {
				worst = 1
			}
		}
	}
	return worst
}

func (g *AGen) minDepthType(name string, seen map[string]bool) int {
	if g.minD == nil {
		g.minD = map[string]int{}
	}
	if v, ok := g.minD[name]; ok {
		return v
	}
	if seen[name] {
		return 1 << 20
	}
	seen[name] = true
	best := 1 << 20
	for _, d := range g.Sch.Types[name] {
		if v := g.minDepthDef(d, seen); v < best {
			best = v
		}
	}
	delete(seen, name)
	if best < 1<<20 {
		g.minD[name] = best
	}
	return best
}

// Ctor picks a constructor of a boxed type that fits the depth budget.
func (g *AGen) Ctor(file, typeName string, depth int) (*Def, error) {
	cs := g.Sch.Ctors(file, typeName)
	if len(cs) == 0 {
		return nil, fmt.Errorf("no constructor of type %s in the schema", typeName)
	}
	if depth < 0 {
		depth = 0
	}
	best := 1 << 20
	ds := make([]int, len(cs))
	for i, c := range cs {
		ds[i] = g.minDepthDef(c, map[string]bool{})
		if ds[i] < best {
			best = ds[i]
		}
	}
	var ok []*Def
	for i, c := range cs {
		if ds[i] <= depth || ds[i] == best {
			ok = append(ok, c)
		}
	}
	return ok[g.pick(len(ok))], nil
}

// Val generates a value of definition d.
func (g *AGen) Val(d *Def, depth int) (*Val, error) {
	v := &Val{Def: d, Fields: make([]any, len(d.Params))}
	force := g.ForceBits
	strLen := g.StrLen
	g.ForceBits, g.StrLen = nil, 0
	bits := map[int]bool{}
	for _, p := range d.Params {
		if !p.Type.Optional {
			continue
		}
		if _, done := bits[p.Type.Bit]; done {
			continue
		}
		if force != nil {
			bits[p.Type.Bit] = force[p.Type.Bit]
		} else {
			bits[p.Type.Bit] = g.pick(2) == 1
		}
		if bits[p.Type.Bit] {
			g.feat("flag-bit-set")
		}
	}
	if depth <= g.MaxDepth-2 {
		g.feat("nested>=2")
	}
	for i, p := range d.Params {
		if p.Type.Kind == "#" {
			continue
		}
		if p.Type.Optional && !bits[p.Type.Bit] {
			continue
		}
		if strLen > 0 && (p.Type.Kind == "string" || p.Type.Kind == "bytes") {
			v.Fields[i] = make([]byte, strLen)
			g.feat(fmt.Sprintf("len-%d", strLen))
			strLen = 0
			continue
		}
		f, err := g.typ(p.Type, depth-1)
		if err != nil {
			return nil, fmt.Errorf("%s.%s: %w", d.Name, p.Name, err)
		}
		v.Fields[i] = f
	}
	// A group is present exactly when at least one of its members is non-zero (the library's presence rule, C01):
	// a present group whose members are all zero cannot be expressed as a Go value, so it is not generated.
	for bit, on := range bits {
		if !on {
			continue
		}
		allZero, first := true, -1
		for i, p := range d.Params {
			if !p.Type.Optional || p.Type.Bit != bit {
				continue
			}
			if !zeroish(v.Fields[i]) {
				allZero = false
			}
			if first < 0 {
				first = i
			}
		}
		if allZero && first >= 0 {
			v.Fields[first] = nonZero(d.Params[first].Type, v.Fields[first])
			g.feat("group-forced-non-zero")
		}
	}
	return v, nil
}

func zeroish(x any) bool {
	switch t := x.(type) {
	case nil:
		return true
	case int32:
		return t == 0
	case int64:
		return t == 0
	case float64:
		return t == 0
	case bool:
		return !t
	case []byte:
		return len(t) == 0
	case []any:
		return len(t) == 0
	}
	return false // objects
}

func nonZero(t Type, old any) any {
	switch t.Kind {
	case "int":
		return int32(1)
	case "long":
		return int64(1)
	case "double":
		return float64(0.5)
	case "string", "bytes":
		return []byte{'x'}
	case "Bool":
		return true
	case "vector":
		switch t.Elem.Kind {
		case "int":
			return []any{int32(0)}
		case "long":
			return []any{int64(0)}
		case "string", "bytes":
			return []any{[]byte{}}
		case "double":
			return []any{float64(0)}
		case "Bool":
			return []any{false}
		}
	}
	return old
}

func (g *AGen) typ(t Type, depth int) (any, error) {
	switch t.Kind {
	case "int":
		opts := []int32{0, 1, -1, math.MaxInt32, math.MinInt32}
		if c := g.pick(len(opts) + 3); c < len(opts) {
			return opts[c], nil
		}
		return int32(g.S.U64() * 0x9e3779b97f4a7c15 >> 16), nil
	case "long":
		opts := []int64{0, 1, -1, math.MaxInt64, math.MinInt64}
		if c := g.pick(len(opts) + 3); c < len(opts) {
			return opts[c], nil
		}
		return int64(g.S.U64() * 0x9e3779b97f4a7c15), nil
	case "double":
		opts := []uint64{0, math.Float64bits(1.5), math.Float64bits(math.NaN()), math.Float64bits(math.Inf(-1)), 1 << 63, 1}
		if c := g.pick(len(opts) + 3); c < len(opts) {
			return math.Float64frombits(opts[c]), nil
		}
		return math.Float64frombits(g.S.U64() * 0x9e3779b97f4a7c15), nil
	case "string", "bytes":
		return g.str(), nil
	case "Bool":
		return g.pick(2) == 1, nil
	case "true":
		return true, nil
	case "int128", "int256":
		n := 16
		if t.Kind == "int256" {
			n = 32
		}
		b := g.fill(n)
		z := g.pick(3)
		for i := 0; i < z; i++ {
			b[i] = 0
		}
		return b, nil
	case "vector":
		sizes := []int{0, 1, 2, 5}
		n := sizes[g.pick(len(sizes))]
		if depth < 0 && n > 1 {
			n = 1
		}
		if n >= 2 {
			g.feat("vector>=2")
		}
		items := make([]any, 0, n)
		for i := 0; i < n; i++ {
			it, err := g.typ(*t.Elem, depth)
			if err != nil {
				return nil, err
			}
			items = append(items, it)
		}
		return items, nil
	case "boxed":
		c, err := g.Ctor(t.File, t.Name, depth)
		if err != nil {
			return nil, err
		}
		g.feat("nested-object")
		return g.Val(c, depth)
	case "bare":
		c := g.Sch.BareCtor(t.Name)
		if c == nil {
			return nil, fmt.Errorf("unknown bare type %s", t.Name)
		}
		return g.Val(c, depth)
	case "Object", "!X":
		// any constructor (Object) or any function (!X) of the API schema that needs little depth
		api := g.Sch.API(false)
		for tries := 0; tries < 50; tries++ {
			c := api[g.pick(len(api))]
			if c.Generic || c.Function != (t.Kind == "!X") {
				continue
			}
			if g.minDepthDef(c, map[string]bool{}) <= max(depth, 0) {
				g.feat("nested-object")
				return g.Val(c, depth)
			}
		}
		for _, c := range api { // fall back to the first leaf
			if !c.Generic && c.Function == (t.Kind == "!X") && g.minDepthDef(c, map[string]bool{}) == 0 {
				return g.Val(c, depth)
			}
		}
		return nil, fmt.Errorf("no leaf constructor for %s", t.Kind)
	}
	return nil, fmt.Errorf("cannot generate kind %q", t.Kind)
}

// FlagBits lists the distinct flag bits of a definition in ascending order.
func FlagBits(d *Def) []int {
	seen := map[int]bool{}
	var out []int
	for _, p := range d.Params {
		if p.Type.Optional && !seen[p.Type.Bit] {
			seen[p.Type.Bit] = true
			out = append(out, p.Type.Bit)
		}
	}
	for i := 1; i < len(out); i++ {
		for j := i; j > 0 && out[j] < out[j-1]; j-- {
			out[j], out[j-1] = out[j-1], out[j]
		}
	}
	return out
}
