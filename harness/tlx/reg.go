package tlx

import (
	"reflect"
	"strings"

	"github.com/xelaj/mtproto/internal/encoding/tl"
	_ "github.com/xelaj/mtproto/internal/mtproto/objects" // registers the MTProto service objects
	"github.com/xelaj/mtproto/telegram"
	"github.com/xelaj/mtproto/telegram/verifh/tls"
)

// aliases: the schema reading, reference codec, registry view and structural comparison live in package tls
// (which does not depend on the shipped API layer, so that it can also judge freshly generated packages).
type (
	Registry = tls.Registry
	Schema   = tls.Schema
	Def      = tls.Def
	Param    = tls.Param
	Type     = tls.Type
	Val      = tls.Val
	FlagInfo = tls.FlagInfo
)

var (
	Load            = tls.Load
	Encode          = tls.Encode
	CanonicalCRC    = tls.CanonicalCRC
	CompareDef      = tls.CompareDef
	FieldFlag       = tls.FieldFlag
	HandWritten     = tls.HandWritten
	WireUsedMTProto = tls.WireUsedMTProto
	ErrTooLong      = tls.ErrTooLong
	ObjType         = tls.ObjType
	Int128Type      = tls.Int128Type
	Int256Type      = tls.Int256Type
	MarshalerT      = tls.MarshalerT
	RepoDir         = tls.RepoDir
)

// LoadRegistry reads the registry of the code under test (API layer + MTProto objects) and adds the documented
// hand-written request wrappers.
func LoadRegistry() *Registry {
	objs, enums := tl.VerifRegistry()
	r := tls.NewRegistry(objs, enums, nil)
	r.ImplFilter = IsTelegram
	r.Wrappers = map[string]reflect.Type{
		"invokeWithLayer":   reflect.TypeOf(&telegram.InvokeWithLayerParams{}),
		"initConnection":    reflect.TypeOf(&telegram.InitConnectionParams{}),
		"invokeWithTakeout": reflect.TypeOf(&telegram.InvokeWithTakeoutParams{}),
	}
	r.Extra = []reflect.Type{r.Wrappers["invokeWithLayer"], r.Wrappers["initConnection"], r.Wrappers["invokeWithTakeout"]}
	return r
}

func IsTelegram(t reflect.Type) bool {
	for t.Kind() == reflect.Ptr {
		t = t.Elem()
	}
	return strings.HasSuffix(t.PkgPath(), "/telegram")
}
