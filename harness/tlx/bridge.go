package tlx

import (
	"errors"
	"fmt"
	"math/big"
	"reflect"

	"github.com/xelaj/mtproto/internal/encoding/tl"
)

// ErrSkip: the registry has no Go type that can hold the value. That is a translation defect (C13's business),
// so the wire-format check skips and counts it instead of reporting it a second time.
var ErrSkip = errors.New("skip: no Go type can hold this value")

// Bridge converts an abstract value into the Go value of the registered type, using positions only: field i of
// the struct <-> i-th parameter that is not '#'. Struct tags and FlagIndex() are never consulted.
func Bridge(r *Registry, v *Val) (reflect.Value, error) {
	// the same abstract sub-value met again (the caller put one object into two places) becomes the same Go pointer
	if r.Shared != nil {
		if gv, ok := r.Shared[v]; ok {
			return gv, nil
		}
	}
	gv, err := bridge(r, v)
	if err == nil && r.Shared != nil && gv.Kind() == reflect.Ptr {
		r.Shared[v] = gv
	}
	return gv, err
}

// BridgeShared is Bridge for values in which one abstract sub-value may occur in several places: every occurrence
// becomes the same Go pointer (as a caller who resolved a peer once and uses it twice would build it).
func BridgeShared(r *Registry, v *Val) (reflect.Value, error) {
	rr := *r
	rr.Shared = map[*Val]reflect.Value{}
	return Bridge(&rr, v)
}

func bridge(r *Registry, v *Val) (reflect.Value, error) {
	rt, ok := r.GoType(v.Def)
	if !ok {
		return reflect.Value{}, fmt.Errorf("%w: %s#%08x not registered", ErrSkip, v.Def.Name, v.Def.ID)
	}
	if rt.Kind() == reflect.Uint32 { // enum member
		if len(v.Def.Params) != 0 {
			return reflect.Value{}, fmt.Errorf("%w: %s is an enum value in Go but has parameters", ErrSkip, v.Def.Name)
		}
		return reflect.ValueOf(v.Def.ID).Convert(rt), nil
	}
	if rt.Kind() != reflect.Ptr || rt.Elem().Kind() != reflect.Struct {
		return reflect.Value{}, fmt.Errorf("%w: %s is %v", ErrSkip, v.Def.Name, rt)
	}
	out := reflect.New(rt.Elem())
	fi := 0
	for i, p := range v.Def.Params {
		if p.Type.Kind == "#" {
			continue
		}
		if fi >= rt.Elem().NumField() {
			return reflect.Value{}, fmt.Errorf("%w: %v has fewer fields than %s has parameters", ErrSkip, rt, v.Def.Name)
		}
		f := out.Elem().Field(fi)
		fi++
		if v.Fields[i] == nil {
			continue // absent
		}
		if err := bridgeSet(r, f, p.Type, v.Fields[i]); err != nil {
			return reflect.Value{}, fmt.Errorf("%s.%s: %w", v.Def.Name, p.Name, err)
		}
	}
	if fi != rt.Elem().NumField() {
		return reflect.Value{}, fmt.Errorf("%w: %v has %d fields, %s has %d parameters", ErrSkip, rt, rt.Elem().NumField(), v.Def.Name, fi)
	}
	return out, nil
}

func bridgeSet(r *Registry, f reflect.Value, t Type, x any) error {
	bad := func() error {
		return fmt.Errorf("%w: Go field of type %v for TL type %s", ErrSkip, f.Type(), t.Kind+t.Name)
	}
	switch t.Kind {
	case "int":
		if f.Kind() != reflect.Int32 {
			return bad()
		}
		f.SetInt(int64(x.(int32)))
	case "long":
		if f.Kind() != reflect.Int64 {
			return bad()
		}
		f.SetInt(x.(int64))
	case "double":
		if f.Kind() != reflect.Float64 {
			return bad()
		}
		f.SetFloat(x.(float64))
	case "string", "bytes":
		switch {
		case f.Kind() == reflect.String:
			f.SetString(string(x.([]byte)))
		case f.Kind() == reflect.Slice && f.Type().Elem().Kind() == reflect.Uint8:
			f.SetBytes(append([]byte{}, x.([]byte)...))
		default:
			return bad()
		}
	case "Bool", "true":
		if f.Kind() != reflect.Bool {
			return bad()
		}
		f.SetBool(x.(bool))
	case "int128":
		if f.Type() != Int128Type {
			return bad()
		}
		f.Set(reflect.ValueOf(&tl.Int128{Int: new(big.Int).SetBytes(x.([]byte))}))
	case "int256":
		if f.Type() != Int256Type {
			return bad()
		}
		f.Set(reflect.ValueOf(&tl.Int256{Int: new(big.Int).SetBytes(x.([]byte))}))
	case "vector":
		if f.Kind() != reflect.Slice || f.Type().Elem().Kind() == reflect.Uint8 {
			return bad()
		}
		items := x.([]any)
		s := reflect.MakeSlice(f.Type(), len(items), len(items))
		for i, it := range items {
			if err := bridgeSet(r, s.Index(i), *t.Elem, it); err != nil {
				return err
			}
		}
		f.Set(s)
	case "boxed", "bare", "Object", "!X":
		gv, err := Bridge(r, x.(*Val))
		if err != nil {
			return err
		}
		if !gv.Type().AssignableTo(f.Type()) {
			return fmt.Errorf("%w: %v is not assignable to field type %v", ErrSkip, gv.Type(), f.Type())
		}
		f.Set(gv)
	default:
		return bad()
	}
	return nil
}

// Adjacent re-homes every non-empty []byte inside a bridged Go value into one buffer, one directly behind the other and
// each with a capacity that reaches over everything behind it - what a caller's value looks like whose fields were cut
// out of one received blob. It returns the buffer (the last 16 bytes are a guard no field owns) and how many fields moved.
func Adjacent(gv reflect.Value) ([]byte, int) {
	var fields []reflect.Value
	var walk func(v reflect.Value, depth int)
	walk = func(v reflect.Value, depth int) {
		if depth > 12 || !v.IsValid() {
			return
		}
		switch v.Kind() {
		case reflect.Ptr, reflect.Interface:
			if !v.IsNil() {
				walk(v.Elem(), depth+1)
			}
		case reflect.Struct:
			if v.Type() == Int128Type.Elem() || v.Type() == Int256Type.Elem() {
				return
			}
			for i := 0; i < v.NumField(); i++ {
				walk(v.Field(i), depth+1)
			}
		case reflect.Slice:
			if v.Type().Elem().Kind() == reflect.Uint8 {
				if v.CanSet() && v.Len() > 0 {
					fields = append(fields, v)
				}
				return
			}
			for i := 0; i < v.Len(); i++ {
				walk(v.Index(i), depth+1)
			}
		}
	}
	walk(gv, 0)
	total := 0
	for _, f := range fields {
		total += f.Len()
	}
	blob := make([]byte, total+16)
	for i := total; i < len(blob); i++ {
		blob[i] = 0xc3
	}
	off := 0
	for _, f := range fields {
		n := f.Len()
		copy(blob[off:], f.Bytes())
		f.SetBytes(blob[off : off+n]) // capacity reaches to the end of the blob
		off += n
	}
	return blob, len(fields)
}
