package tlx

import (
	"fmt"
	"math"
	"math/big"
	"reflect"
	"sort"

	"github.com/xelaj/mtproto/internal/encoding/tl"
	"github.com/xelaj/mtproto/internal/mtproto/messages"
	"github.com/xelaj/mtproto/internal/mtproto/objects"
)

// Src supplies the builder's choices. 0 always selects the simplest alternative, so a source that shrinks
// towards zero (rapid) or runs dry (replay) yields minimal values.
type Src interface{ U64() uint64 }

// Recorder wraps a source and remembers every draw: the recorded sequence is the replay of the value.
type Recorder struct {
	In    Src
	Draws []uint64
}

func (r *Recorder) U64() uint64 {
	v := r.In.U64()
	r.Draws = append(r.Draws, v)
	return v
}

// Replay feeds recorded draws back (zeros once exhausted).
type Replay struct {
	Draws []uint64
	pos   int
}

func (r *Replay) U64() uint64 {
	if r.pos >= len(r.Draws) {
		return 0
	}
	v := r.Draws[r.pos]
	r.pos++
	return v
}

// Xor is a deterministic source for enumerations (pure function of the seed).
type Xor struct{ S uint64 }

func (x *Xor) U64() uint64 {
	if x.S == 0 {
		x.S = 0x9e3779b97f4a7c15
	}
	x.S ^= x.S << 13
	x.S ^= x.S >> 7
	x.S ^= x.S << 17
	// bias towards small values so that boundary choices (index 0..) stay frequent
	if x.S&7 == 0 {
		return (x.S >> 8) & 15
	}
	return x.S >> 3
}

// GroupState of a conditional-flag group: 0 absent, 1 present with every member non-zero, 2 present-mixed.
type Force struct {
	Type  reflect.Type   // applies to the top-level struct of this type only
	State map[int]int    // bit -> state
	Mask  map[int]uint64 // bit -> for state 2: which members (by order in the group) are non-zero (never 0)
}

type Builder struct {
	R        *Registry
	S        Src
	MaxDepth int
	Big      bool // thorough tier: allow 64 KiB strings and 300-element vectors
	Force    *Force
	// features of the value built, for the non-trivial rule and class histogram
	Feat map[string]int
	// exclusions requested by open known findings
	NoGzipPacked, NoMsgCopy bool
}

func (b *Builder) pick(n int) int {
	if n <= 1 {
		return 0
	}
	return int(b.S.U64() % uint64(n))
}

func (b *Builder) feat(s string) {
	if b.Feat == nil {
		b.Feat = map[string]int{}
	}
	b.Feat[s]++
}

var strLens = []int{0, 1, 2, 3, 4, 5, 252, 253, 254, 255, 256, 257}

func (b *Builder) bytes(nonEmpty bool) []byte {
	var n int
	c := b.pick(40)
	switch {
	case c < len(strLens):
		n = strLens[c]
	case c == 12 && b.Big:
		n = 65535
	case c == 13 && b.Big:
		n = 65536
	default:
		n = b.pick(300)
	}
	if nonEmpty && n == 0 {
		n = 1 + b.pick(6)
	}
	switch {
	case n >= 252 && n <= 257:
		b.feat("str-len-252..257")
	case n >= 65535:
		b.feat("str-len-65535..65536")
	}
	b.feat(fmt.Sprintf("str-len%%4=%d", n%4))
	out := make([]byte, n)
	x := b.S.U64() | 1
	for i := range out {
		x ^= x << 13
		x ^= x >> 7
		x ^= x << 17
		out[i] = byte(x >> 16)
	}
	return out
}

func (b *Builder) i64(nonZero bool) int64 {
	opts := []int64{0, 1, -1, math.MaxInt64, math.MinInt64, math.MaxInt32, math.MinInt32}
	c := b.pick(len(opts) + 3)
	var v int64
	if c < len(opts) {
		v = opts[c]
	} else {
		v = int64(b.S.U64() * 0x9e3779b97f4a7c15)
	}
	if nonZero && v == 0 {
		v = 7
	}
	return v
}

// Value builds a canonical TL value of Go type t within the remaining depth budget.
func (b *Builder) Value(t reflect.Type, depth int, nonZero bool) reflect.Value {
	switch t.Kind() {
	case reflect.Int32:
		v := b.i64(nonZero)
		if int32(v) == 0 && nonZero {
			v = 5
		}
		return reflect.ValueOf(int32(v)).Convert(t)
	case reflect.Int64:
		return reflect.ValueOf(b.i64(nonZero)).Convert(t)
	case reflect.Float64:
		specials := []uint64{0, math.Float64bits(1), math.Float64bits(math.NaN()), math.Float64bits(math.Inf(1)), math.Float64bits(math.Inf(-1)), 1 << 63, 1, 0x7ff8000000000001}
		c := b.pick(len(specials) + 3)
		var bits uint64
		if c < len(specials) {
			bits = specials[c]
		} else {
			bits = b.S.U64() * 0x9e3779b97f4a7c15
		}
		if nonZero && math.Float64frombits(bits) == 0 { // -0.0 is numerically zero too: the group would count as absent
			bits = math.Float64bits(2.5)
		}
		f := math.Float64frombits(bits)
		if math.IsNaN(f) || math.IsInf(f, 0) || bits == 1<<63 {
			b.feat("double-nonfinite-or-negzero")
		}
		return reflect.ValueOf(f).Convert(t)
	case reflect.Bool:
		if nonZero {
			return reflect.ValueOf(true).Convert(t)
		}
		return reflect.ValueOf(b.pick(2) == 1).Convert(t)
	case reflect.String:
		return reflect.ValueOf(string(b.bytes(nonZero))).Convert(t)
	case reflect.Uint32:
		if m, ok := b.R.Enums[t]; ok {
			b.feat("enum-member")
			return reflect.ValueOf(m[b.pick(len(m))]).Convert(t)
		}
		v := uint32(b.S.U64())
		if nonZero && v == 0 {
			v = 1
		}
		return reflect.ValueOf(v).Convert(t)
	case reflect.Slice:
		if t.Elem().Kind() == reflect.Uint8 {
			return reflect.ValueOf(b.bytes(nonZero)).Convert(t)
		}
		sizes := []int{0, 1, 2, 3, 5, 8}
		n := sizes[b.pick(len(sizes))]
		if b.Big && b.pick(200) == 1 && depth >= b.MaxDepth-1 {
			n = 300
		}
		if nonZero && n == 0 {
			n = 1
		}
		if depth <= 0 && n > 2 {
			n = 2
		}
		if n >= 2 {
			b.feat("vector>=2")
		}
		s := reflect.MakeSlice(t, n, n)
		for i := 0; i < n; i++ {
			s.Index(i).Set(b.Value(t.Elem(), depth-1, false))
		}
		if n == 0 && !nonZero && b.pick(2) == 0 {
			return reflect.Zero(t) // nil slice
		}
		return s
	case reflect.Ptr:
		if t == Int128Type || t == Int256Type {
			n := 16
			if t == Int256Type {
				n = 32
			}
			raw := make([]byte, n)
			x := b.S.U64() | 1
			for i := range raw {
				x ^= x << 13
				x ^= x >> 7
				x ^= x << 17
				raw[i] = byte(x >> 16)
			}
			z := b.pick(4)
			if z == 3 {
				z = n // the value zero
			}
			for i := 0; i < z && i < n; i++ {
				raw[i] = 0
			}
			if z > 0 {
				b.feat("int128/256-leading-zero")
			}
			if t == Int128Type {
				return reflect.ValueOf(&tl.Int128{Int: new(big.Int).SetBytes(raw)})
			}
			return reflect.ValueOf(&tl.Int256{Int: new(big.Int).SetBytes(raw)})
		}
		return b.Struct(t, depth)
	case reflect.Interface:
		cands := b.R.Implementers(t)
		if len(cands) == 0 {
			panic("no registered implementer of " + t.String())
		}
		budget := depth
		if budget < 0 {
			budget = 0
		}
		var ok []reflect.Type
		best := 1 << 20
		for _, c := range cands {
			d := b.R.MinDepth(c)
			if d < best {
				best = d
			}
		}
		for _, c := range cands {
			d := b.R.MinDepth(c)
			if d <= budget || d == best {
				ok = append(ok, c)
			}
		}
		c := ok[b.pick(len(ok))]
		return b.Struct(c, depth).Convert(t)
	}
	panic("builder: unsupported kind " + t.String())
}

type group struct {
	bit     int
	fields  []int
	bitflag []int
}

// Groups returns the conditional-flag groups of a struct type (fields sharing one flag bit), ordered by bit.
func Groups(st reflect.Type) []group {
	m := map[int]*group{}
	for i := 0; i < st.NumField(); i++ {
		fi := FieldFlag(st.Field(i))
		if !fi.Conditional {
			continue
		}
		g := m[fi.Bit]
		if g == nil {
			g = &group{bit: fi.Bit}
			m[fi.Bit] = g
		}
		if fi.InBitflags {
			g.bitflag = append(g.bitflag, i)
		} else {
			g.fields = append(g.fields, i)
		}
	}
	var out []group
	for _, g := range m {
		out = append(out, *g)
	}
	sort.Slice(out, func(i, j int) bool { return out[i].bit < out[j].bit })
	return out
}

// MultiGroups lists the groups with at least two members (value fields + bitflag members).
func MultiGroups(st reflect.Type) []group {
	var out []group
	for _, g := range Groups(st) {
		if len(g.fields)+len(g.bitflag) >= 2 {
			out = append(out, g)
		}
	}
	return out
}

func (g group) Bit() int     { return g.bit }
func (g group) Members() int { return len(g.fields) + len(g.bitflag) }
func (g group) ValueFields() int {
	return len(g.fields)
}

// canBeZero: a present member may hold the zero value only if TL can express it (scalars, strings, vectors);
// objects and enum members cannot be null.
func (b *Builder) canBeZero(t reflect.Type) bool {
	switch t.Kind() {
	case reflect.Ptr, reflect.Interface:
		return false
	case reflect.Uint32:
		_, enum := b.R.Enums[t]
		return !enum
	}
	return true
}

// Struct builds *T for a registered struct type (pointer type given).
func (b *Builder) Struct(pt reflect.Type, depth int) reflect.Value {
	if pt.Kind() != reflect.Ptr {
		panic("Struct wants a pointer type, got " + pt.String())
	}
	if depth <= b.MaxDepth-2 {
		b.feat("depth>=2")
	}
	// hand-written (un)marshalers
	switch pt {
	case reflect.TypeOf(&objects.MessageContainer{}):
		n := b.pick(4)
		mc := make(objects.MessageContainer, n)
		for i := range mc {
			body := b.bytes(false)
			body = body[:len(body)/4*4]
			mc[i] = &messages.Encrypted{MsgID: b.i64(false), SeqNo: int32(b.i64(false)), Msg: body}
		}
		b.feat("message-container")
		return reflect.ValueOf(&mc)
	}
	st := pt.Elem()
	v := reflect.New(st)
	if st.Kind() != reflect.Struct {
		return v
	}
	force := b.Force
	if force != nil && force.Type != pt {
		force = nil
	}
	b.Force = nil // only the top-level struct is forced
	handled := map[int]bool{}
	for _, g := range Groups(st) {
		state := -1
		if force != nil {
			if s, ok := force.State[g.bit]; ok {
				state = s
			}
		}
		multi := len(g.fields)+len(g.bitflag) >= 2
		if state < 0 {
			state = b.pick(3)
			if !multi && state == 2 {
				state = 1
			}
		}
		// a mixed state needs at least one member that may be zero while another member is non-zero
		zeroable := 0
		for _, fi := range g.fields {
			if b.canBeZero(st.Field(fi).Type) {
				zeroable++
			}
		}
		if state == 2 && (zeroable == 0 || len(g.fields)+len(g.bitflag) < 2) {
			state = 1
		}
		for _, fi := range append(append([]int{}, g.fields...), g.bitflag...) {
			handled[fi] = true
		}
		if state == 0 {
			if multi {
				b.feat(fmt.Sprintf("group:%s:bit%d:absent", st.Name(), g.bit))
			}
			continue
		}
		for _, fi := range g.bitflag {
			v.Elem().Field(fi).SetBool(true)
		}
		mask := ^uint64(0)
		if state == 2 {
			if force != nil && force.Mask != nil && force.Mask[g.bit] != 0 {
				mask = force.Mask[g.bit]
			} else {
				mask = b.S.U64()
			}
			// make sure the pattern is really mixed: at least one zeroable member zero, and the group still present
			allNonZero, anyNonZero := true, len(g.bitflag) > 0
			for k, fi := range g.fields {
				nz := mask&(1<<uint(k)) != 0 || !b.canBeZero(st.Field(fi).Type)
				allNonZero = allNonZero && nz
				anyNonZero = anyNonZero || nz
			}
			if allNonZero {
				for k, fi := range g.fields { // clear the first zeroable member
					if b.canBeZero(st.Field(fi).Type) {
						mask &^= 1 << uint(k)
						break
					}
				}
			}
			if !anyNonZero {
				mask |= 1
			}
		}
		nzCount, zCount := len(g.bitflag), 0
		for k, fi := range g.fields {
			ft := st.Field(fi).Type
			if mask&(1<<uint(k)) != 0 || !b.canBeZero(ft) {
				v.Elem().Field(fi).Set(b.Value(ft, depth-1, true))
				nzCount++
			} else {
				zCount++ // stays the zero value
			}
		}
		if multi {
			if zCount > 0 && nzCount > 0 {
				b.feat("group-present-mixed")
				b.feat(fmt.Sprintf("group:%s:bit%d:mixed", st.Name(), g.bit))
			} else {
				b.feat(fmt.Sprintf("group:%s:bit%d:all-nonzero", st.Name(), g.bit))
			}
		}
	}
	for i := 0; i < st.NumField(); i++ {
		if handled[i] {
			continue
		}
		f := st.Field(i)
		if !v.Elem().Field(i).CanSet() {
			continue
		}
		ft := f.Type
		// special field types of the MTProto objects
		if pt == reflect.TypeOf(&objects.MsgCopy{}) {
			continue
		}
		v.Elem().Field(i).Set(b.Value(ft, depth-1, false))
	}
	return v
}
