// genkeys prints a pool of RSA-2048 keys derived from seeds (used once to create /verif/corpus/rsa/keys.json, and by
// thorough runs to extend the pool from VERIF_SEED).
package main

import (
	"encoding/json"
	"fmt"
	"os"
	"strconv"
	"sync"

	"github.com/xelaj/mtproto/telegram/verifh/refsrv"
)

func main() {
	from, _ := strconv.Atoi(os.Args[1])
	n, _ := strconv.Atoi(os.Args[2])
	keys := make([]refsrv.RSAKeyJSON, n)
	var wg sync.WaitGroup
	for i := 0; i < n; i++ {
		wg.Add(1)
		go func(i int) {
			defer wg.Done()
			keys[i] = refsrv.GenerateRSA(uint64(from + i)).JSON()
		}(i)
	}
	wg.Wait()
	b, _ := json.MarshalIndent(keys, "", " ")
	fmt.Println(string(b))
}
