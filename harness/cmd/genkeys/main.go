// genkeys prints a pool of RSA-2048 keys derived from seeds (used once to create /verif/corpus/rsa/keys.json, and by
// thorough runs to extend the pool from VERIF_SEED).
package main

import (
	"encoding/json"
	"fmt"
	"os"
	"strconv"
	"strings"
	"sync"

	"github.com/xelaj/mtproto/telegram/verifh/refsrv"
)

func main() {
	from, _ := strconv.Atoi(os.Args[1])
	n, _ := strconv.Atoi(os.Args[2])
	keys := make([]refsrv.RSAKeyJSON, n)
	var wg sync.WaitGroup
	for i := 0; i < n; i++ {
		wg.Add(1)
		go func(i int) {
			defer wg.Done()
			if len(os.Args) > 3 {
				// genkeys <from> <n> <e1,e2,...>: key i gets exponent i mod len
				var exps []int
				for _, f := range strings.Split(os.Args[3], ",") {
					e, _ := strconv.Atoi(f)
					exps = append(exps, e)
				}
				keys[i] = refsrv.GenerateRSAExp(uint64(from+i), exps[i%len(exps)]).JSON()
				return
			}
			keys[i] = refsrv.GenerateRSA(uint64(from + i)).JSON()
		}(i)
	}
	wg.Wait()
	b, _ := json.MarshalIndent(keys, "", " ")
	fmt.Println(string(b))
}
