// vdriver executes one scenario (JSON on stdin) against the real client in this fresh process and prints the
// observations (EV lines) and the result (RESULT line).
package main

import (
	"encoding/json"
	"fmt"
	"io"
	"os"

	"github.com/xelaj/mtproto/telegram/verifh/scen"
)

func main() {
	in, err := io.ReadAll(os.Stdin)
	if err != nil {
		fmt.Fprintln(os.Stderr, "vdriver: read scenario:", err)
		os.Exit(4)
	}
	var sc scen.Scenario
	if err := json.Unmarshal(in, &sc); err != nil {
		fmt.Fprintln(os.Stderr, "vdriver: parse scenario:", err)
		os.Exit(4)
	}
	if err := scen.Execute(&sc); err != nil {
		fmt.Fprintln(os.Stderr, "vdriver:", err)
		os.Exit(4)
	}
}
