package ref

import (
	"crypto/hmac"
	"crypto/sha512"
	"encoding/binary"
	"errors"
	"math/big"
)

// DHPrime is Telegram's well-known 2048-bit safe prime (core.telegram.org/mtproto/auth_key, also used for SRP).
var DHPrime, _ = new(big.Int).SetString("C71CAEB9C6B1C9048E6C522F70F13F73980D40238E3E21C14934D037563D930F48198A0AA7C14058229493D22530F4DBFA336F6E0AC925139543AED44CCE7C3720FD51F69458705AC68CD4FE6B6B13ABDC9746512969328454F18FAF8C595F642477FE96BB2A941D5BCD1D4AC8CC49880708FA9B378E3C4F3A9060BEE67CF9A4A4A695811051907E162753B56B0F6B410DBA74D8A84B2A14B3144E0EF1284754FD17ED950D5965B4B9DD46582DB1178D169C6BC465B0D6FF9CA3928FEF5B9AE4E418FC15E83EBEA0F87FA9FF5EED70050DED2849F47BF959D956850CE929851F0D8115F635B105EE2E4E15D04B2454BF6F4FADF034B10403119CD8E3B92FCC5B", 16)

// PBKDF2SHA512 is RFC 8018 PBKDF2 with HMAC-SHA512, written out (no third-party code).
func PBKDF2SHA512(password, salt []byte, iter, keyLen int) []byte {
	prf := hmac.New(sha512.New, password)
	hl := prf.Size()
	blocks := (keyLen + hl - 1) / hl
	var out []byte
	for b := 1; b <= blocks; b++ {
		prf.Reset()
		prf.Write(salt)
		var idx [4]byte
		binary.BigEndian.PutUint32(idx[:], uint32(b))
		prf.Write(idx[:])
		u := prf.Sum(nil)
		t := append([]byte{}, u...)
		for i := 1; i < iter; i++ {
			prf.Reset()
			prf.Write(u)
			u = prf.Sum(u[:0])
			for j := range t {
				t[j] ^= u[j]
			}
		}
		out = append(out, t...)
	}
	return out[:keyLen]
}

// SRPX computes x = PH2(password, salt1, salt2) of core.telegram.org/api/srp.
func SRPX(password, s1, s2 []byte) *big.Int {
	sh := func(data, salt []byte) []byte { return SHA256(salt, data, salt) }
	ph1 := sh(sh(password, s1), s2)
	ph2 := sh(PBKDF2SHA512(ph1, s1, 100000, 64), s2)
	return new(big.Int).SetBytes(ph2)
}

// SRPServer holds only what a server stores: salts, group and the verifier v = g^x mod p; plus its secret b.
type SRPServer struct {
	S1, S2 []byte
	G      int64
	P      *big.Int
	V      *big.Int
	b      *big.Int
	B      *big.Int
	kv, gb *big.Int
}

func NewSRPServer(s1, s2 []byte, g int64, p, v, b *big.Int) *SRPServer {
	s := &SRPServer{S1: s1, S2: s2, G: g, P: p, V: v, b: new(big.Int).Set(b)}
	s.recompute()
	return s
}

func (s *SRPServer) k() *big.Int {
	return new(big.Int).SetBytes(SHA256(LeftPad(s.P.Bytes(), 256), LeftPad(big.NewInt(s.G).Bytes(), 256)))
}

func (s *SRPServer) recompute() {
	s.kv = new(big.Int).Mul(s.k(), s.V)
	s.kv.Mod(s.kv, s.P)
	s.gb = new(big.Int).Exp(big.NewInt(s.G), s.b, s.P)
	s.B = new(big.Int).Add(s.kv, s.gb)
	s.B.Mod(s.B, s.P)
}

// BumpB moves the server secret to b+1 (one modular multiplication: a cheap way to search for a B with given
// leading bytes).
func (s *SRPServer) BumpB() {
	s.b.Add(s.b, big.NewInt(1))
	s.gb.Mul(s.gb, big.NewInt(s.G)).Mod(s.gb, s.P)
	s.B = new(big.Int).Add(s.kv, s.gb)
	s.B.Mod(s.B, s.P)
}

// S returns the shared secret the server derives for the client's A: S = (A * v^u)^b mod p.
func (s *SRPServer) S(A *big.Int) (S, u *big.Int) {
	u = new(big.Int).SetBytes(SHA256(LeftPad(A.Bytes(), 256), LeftPad(s.B.Bytes(), 256)))
	S = new(big.Int).Exp(s.V, u, s.P)
	S.Mul(S, A).Mod(S, s.P).Exp(S, s.b, s.P)
	return S, u
}

// Check verifies (A, M1) as Telegram's server does.
func (s *SRPServer) Check(Abytes, M1 []byte) error {
	A := new(big.Int).SetBytes(Abytes)
	if A.Sign() <= 0 || A.Cmp(s.P) >= 0 {
		return errors.New("ref srp: A out of range")
	}
	S, _ := s.S(A)
	K := SHA256(LeftPad(S.Bytes(), 256))
	hp, hg := SHA256(LeftPad(s.P.Bytes(), 256)), SHA256(LeftPad(big.NewInt(s.G).Bytes(), 256))
	want := SHA256(XorBytes(hp, hg), SHA256(s.S1), SHA256(s.S2), LeftPad(A.Bytes(), 256), LeftPad(s.B.Bytes(), 256), K)
	if string(want) != string(M1) {
		return errors.New("ref srp: M1 mismatch")
	}
	return nil
}
