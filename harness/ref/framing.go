package ref

import "encoding/binary"

// Transport framing per core.telegram.org/mtproto/mtproto-transports.

func AbridgedAnnouncement() []byte     { return []byte{0xef} }
func IntermediateAnnouncement() []byte { return []byte{0xee, 0xee, 0xee, 0xee} }

// FrameAbridged: length in 4-byte words as one byte (< 127) or 0x7f + 3 bytes little-endian.
func FrameAbridged(payload []byte) []byte {
	words := len(payload) / 4
	var out []byte
	if words < 127 {
		out = append(out, byte(words))
	} else {
		out = append(out, 0x7f, byte(words), byte(words>>8), byte(words>>16))
	}
	return append(out, payload...)
}

// FrameIntermediate: 4-byte little-endian length in bytes.
func FrameIntermediate(payload []byte) []byte {
	out := binary.LittleEndian.AppendUint32(nil, uint32(len(payload)))
	return append(out, payload...)
}

// PlainPacket: unencrypted MTProto message: auth_key_id = 0, msg_id, length, body.
func PlainPacket(msgID int64, body []byte) []byte {
	out := make([]byte, 8, 20+len(body))
	out = binary.LittleEndian.AppendUint64(out, uint64(msgID))
	out = binary.LittleEndian.AppendUint32(out, uint32(len(body)))
	return append(out, body...)
}
