// Package ref holds the reference implementations (oracles). Nothing here imports a package of the code
// under test: everything is written from the public protocol descriptions (core.telegram.org/mtproto).
package ref

import (
	"crypto/aes"
	"crypto/sha1"
	"crypto/sha256"
	"encoding/binary"
	"errors"
	"math/big"
)

func SHA1(parts ...[]byte) []byte {
	h := sha1.New()
	for _, p := range parts {
		h.Write(p)
	}
	return h.Sum(nil)
}

func SHA256(parts ...[]byte) []byte {
	h := sha256.New()
	for _, p := range parts {
		h.Write(p)
	}
	return h.Sum(nil)
}

func XorBytes(a, b []byte) []byte {
	o := make([]byte, len(a))
	for i := range a {
		o[i] = a[i] ^ b[i]
	}
	return o
}

// IGEEncrypt is textbook AES-IGE: c_i = E_k(p_i xor c_{i-1}) xor p_{i-1}, with iv = c_0 || p_0.
func IGEEncrypt(key, iv, in []byte) ([]byte, error) {
	if len(in) == 0 || len(in)%16 != 0 || len(iv) != 32 {
		return nil, errors.New("ref: bad ige input")
	}
	c, err := aes.NewCipher(key)
	if err != nil {
		return nil, err
	}
	out := make([]byte, len(in))
	cprev, pprev := append([]byte{}, iv[:16]...), append([]byte{}, iv[16:]...)
	for i := 0; i < len(in); i += 16 {
		t := XorBytes(in[i:i+16], cprev)
		c.Encrypt(t, t)
		t = XorBytes(t, pprev)
		copy(out[i:], t)
		cprev, pprev = t, in[i:i+16]
	}
	return out, nil
}

// IGEDecrypt: p_i = D_k(c_i xor p_{i-1}) xor c_{i-1}.
func IGEDecrypt(key, iv, in []byte) ([]byte, error) {
	if len(in) == 0 || len(in)%16 != 0 || len(iv) != 32 {
		return nil, errors.New("ref: bad ige input")
	}
	c, err := aes.NewCipher(key)
	if err != nil {
		return nil, err
	}
	out := make([]byte, len(in))
	cprev, pprev := append([]byte{}, iv[:16]...), append([]byte{}, iv[16:]...)
	for i := 0; i < len(in); i += 16 {
		t := XorBytes(in[i:i+16], pprev)
		c.Decrypt(t, t)
		t = XorBytes(t, cprev)
		copy(out[i:], t)
		cprev, pprev = in[i:i+16], t
	}
	return out, nil
}

// TempKeys derives tmp_aes_key / tmp_aes_iv of the key exchange from new_nonce (32 bytes) and server_nonce
// (16 bytes), both fixed-width.
func TempKeys(newNonce, serverNonce []byte) (key, iv []byte) {
	h1 := SHA1(newNonce, serverNonce)
	h2 := SHA1(serverNonce, newNonce)
	h3 := SHA1(newNonce, newNonce)
	key = append(append([]byte{}, h1...), h2[:12]...)
	iv = append(append(append([]byte{}, h2[12:20]...), h3...), newNonce[:4]...)
	return
}

// KDF1 is the MTProto 1.0 key derivation; x = 0 for client->server, 8 for server->client.
func KDF1(authKey, msgKey []byte, x int) (key, iv []byte) {
	a := SHA1(msgKey, authKey[x:x+32])
	b := SHA1(authKey[32+x:48+x], msgKey, authKey[48+x:64+x])
	c := SHA1(authKey[64+x:96+x], msgKey)
	d := SHA1(msgKey, authKey[96+x:128+x])
	key = append(append(append([]byte{}, a[:8]...), b[8:20]...), c[4:16]...)
	iv = append(append(append(append([]byte{}, a[8:20]...), b[:8]...), c[16:20]...), d[:8]...)
	return
}

func AuthKeyID(authKey []byte) []byte { return SHA1(authKey)[12:20] }

func LeftPad(b []byte, n int) []byte {
	if len(b) >= n {
		return b[len(b)-n:]
	}
	o := make([]byte, n)
	copy(o[n-len(b):], b)
	return o
}

// Envelope is the plaintext of an encrypted MTProto 1.0 message.
type Envelope struct {
	Salt, Session, MsgID int64
	SeqNo                int32
	Body                 []byte
}

func (e Envelope) plaintext() []byte {
	b := make([]byte, 0, 32+len(e.Body)+16)
	b = binary.LittleEndian.AppendUint64(b, uint64(e.Salt))
	b = binary.LittleEndian.AppendUint64(b, uint64(e.Session))
	b = binary.LittleEndian.AppendUint64(b, uint64(e.MsgID))
	b = binary.LittleEndian.AppendUint32(b, uint32(e.SeqNo))
	b = binary.LittleEndian.AppendUint32(b, uint32(len(e.Body)))
	return append(b, e.Body...)
}

// Seal builds the packet a conformant peer sends: auth_key_id | msg_key | IGE(plaintext | pad). x selects the
// direction (0 client->server, 8 server->client); pad supplies the 0..15 padding bytes (only as many as needed
// are used, plus extra16 whole blocks are NOT added: MTProto 1.0 allows 0..15 bytes).
func Seal(authKey []byte, e Envelope, x int, pad []byte) []byte {
	pt := e.plaintext()
	msgKey := SHA1(pt)[4:20]
	need := (16 - len(pt)%16) % 16
	for i := 0; i < need; i++ {
		var p byte
		if i < len(pad) {
			p = pad[i]
		}
		pt = append(pt, p)
	}
	k, iv := KDF1(authKey, msgKey, x)
	ct, _ := IGEEncrypt(k, iv, pt)
	out := append([]byte{}, AuthKeyID(authKey)...)
	out = append(out, msgKey...)
	return append(out, ct...)
}

// SealRaw seals an arbitrary plaintext (already a multiple of 16) whose msg_key is computed over
// plaintext[:hashLen]; used to build attacker-with-key packets.
func SealRaw(authKey, plaintext []byte, hashLen int, x int) []byte {
	msgKey := SHA1(plaintext[:hashLen])[4:20]
	k, iv := KDF1(authKey, msgKey, x)
	ct, _ := IGEEncrypt(k, iv, plaintext)
	out := append([]byte{}, AuthKeyID(authKey)...)
	out = append(out, msgKey...)
	return append(out, ct...)
}

// Open is what a conformant receiver does with a packet (x as in Seal: direction the packet travels).
func Open(authKey, packet []byte, x int) (Envelope, int, error) {
	var e Envelope
	if len(packet) < 24+32 || (len(packet)-24)%16 != 0 {
		return e, 0, errors.New("ref: bad packet length")
	}
	if string(packet[:8]) != string(AuthKeyID(authKey)) {
		return e, 0, errors.New("ref: wrong auth_key_id")
	}
	msgKey := packet[8:24]
	k, iv := KDF1(authKey, msgKey, x)
	pt, err := IGEDecrypt(k, iv, packet[24:])
	if err != nil {
		return e, 0, err
	}
	e.Salt = int64(binary.LittleEndian.Uint64(pt[0:]))
	e.Session = int64(binary.LittleEndian.Uint64(pt[8:]))
	e.MsgID = int64(binary.LittleEndian.Uint64(pt[16:]))
	e.SeqNo = int32(binary.LittleEndian.Uint32(pt[24:]))
	l := int(int32(binary.LittleEndian.Uint32(pt[28:])))
	if l < 0 || 32+l > len(pt) {
		return e, 0, errors.New("ref: declared length outside the decrypted data")
	}
	padding := len(pt) - 32 - l
	if string(SHA1(pt[:32+l])[4:20]) != string(msgKey) {
		return e, padding, errors.New("ref: msg_key mismatch")
	}
	e.Body = append([]byte{}, pt[32:32+l]...)
	return e, padding, nil
}

// RSA raw operations on fixed-width blocks.
func RSAPublic(block []byte, n *big.Int, e int) []byte {
	c := new(big.Int).Exp(new(big.Int).SetBytes(block), big.NewInt(int64(e)), n)
	return LeftPad(c.Bytes(), 256)
}

func RSAPrivate(ct []byte, n, d *big.Int) *big.Int {
	return new(big.Int).Exp(new(big.Int).SetBytes(ct), d, n)
}
