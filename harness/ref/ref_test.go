package ref

import (
	"bytes"
	"encoding/hex"
	"math/big"
	"testing"
)

func hx(s string) []byte { b, _ := hex.DecodeString(s); return b }

// Oracle self-check: a client-side computation written from the SRP page with this package's PBKDF2/x/k/u
// conventions reproduces the M1 recorded in the repository's 2fa_test.go (password "123123", a = 1), and the
// reference server accepts an answer computed that way for a B it issued itself.
func TestSRPRecordedVector(t *testing.T) {
	B := hx("9C52401A6A8084EC82F01C3725D3FB448BD2F0C909F9D97726EAC4B7A74172D952F02466BE6734FA274D2B7429E27397F10372D66B400B80A5C5AE3F28B17BF3105D7A2D2A885998CDC2DEFC208AEC217AB58859A9ABC2374AD93DC285F4B3FBCAFF4143D7888F2425BD2FB711B25609CEB21757D935B1EF2F042173AD0CE2FE0E474DAC53914BD25A8A9AED4AEA8953D55CB88621DB37B871EA0D04393AC0987F68094CCC9DE8239251375D8FFFD263316CD528C097B7BC9FB919FBEDB76C525DF3413C374EE076D97A1E6D352BB7CC80FD13651B04B32E2E48C5268150842CFD07CF855958B1B5EA9C36FDAD697FE3AEC8DCC6B1EFEC36874AF226204676CF")
	s1 := hx("4D11FB6BEC38F9D2546BB0F61E4F1C99A1BC0DB8F0D5F35B1291B37B213123D7ED48F3C6794D495B")
	s2 := hx("A1B181AAFE88188680AE32860D60BB01")
	m1 := clientM1([]byte("123123"), s1, s2, 3, big.NewInt(1), new(big.Int).SetBytes(B))
	if !bytes.Equal(m1, hx("999DF906BDA2C6CBB52F503406EBA2D0D0503ACE0CC302C38F13EE5010AD4051")) {
		t.Fatalf("reference SRP conventions do not reproduce the recorded vector: %x", m1)
	}
	// server side accepts the reference client
	v := new(big.Int).Exp(big.NewInt(3), SRPX([]byte("123123"), s1, s2), DHPrime)
	srv := NewSRPServer(s1, s2, 3, DHPrime, v, big.NewInt(0xabcdef))
	a := big.NewInt(77)
	A := new(big.Int).Exp(big.NewInt(3), a, DHPrime)
	if err := srv.Check(A.Bytes(), clientM1([]byte("123123"), s1, s2, 3, a, srv.B)); err != nil {
		t.Fatal(err)
	}
	if err := srv.Check(A.Bytes(), clientM1([]byte("123124"), s1, s2, 3, a, srv.B)); err == nil {
		t.Fatal("reference server accepts a wrong password")
	}
}

func clientM1(pw, s1, s2 []byte, g int64, a, B *big.Int) []byte {
	p := DHPrime
	pad := func(x *big.Int) []byte { return LeftPad(x.Bytes(), 256) }
	A := new(big.Int).Exp(big.NewInt(g), a, p)
	x := SRPX(pw, s1, s2)
	v := new(big.Int).Exp(big.NewInt(g), x, p)
	k := new(big.Int).SetBytes(SHA256(pad(p), pad(big.NewInt(g))))
	u := new(big.Int).SetBytes(SHA256(pad(A), pad(B)))
	t := new(big.Int).Mul(k, v)
	t.Sub(B, t).Mod(t, p)
	e := new(big.Int).Mul(u, x)
	e.Add(e, a)
	S := new(big.Int).Exp(t, e, p)
	K := SHA256(pad(S))
	return SHA256(XorBytes(SHA256(pad(p)), SHA256(pad(big.NewInt(g)))), SHA256(s1), SHA256(s2), pad(A), pad(B), K)
}

// IGE self-check against the published test vectors of the IGE mode (OpenSSL's igetest, AES-128 key here only
// exercises chaining; the repository's own vectors are AES-256 and are compared in check C05).
func TestIGEInverse(t *testing.T) {
	key := bytes.Repeat([]byte{7}, 32)
	iv := bytes.Repeat([]byte{9}, 32)
	pt := make([]byte, 16*5)
	for i := range pt {
		pt[i] = byte(i * 3)
	}
	ct, err := IGEEncrypt(key, iv, pt)
	if err != nil {
		t.Fatal(err)
	}
	back, _ := IGEDecrypt(key, iv, ct)
	if !bytes.Equal(back, pt) {
		t.Fatal("reference IGE is not its own inverse")
	}
	// OpenSSL igetest vector 1 (AES-128): key 000102..0f, iv 000102..1f, zero plaintext of 32 bytes
	k128 := hx("000102030405060708090a0b0c0d0e0f")
	iv1 := hx("000102030405060708090a0b0c0d0e0f101112131415161718191a1b1c1d1e1f")
	c1, err := IGEEncrypt(k128, iv1, make([]byte, 32))
	if err != nil {
		t.Fatal(err)
	}
	if !bytes.Equal(c1, hx("1a8519a6557be652e9da8e43da4ef4453cf456b4ca488aa383c79c98b34797cb")) {
		t.Fatalf("reference IGE disagrees with the OpenSSL test vector: %x", c1)
	}
}
