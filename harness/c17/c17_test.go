package c17

import (
	"encoding/json"
	"fmt"
	"os"
	"path/filepath"
	"regexp"
	"strconv"
	"strings"
	"testing"
	"time"

	"github.com/xelaj/mtproto"
	"github.com/xelaj/mtproto/internal/mtproto/objects"
	"github.com/xelaj/mtproto/telegram/verifh/hx"
	"github.com/xelaj/mtproto/telegram/verifh/scen"
	"pgregory.net/rapid"
	"verif/evid"
)

var run = evid.New("C17")

func TestMain(m *testing.M) { hx.Main(m, run) }

// the 15-row prefix/suffix table, restated (order matters: first match wins)
var rows = [][2]string{{"EMAIL_UNCONFIRMED_", ""}, {"FILE_MIGRATE_", ""}, {"FILE_PART_", "_MISSING"}, {"FLOOD_TEST_PHONE_WAIT_", ""}, {"FLOOD_WAIT_", ""},
	{"INTERDC_", "_CALL_ERROR"}, {"INTERDC_", "_CALL_RICH_ERROR"}, {"NETWORK_MIGRATE_", ""}, {"PASSWORD_TOO_FRESH_", ""}, {"PHONE_MIGRATE_", ""},
	{"SESSION_TOO_FRESH_", ""}, {"SLOWMODE_WAIT_", ""}, {"STATS_MIGRATE_", ""}, {"TAKEOUT_INIT_DELAY_", ""}, {"USER_MIGRATE_", ""}}

// catalogue: documented description per error name, read from the text of errors.go (only to know which names
// are "known" and what they document).
var catalogue = map[string]string{}

func loadCatalogue() error {
	repo := os.Getenv("VERIF_REPO")
	if repo == "" {
		repo = "/repo"
	}
	b, err := os.ReadFile(filepath.Join(repo, "errors.go"))
	if err != nil {
		return err
	}
	re := regexp.MustCompile(`(?m)^\s*("(?:[^"\\]|\\.)*"):\s*("(?:[^"\\]|\\.)*"),\s*(?://.*)?$`)
	for _, m := range re.FindAllStringSubmatch(string(b), -1) {
		k, err1 := strconv.Unquote(m[1])
		v, err2 := strconv.Unquote(m[2])
		if err1 == nil && err2 == nil {
			catalogue[k] = v
		}
	}
	if len(catalogue) < 300 {
		return fmt.Errorf("only %d catalogue entries parsed from errors.go", len(catalogue))
	}
	return nil
}

type Case struct {
	Code int32
	Text string
}

func matchRow(text string) (int, string) {
	for i, r := range rows {
		if strings.HasPrefix(text, r[0]) && strings.HasSuffix(text, r[1]) {
			mid := strings.TrimSuffix(strings.TrimPrefix(text, r[0]), r[1])
			return i, mid
		}
	}
	return -1, ""
}

var decimal = regexp.MustCompile(`^-?[0-9]+$`)

func oracle(c Case) error {
	return hx.Safely(func() error {
		err := mtproto.RpcErrorToNative(&objects.RpcError{ErrorCode: c.Code, ErrorMessage: c.Text})
		e, ok := err.(*mtproto.ErrResponseCode)
		if !ok || e == nil {
			return fmt.Errorf("RpcErrorToNative(%d,%q) returned %T, want *ErrResponseCode", c.Code, c.Text, err)
		}
		_ = e.Error()
		if e.Code != int(c.Code) {
			return fmt.Errorf("(%d,%q): Code = %d", c.Code, c.Text, e.Code)
		}
		ri, mid := matchRow(c.Text)
		if ri < 0 {
			// ordinary text: known name -> documented description, unknown -> verbatim
			want := c.Text
			if d, ok := catalogue[c.Text]; ok {
				want = d
			}
			if e.Message != c.Text || e.Description != want || e.AdditionalInfo != nil {
				return fmt.Errorf("(%d,%q): got Message=%q Description=%q Info=%v, want Message=text Description=%q Info=nil", c.Code, c.Text, e.Message, e.Description, e.AdditionalInfo, want)
			}
			return nil
		}
		xform := rows[ri][0] + "X" + rows[ri][1]
		n, perr := strconv.Atoi(mid)
		if decimal.MatchString(mid) && perr == nil {
			doc, ok := catalogue[xform]
			if !ok {
				return fmt.Errorf("catalogue has no entry for %s", xform)
			}
			wantDesc := strings.Replace(doc, "%v", strconv.Itoa(n), 1)
			if e.Message != xform || e.AdditionalInfo != any(n) || e.Description != wantDesc {
				return fmt.Errorf("(%d,%q): got Message=%q Info=%#v Description=%q, want Message=%q Info=%d Description=%q", c.Code, c.Text, e.Message, e.AdditionalInfo, e.Description, xform, n, wantDesc)
			}
			return nil
		}
		// parameter absent / non-numeric / out of range: no panic (already ensured), Code kept, message either way
		if e.Message != c.Text && e.Message != xform {
			return fmt.Errorf("(%d,%q): Message=%q is neither the text nor %q", c.Code, c.Text, e.Message, xform)
		}
		if e.Message == c.Text {
			want := c.Text
			if d, ok := catalogue[c.Text]; ok {
				want = d
			}
			if e.Description != want || e.AdditionalInfo != nil {
				return fmt.Errorf("(%d,%q): treated as ordinary text but Description=%q Info=%v", c.Code, c.Text, e.Description, e.AdditionalInfo)
			}
		}
		if strings.Contains(e.Description, "%!") {
			return fmt.Errorf("(%d,%q): Description contains a formatting artefact: %q", c.Code, c.Text, e.Description)
		}
		return nil
	})
}

func classify(c Case) (bool, []string) {
	ri, mid := matchRow(c.Text)
	switch {
	case ri < 0 && catalogue[c.Text] != "":
		return true, []string{"known-name"}
	case ri < 0:
		cl := []string{"unknown-text"}
		if strings.Contains(c.Text, "%") {
			cl = append(cl, "unknown-text-with-percent")
		}
		return c.Text != "", cl
	}
	_, perr := strconv.Atoi(mid)
	switch {
	case mid == "":
		return true, []string{"row:param-absent", fmt.Sprintf("row%02d", ri)}
	case decimal.MatchString(mid) && perr == nil:
		cl := []string{"row:param-int", fmt.Sprintf("row%02d", ri)}
		if strings.HasPrefix(mid, "-") {
			cl = append(cl, "row:param-negative")
		}
		return true, cl
	case decimal.MatchString(mid):
		return true, []string{"row:param-out-of-range", fmt.Sprintf("row%02d", ri)}
	default:
		return true, []string{"row:param-non-numeric", fmt.Sprintf("row%02d", ri)}
	}
}

var catalogueNames []string

func gen(t *rapid.T) Case {
	c := Case{Code: rapid.OneOf(rapid.SampledFrom([]int32{303, 400, 401, 403, 406, 420, 500, 0, -1, -503, 1<<31 - 1, -1 << 31}), rapid.Int32()).Draw(t, "code")}
	switch rapid.IntRange(0, 9).Draw(t, "kind") {
	case 0, 1, 2, 3: // table row x parameter
		row := rapid.SampledFrom(rows).Draw(t, "row")
		param := rapid.OneOf(
			rapid.Map(rapid.Int64(), func(v int64) string { return strconv.FormatInt(v, 10) }),
			rapid.Map(rapid.Int64Range(-100000, 100000), func(v int64) string { return strconv.FormatInt(v, 10) }),
			rapid.SampledFrom([]string{"", "0", "-0", "007", "abc", "1e3", "٣", " 5", "5 ", "+5", "0x10", "1_000", "9223372036854775807", "9223372036854775808",
				"-9223372036854775808", "-9223372036854775809", "2147483648", "99999999999999999999999999", "%d", "%s", "5%", "X", "2_CALL", "-", "--1", "1.5", "１"}),
			rapid.StringMatching(`[0-9a-zA-Z_%+\- ]{0,6}`),
		).Draw(t, "param")
		c.Text = row[0] + param + row[1]
	case 4, 5: // catalogued names
		c.Text = rapid.SampledFrom(catalogueNames).Draw(t, "name")
	case 6: // near misses of table rows
		c.Text = rapid.SampledFrom([]string{"INTERDC_2_CALL_RICH_ERROR", "FILE_PART__MISSING", "FILE_PART_MISSING", "FLOOD_WAIT_", "FLOOD_WAIT", "INTERDC__CALL_ERROR", "INTERDC_CALL_ERROR",
			"FILE_PART_3_MISSING_", "XFLOOD_WAIT_3", "flood_wait_3", "PHONE_MIGRATE_", "PHONE_MIGRATE_2", "USER_MIGRATE_-1", "FLOOD_TEST_PHONE_WAIT_9", "INTERDC_5_CALL_ERROR_CALL_ERROR",
			"INTERDC_1_CALL_RICH_ERROR_CALL_ERROR", "FILE_PART_1_MISSING_MISSING"}).Draw(t, "near")
	case 7: // catalogued name with a mutation
		n := rapid.SampledFrom(catalogueNames).Draw(t, "name")
		c.Text = n + rapid.SampledFrom([]string{"_", "_1", " ", "%d", "X"}).Draw(t, "suffix")
	default: // arbitrary strings incl. formatting verbs
		c.Text = rapid.OneOf(rapid.String(), rapid.StringMatching(`[A-Z_%dsv!0-9]{0,24}`), rapid.SampledFrom([]string{"", "%d %s %v %!", "%", "%%", "%!d(int=5)", "\x00"})).Draw(t, "text")
	}
	return c
}

func TestC17(t *testing.T) {
	if err := loadCatalogue(); err != nil {
		t.Fatalf("INFRA: %v", err)
	}
	for k := range catalogue {
		catalogueNames = append(catalogueNames, k)
	}
	sortStrings(catalogueNames)
	if p := hx.ReplayPath(); p != "" {
		var c Case
		if err := evid.LoadReplay(p, &c); err != nil {
			t.Fatal(err)
		}
		run.Case(true, 1)
		run.Case(true, 2)
		run.Sample(c)
		if err := oracle(c); err != nil {
			run.Violation(c, err.Error())
			t.Fatalf("replay fails: %v", err)
		}
		return
	}
	t.Run("enumerated", func(t *testing.T) {
		if run.Shard != 0 {
			return
		}
		n := int64(0)
		do := func(c Case) {
			nt, cl := classify(c)
			run.Case(nt, evid.Hash(c.Code, c.Text), cl...)
			n++
			if err := oracle(c); err != nil {
				p := run.ViolationNamed(fmt.Sprintf("enum%d", n), c, err.Error())
				t.Fatalf("violation (replay %s): %v", p, err)
			}
		}
		for _, name := range catalogueNames { // every catalogued name
			do(Case{Code: 400, Text: name})
		}
		for _, r := range rows { // every row x a fixed parameter list
			for _, p := range []string{"", "0", "1", "5", "86400", "-3", "abc", "1e3", "٣", " 5", "5 ", "+5", "0x10", "99999999999999999999", "%d", "2147483648", "-9223372036854775808", "9223372036854775808"} {
				do(Case{Code: 420, Text: r[0] + p + r[1]})
			}
		}
		run.Exhaustive("all catalogued names; 15 rows x 18 parameters", n)
	})
	t.Run("generated", func(t *testing.T) {
		rapid.Check(t, func(t *rapid.T) {
			c := gen(t)
			nt, cl := classify(c)
			run.Case(nt, evid.Hash(c.Code, c.Text), cl...)
			run.Sample(c)
			if err := oracle(c); err != nil {
				hx.Fail(t, run, c, err)
			}
			pool.Add(c)
		})
	})
	if t.Failed() {
		return
	}
	t.Run("concurrent", func(t *testing.T) {
		// error replies of several callers (and of several clients of a process) are converted at the same time
		hx.RunConcurrent(t, run, pool.Items, 8, run.Pick(20, 400), oracle)
	})
}

var pool hx.Pool[Case]

func sortStrings(s []string) {
	for i := 1; i < len(s); i++ {
		for j := i; j > 0 && s[j] < s[j-1]; j-- {
			s[j], s[j-1] = s[j-1], s[j]
		}
	}
}

// ---------- client level: delivery to the right caller, PHONE_MIGRATE ----------

type rapidSource struct{ t *rapid.T }

func (r rapidSource) Bytes(label string, n int) []byte { return hx.FixedBytes(r.t, label, n) }
func (r rapidSource) Int(label string, n int) int      { return rapid.IntRange(0, n-1).Draw(r.t, label) }

type clientCase struct {
	Scenario   *scen.Scenario
	Errors     map[int]Case // tag -> the rpc_error its request is answered with
	Migrate    int          // tag that is answered with PHONE_MIGRATE_<DC> (0 = none)
	DC         int
	Configured bool
}

func judgeClient(c clientCase, res *scen.Result, runErr error) (string, error) {
	if runErr != nil {
		return "inconclusive", fmt.Errorf("INFRA: %v", runErr)
	}
	if res.Died {
		return "violation", fmt.Errorf("client process died: %s", scen.PanicSite(res.Stderr))
	}
	if !res.Connected {
		return "inconclusive", fmt.Errorf("INFRA: not connected: %s", res.ConnectErr)
	}
	if res.Stall != nil {
		if res.Stall.Verdict == "STALL" || res.Stall.Verdict == "IDLE" {
			return "violation", fmt.Errorf("calls never return (receive loop %s at %s); warnings %v", res.Stall.Verdict, res.Stall.LoopAt, res.Warnings)
		}
		return "inconclusive", fmt.Errorf("INFRA: unfinished: %s", res.Stall.LoopAt)
	}
	got := map[int]scen.CallResult{}
	for _, cr := range res.Calls {
		got[cr.Tag] = cr
	}
	for _, st := range c.Scenario.RPC.Steps {
		if st.Op != "call" {
			continue
		}
		for _, cs := range st.Calls {
			for _, r := range cs.Reqs {
				cr, ok := got[r.Tag]
				if !ok {
					return "violation", fmt.Errorf("the call with tag %d never returned", r.Tag)
				}
				if cr.Panic != "" {
					return "violation", fmt.Errorf("the call with tag %d panicked: %s", r.Tag, cr.Panic)
				}
				if r.Tag == c.Migrate {
					if c.Configured {
						if !cr.OK || cr.Value != scen.Expected(r) {
							return "violation", fmt.Errorf("tag %d: after PHONE_MIGRATE_%d the request must be repeated at the configured data centre and its answer returned; got ok=%v value=%q err=%q", r.Tag, c.DC, cr.OK, cr.Value, cr.Err)
						}
						repeated := false
						for _, ev := range res.Events {
							if ev.Kind == "req" && ev.Server == fmt.Sprintf("dc-%d", c.DC) && strings.HasPrefix(ev.Note, fmt.Sprintf("tag=%d ", r.Tag)) {
								repeated = true
							}
						}
						if !repeated {
							return "violation", fmt.Errorf("tag %d: the request was not repeated at data centre %d", r.Tag, c.DC)
						}
					} else if cr.OK || cr.Err == "" {
						return "violation", fmt.Errorf("tag %d: PHONE_MIGRATE_%d names a data centre that is not configured, the call must return an error; got %+v", r.Tag, c.DC, cr)
					} else {
						for _, ev := range res.Events {
							if ev.Server == fmt.Sprintf("dc-%d", c.DC) && (ev.Kind == "req" || ev.Kind == "enc" || ev.Kind == "plain") {
								return "violation", fmt.Errorf("tag %d: data centre %d is not configured for this client, yet the client talked to the address another client of the process holds for it", r.Tag, c.DC)
							}
						}
					}
					continue
				}
				if e, isErr := c.Errors[r.Tag]; isErr {
					// the structured error of exactly this request, judged by the same model as the function-level check
					ri, mid := matchRow(e.Text)
					wantMsg, wantInfo := e.Text, ""
					if n, perr := strconv.Atoi(mid); ri >= 0 && decimal.MatchString(mid) && perr == nil {
						wantMsg, wantInfo = rows[ri][0]+"X"+rows[ri][1], fmt.Sprintf("int:%d", n)
					}
					if cr.OK || cr.Code != int(e.Code) {
						return "violation", fmt.Errorf("tag %d: rpc_error(%d,%q) addressed to it arrived as ok=%v code=%d err=%q", r.Tag, e.Code, e.Text, cr.OK, cr.Code, cr.Err)
					}
					if ri >= 0 && wantInfo == "" {
						if cr.Value != e.Text && cr.Value != rows[ri][0]+"X"+rows[ri][1] {
							return "violation", fmt.Errorf("tag %d: message %q for text %q", r.Tag, cr.Value, e.Text)
						}
					} else if cr.Value != wantMsg || cr.Info != wantInfo {
						return "violation", fmt.Errorf("tag %d: rpc_error(%d,%q) delivered as message=%q parameter=%q, want message=%q parameter=%q", r.Tag, e.Code, e.Text, cr.Value, cr.Info, wantMsg, wantInfo)
					}
					continue
				}
				if !cr.OK || cr.Value != scen.Expected(r) {
					return "violation", fmt.Errorf("tag %d: got %q err=%q, want %s (an error addressed to another call must not reach it)", r.Tag, cr.Value, cr.Err, scen.Expected(r))
				}
			}
		}
	}
	for _, n := range res.Notes {
		if strings.Contains(n, "requests arrived") || strings.Contains(n, "not pending") || strings.Contains(n, "no connection") || strings.Contains(n, "warm-up") {
			return "inconclusive", fmt.Errorf("INFRA: %s", n)
		}
	}
	return "ok", nil
}

func TestC17Client(t *testing.T) {
	if hx.ReplayPath() != "" {
		return
	}
	if err := loadCatalogue(); err != nil {
		t.Fatalf("INFRA: %v", err)
	}
	rapid.Check(t, func(t *rapid.T) {
		s := rapidSource{t}
		sc := scen.NewResumed(s)
		n := rapid.IntRange(2, 5).Draw(t, "ncallers")
		callers := scen.Callers(s, n, 1, 1+rapid.IntRange(0, 500).Draw(t, "base"))
		c := clientCase{Scenario: sc, Errors: map[int]Case{}}
		var tags []int
		for _, cs := range callers {
			tags = append(tags, cs.Reqs[0].Tag)
		}
		steps := []scen.Step{{Op: "call", Calls: callers}, {Op: "await-requests", N: n}}
		family := rapid.SampledFrom([]string{"errors", "errors", "migrate", "migrate-unconfigured"}).Draw(t, "family")
		storageDown, otherMigrate, packedErr := false, false, false
		chained := 0
		order := scen.Permute(s, tags)
		switch family {
		case "errors":
			for _, tg := range order {
				it := scen.AnsItem{Tag: tg}
				if rapid.Bool().Draw(t, "iserr") {
					row := rapid.SampledFrom(rows).Draw(t, "row")
					text := rapid.SampledFrom([]string{row[0] + fmt.Sprint(rapid.IntRange(0, 100000).Draw(t, "param")) + row[1], "SOME_UNKNOWN_ERROR", "AUTH_KEY_UNREGISTERED", "100%_%d_%s", row[0] + "abc" + row[1], "FLOOD_WAIT_",
						// the migration text with a parameter that is no data-centre number: an ordinary error for its caller
						"PHONE_MIGRATE_X", "PHONE_MIGRATE_", "PHONE_MIGRATE_abc", "PHONE_MIGRATE_99999999999999999999", "PHONE_MIGRATE_2x",
						// the other errors of the 303 family name a data centre the client knows: they are their caller's business
						"USER_MIGRATE_7", "NETWORK_MIGRATE_7", "FILE_MIGRATE_7", "STATS_MIGRATE_7"}).Draw(t, "text")
					if strings.HasSuffix(text, "_MIGRATE_7") {
						sc.RPC.DCs = []int{7}
						otherMigrate = true
					}
					if strings.HasPrefix(text, "PHONE_MIGRATE_") && decimal.MatchString(strings.TrimPrefix(text, "PHONE_MIGRATE_")) && len(text) < 24 {
						text = "USER_MIGRATE_" + strings.TrimPrefix(text, "PHONE_MIGRATE_")
					}
					code := int32(rapid.SampledFrom([]int{303, 400, 401, 420, 500, -503}).Draw(t, "code"))
					it.ErrCode, it.ErrText = code, text
					c.Errors[tg] = Case{Code: code, Text: text}
					if rapid.IntRange(0, 2).Draw(t, "packed-error") == 0 {
						// a server may compress any object, an rpc_error too
						it.Gzip, it.GzipStyle = true, rapid.IntRange(0, 4).Draw(t, "gzip-style")
						packedErr = true
					}
				}
				steps = append(steps, scen.Step{Op: "answer", Container: rapid.Bool().Draw(t, "container"), Items: []scen.AnsItem{it}})
			}
		default:
			c.DC, c.Migrate = 7, order[0]
			c.Configured = family == "migrate"
			if c.Configured {
				sc.RPC.DCs = []int{7}
			} else {
				c.DC = 9
				if rapid.Bool().Draw(t, "otherclient") {
					// another client of the same process knows data centre 9; this one does not
					sc.RPC.OtherClientDCs = []int{9}
				}
			}
			// the migrating request is told to go to another data centre while the other calls are still in flight
			// the text decides, whatever code comes with it
			mcode := rapid.SampledFrom([]int32{303, 303, 400, 500, 0, -503}).Draw(t, "migrate-code")
			if c.Configured && rapid.IntRange(0, 2).Draw(t, "storage-down") == 0 {
				// the session storage cannot be written while the migration happens (read-only file, full disk): whatever
				// the client wants to remember, the request is still repeated at the new data centre
				steps = append(steps, scen.Step{Op: "store-fault", N: 1000})
				storageDown = true
			}
			mig := scen.AnsItem{Tag: c.Migrate, ErrCode: mcode, ErrText: fmt.Sprintf("PHONE_MIGRATE_%d", c.DC)}
			if rapid.IntRange(0, 2).Draw(t, "packed-migrate") == 0 {
				mig.Gzip, packedErr = true, true
			}
			steps = append(steps, scen.Step{Op: "answer", Items: []scen.AnsItem{mig}})
			if c.Configured {
				steps = append(steps, scen.Step{Op: "await-requests", N: n}) // repeated at dc-7: again n unanswered
				last := "dc-7"
				if !storageDown && rapid.Bool().Draw(t, "chain") {
					// the data centre the request was sent on to sends it on again (the account has moved once more, or back):
					// every such answer is the same instruction, whichever server gives it
					hops := rapid.IntRange(1, 3).Draw(t, "hops")
					dcs := []int{7, 8, 6, 7}
					sc.RPC.DCs = []int{7, 8, 6}
					for h := 1; h <= hops; h++ {
						steps = append(steps, scen.Step{Op: "answer", Server: last, Items: []scen.AnsItem{{Tag: c.Migrate, ErrCode: 303, ErrText: fmt.Sprintf("PHONE_MIGRATE_%d", dcs[h])}}},
							scen.Step{Op: "await-requests", N: n})
						last = fmt.Sprintf("dc-%d", dcs[h])
						c.DC = dcs[h]
					}
					chained = hops
				}
				for _, tg := range order {
					steps = append(steps, scen.Step{Op: "answer", Server: last, Items: []scen.AnsItem{{Tag: tg}}})
				}
			} else {
				for _, tg := range order[1:] {
					steps = append(steps, scen.Step{Op: "answer", Items: []scen.AnsItem{{Tag: tg}}})
				}
			}
		}
		steps = append(steps, scen.Step{Op: "await-calls"}, scen.Step{Op: "probe", Retry: family == "migrate"})
		sc.RPC.Steps = steps
		res, runErr := scen.RunChild(sc, 120*time.Second)
		verdict, err := judgeClient(c, res, runErr)
		b, _ := json.Marshal(sc.RPC.Steps)
		cls := []string{"client:" + family, "client-verdict:" + verdict}
		if len(sc.RPC.OtherClientDCs) > 0 {
			cls = append(cls, "client:data-centre-known-to-another-client-only")
		}
		if chained > 0 {
			cls = append(cls, "client:request-sent-on-by-the-data-centre-it-was-sent-to", fmt.Sprintf("client:migration-hops=%d", chained+1))
		}
		if storageDown {
			cls = append(cls, "client:migrate-while-session-storage-fails")
		}
		if otherMigrate {
			cls = append(cls, "client:other-migrate-error-naming-a-configured-data-centre")
		}
		if packedErr {
			cls = append(cls, "client:rpc_error-inside-gzip_packed")
		}
		run.Case(verdict != "inconclusive", evid.Hash(b, len(sc.RPC.OtherClientDCs)), cls...)
		if err != nil {
			if strings.HasPrefix(err.Error(), "INFRA:") {
				run.Class("client-inconclusive:"+strings.SplitN(err.Error()+"                                                  ", "\n", 2)[0][:50], 1)
				t.Skipf("%v", err)
			}
			p := run.Violation(map[string]any{"ClientLevel": c}, err.Error())
			t.Fatalf("violation (replay %s): %v", p, err)
		}
	})
}
