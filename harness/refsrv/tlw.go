// Package refsrv is the reference MTProto 1.0 server used as oracle by the scenario checks. It is written from the
// protocol descriptions (core.telegram.org/mtproto, /mtproto/auth_key, /mtproto/description, /mtproto/service_messages,
// /mtproto-transports) and imports nothing of the code under test.
package refsrv

import (
	"bytes"
	"compress/gzip"
	"encoding/binary"
	"errors"
)

// W is a minimal TL writer.
type W struct{ B []byte }

func (w *W) U32(v uint32) *W { w.B = binary.LittleEndian.AppendUint32(w.B, v); return w }
func (w *W) I32(v int32) *W  { return w.U32(uint32(v)) }
func (w *W) I64(v int64) *W  { w.B = binary.LittleEndian.AppendUint64(w.B, uint64(v)); return w }
func (w *W) Raw(b []byte) *W { w.B = append(w.B, b...); return w }
func (w *W) Str(s []byte) *W {
	n := len(s)
	used := 1
	if n < 254 {
		w.B = append(w.B, byte(n))
	} else {
		w.B = append(w.B, 254, byte(n), byte(n>>8), byte(n>>16))
		used = 4
	}
	w.B = append(w.B, s...)
	for (used+n)%4 != 0 {
		w.B = append(w.B, 0)
		used++
	}
	return w
}
func (w *W) VecI64(v []int64) *W {
	w.U32(0x1cb5c415).U32(uint32(len(v)))
	for _, x := range v {
		w.I64(x)
	}
	return w
}

// R is a minimal TL reader with a sticky error.
type R struct {
	B   []byte
	Off int
	Err error
}

func (r *R) Take(n int) []byte {
	if r.Err != nil || n < 0 || r.Off+n > len(r.B) {
		if r.Err == nil {
			r.Err = errors.New("short input")
		}
		return make([]byte, max(0, min(n, 64)))
	}
	v := r.B[r.Off : r.Off+n]
	r.Off += n
	return v
}
func (r *R) U32() uint32 {
	b := r.Take(4)
	if len(b) < 4 {
		return 0
	}
	return binary.LittleEndian.Uint32(b)
}
func (r *R) I32() int32 { return int32(r.U32()) }
func (r *R) I64() int64 {
	b := r.Take(8)
	if len(b) < 8 {
		return 0
	}
	return int64(binary.LittleEndian.Uint64(b))
}
func (r *R) Str() []byte {
	h := r.Take(1)
	if r.Err != nil {
		return nil
	}
	n, used := int(h[0]), 1
	if h[0] == 254 {
		l := r.Take(3)
		if r.Err != nil {
			return nil
		}
		n, used = int(l[0])|int(l[1])<<8|int(l[2])<<16, 4
	}
	v := r.Take(n)
	for r.Err == nil && (used+n)%4 != 0 {
		r.Take(1)
		used++
	}
	return v
}
func (r *R) VecI64() []int64 {
	if r.U32() != 0x1cb5c415 {
		if r.Err == nil {
			r.Err = errors.New("not a vector")
		}
		return nil
	}
	n := int(r.U32())
	if n > (len(r.B)-r.Off)/8 {
		r.Err = errors.New("vector too long")
		return nil
	}
	out := make([]int64, n)
	for i := range out {
		out[i] = r.I64()
	}
	return out
}

// Constructor ids of the MTProto service schema (mtproto.tl).
const (
	IDReqPQ           = 0x60469778
	IDResPQ           = 0x05162463
	IDPQInnerData     = 0x83c95aec
	IDReqDHParams     = 0xd712e4be
	IDServerDHOk      = 0xd0e8075c
	IDServerDHFail    = 0x79cb045d
	IDServerDHInner   = 0xb5890dba
	IDClientDHInner   = 0x6643b654
	IDSetClientDH     = 0xf5045f1f
	IDDHGenOk         = 0x3bcbf734
	IDDHGenRetry      = 0x46dc1fb9
	IDDHGenFail       = 0xa69dae02
	IDRpcResult       = 0xf35c6d01
	IDRpcError        = 0x2144ca19
	IDMsgContainer    = 0x73f1f8dc
	IDGzipPacked      = 0x3072cfa1
	IDMsgsAck         = 0x62d6b459
	IDBadMsgNotify    = 0xa7eff811
	IDBadServerSalt   = 0xedab447b
	IDNewSession      = 0x9ec20908
	IDPing            = 0x7abe77ec
	IDPong            = 0x347773c5
	IDMsgsStateReq    = 0xda69fb52
	IDMsgsStateInfo   = 0x04deb57d
	IDMsgsAllInfo     = 0x8cc0d131
	IDMsgDetailedInfo = 0x276d3ec6
	IDMsgNewDetailed  = 0x809db6df
	IDMsgResendReq    = 0x7d861a08
	IDFutureSalts     = 0xae500895
	IDVector          = 0x1cb5c415
	IDBoolTrue        = 0x997275b5
	IDBoolFalse       = 0xbc799737
)

// GzipPacked wraps an object body into gzip_packed.
func GzipPacked(body []byte) []byte {
	var zb bytes.Buffer
	zw := gzip.NewWriter(&zb)
	zw.Write(body)
	zw.Close()
	return (&W{}).U32(IDGzipPacked).Str(zb.Bytes()).B
}

// GzipPackedStyle is GzipPacked with the ways a conformant server may produce the stream: style 1 compresses as a
// stream and flushes in between (deflate sync-flush points at 1/3 and 2/3 of the data), 2 stores without compression,
// 3 uses Huffman-only coding, 4 best compression; anything else is GzipPacked.
func GzipPackedStyle(body []byte, style int) []byte {
	level := gzip.DefaultCompression
	switch style {
	case 2:
		level = gzip.NoCompression
	case 3:
		level = gzip.HuffmanOnly
	case 4:
		level = gzip.BestCompression
	}
	var zb bytes.Buffer
	zw, _ := gzip.NewWriterLevel(&zb, level)
	if style == 1 {
		a, b := len(body)/3, 2*len(body)/3
		zw.Write(body[:a])
		zw.Flush()
		zw.Write(body[a:b])
		zw.Flush()
		zw.Write(body[b:])
	} else {
		zw.Write(body)
	}
	zw.Close()
	return (&W{}).U32(IDGzipPacked).Str(zb.Bytes()).B
}

// GzipDamaged builds a gzip_packed whose TL envelope is well formed but whose stream is damaged: how = 0 the stream
// ends before the trailer, 1 wrong CRC-32 in the trailer, 2 wrong size in the trailer, 3 a byte of the deflate data
// changed, 4 the stream ends in the middle of the deflate data, 5 trailing bytes after a complete stream.
func GzipDamaged(body []byte, how int, at int) []byte {
	var zb bytes.Buffer
	zw := gzip.NewWriter(&zb)
	zw.Write(body)
	zw.Close()
	z := zb.Bytes()
	switch how % 6 {
	case 0:
		z = z[:len(z)-8]
	case 1:
		z[len(z)-8] ^= 0x55
	case 2:
		z[len(z)-4] ^= 0x55
	case 3:
		if len(z) > 19 {
			z[10+at%(len(z)-18)] ^= 1 << (at % 7)
		}
	case 4:
		if len(z) > 20 {
			z = z[:10+(len(z)-18)/2]
		}
	case 5:
		z = append(z, 0xde, 0xad, 0xbe, 0xef, 1, 2, 3)
	}
	return (&W{}).U32(IDGzipPacked).Str(z).B
}

// RpcResult builds rpc_result{req_msg_id, result}.
func RpcResult(reqMsgID int64, result []byte) []byte {
	return (&W{}).U32(IDRpcResult).I64(reqMsgID).Raw(result).B
}

func RpcError(code int32, text string) []byte {
	return (&W{}).U32(IDRpcError).I32(code).Str([]byte(text)).B
}

func BoolTrue() []byte  { return (&W{}).U32(IDBoolTrue).B }
func BoolFalse() []byte { return (&W{}).U32(IDBoolFalse).B }
