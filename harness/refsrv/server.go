package refsrv

import (
	"bytes"
	"crypto/sha1"
	"encoding/binary"
	"encoding/hex"
	"errors"
	"fmt"
	"io"
	"math/big"
	"net"
	"sync"
	"sync/atomic"
	"time"

	"github.com/xelaj/mtproto/telegram/verifh/ref"
)

// ---------- RSA keys (deterministic generation from a seed stream) ----------

type RSAKey struct {
	N, D *big.Int
	E    int
}

type RSAKeyJSON struct {
	N, D string
	E    int
}

func (k *RSAKey) JSON() RSAKeyJSON { return RSAKeyJSON{N: k.N.Text(16), D: k.D.Text(16), E: k.E} }
func (j RSAKeyJSON) Key() *RSAKey {
	n, _ := new(big.Int).SetString(j.N, 16)
	d, _ := new(big.Int).SetString(j.D, 16)
	return &RSAKey{N: n, D: d, E: j.E}
}

type stream struct {
	seed [20]byte
	ctr  uint64
	buf  []byte
}

func (s *stream) Read(p []byte) {
	for i := range p {
		if len(s.buf) == 0 {
			var c [8]byte
			binary.LittleEndian.PutUint64(c[:], s.ctr)
			s.ctr++
			h := sha1.Sum(append(s.seed[:], c[:]...))
			s.buf = h[:]
		}
		p[i] = s.buf[0]
		s.buf = s.buf[1:]
	}
}

func seededPrime(s *stream, bits int) *big.Int {
	b := make([]byte, bits/8)
	s.Read(b)
	b[0] |= 0xc0
	b[len(b)-1] |= 1
	p := new(big.Int).SetBytes(b)
	two := big.NewInt(2)
	for !p.ProbablyPrime(20) {
		p.Add(p, two)
	}
	return p
}

// GenerateRSA derives an RSA-2048 key (e = 65537) from a seed: own prime search, so the key is a function of the seed.
func GenerateRSA(seed uint64) *RSAKey { return GenerateRSAExp(seed, 65537) }

// GenerateRSAExp: the same with another public exponent (odd, > 1, < 2^31: what an RSA key in PKCS#1 form may carry and
// Go's crypto/rsa accepts); primes are drawn until the exponent is invertible.
func GenerateRSAExp(seed uint64, exp int) *RSAKey {
	s := &stream{}
	binary.LittleEndian.PutUint64(s.seed[:], seed)
	copy(s.seed[8:], "verif-rsa-key")
	e := big.NewInt(int64(exp))
	for {
		p, q := seededPrime(s, 1024), seededPrime(s, 1024)
		if p.Cmp(q) == 0 {
			continue
		}
		n := new(big.Int).Mul(p, q)
		if n.BitLen() != 2048 {
			continue
		}
		phi := new(big.Int).Mul(new(big.Int).Sub(p, big.NewInt(1)), new(big.Int).Sub(q, big.NewInt(1)))
		d := new(big.Int).ModInverse(e, phi)
		if d == nil {
			continue
		}
		return &RSAKey{N: n, D: d, E: exp}
	}
}

// Fingerprint: lower 64 bits of SHA1 of the TL-serialised (n:string e:string), as a little-endian long.
func (k *RSAKey) Fingerprint() int64 {
	w := &W{}
	w.Str(k.N.Bytes()).Str(big.NewInt(int64(k.E)).Bytes())
	h := ref.SHA1(w.B)
	return int64(binary.LittleEndian.Uint64(h[12:20]))
}

// ---------- shared key store ("data centres" share it) ----------

type KeyInfo struct {
	AuthKey []byte
	Salt    int64
}

type Store struct {
	mu   sync.Mutex
	keys map[string]*KeyInfo // by auth_key_id (8 bytes)
}

func NewStore() *Store { return &Store{keys: map[string]*KeyInfo{}} }

func (s *Store) Put(authKey []byte, salt int64) {
	s.mu.Lock()
	s.keys[string(ref.AuthKeyID(authKey))] = &KeyInfo{AuthKey: authKey, Salt: salt}
	s.mu.Unlock()
}

func (s *Store) Get(id []byte) *KeyInfo {
	s.mu.Lock()
	defer s.mu.Unlock()
	return s.keys[string(id)]
}

func (s *Store) SetSalt(id []byte, salt int64) {
	s.mu.Lock()
	if k := s.keys[string(id)]; k != nil {
		k.Salt = salt
	}
	s.mu.Unlock()
}

// ---------- events ----------

// Event is one observation of the server, in the order the server made it.
type Event struct {
	Seq     int     `json:"seq"`
	Kind    string  `json:"kind"` // conn-open announce plain enc item ack pong-sent sent conn-close violation hs-done hs-fail
	Server  string  `json:"server,omitempty"`
	Conn    int     `json:"conn"`
	MsgID   int64   `json:"msg_id,omitempty"`
	SeqNo   int32   `json:"seq_no,omitempty"`
	Salt    int64   `json:"salt,omitempty"`
	Session int64   `json:"session,omitempty"`
	Ctor    string  `json:"ctor,omitempty"`
	Len     int     `json:"len,omitempty"`
	InCont  bool    `json:"in_container,omitempty"`
	IDs     []int64 `json:"ids,omitempty"`
	Note    string  `json:"note,omitempty"`
	Body    string  `json:"body,omitempty"` // hex, only when short
	Padding int     `json:"padding,omitempty"`
	TimeNs  int64   `json:"t_ns,omitempty"`
}

// ---------- server ----------

// HSParams are the values the server uses in one key exchange.
type HSParams struct {
	ServerNonce       []byte // 16
	P, Q              uint64 // primes, P < Q
	PQPad8            bool   // send pq left-padded to 8 bytes (else minimal length)
	G                 int
	A                 []byte // server DH secret (big-endian)
	ServerTime        int32
	PadSeed           uint64
	ExtraFingerprints []int64 // offered before the real one
	FingerprintsAfter []int64 // offered after the real one
	// RetryFirst: that many set_client_DH_params are answered with dh_gen_retry (correct hash) before the server accepts one
	RetryFirst int
	// Splits: the i-th reply of the exchange reaches the client in two TCP segments, cut after Splits[i] bytes (0: whole)
	Splits []int
}

// Fault is the single inconsistency injected into an otherwise conformant key exchange (C07).
type Fault struct {
	Step  string // resPQ | dhParams | dhInner | dhGen
	Field string // nonce | server_nonce | fingerprints | sha1 | new_nonce_hash | kind
	Kind  string // flip | random | other | zero | empty | one-wrong | several-wrong | flip-fp | prefix-flip | content-flip | hash2 | hash3 | random-hash | params_fail | gen_retry | gen_fail
	Bit   int
	// OtherFP: resPQ.fingerprints "other-clients-key": the only fingerprint offered
	OtherFP int64 `json:",omitempty"`
	// Code, Text: kind "rpc_error": the reply is rpc_error(Code, Text) instead of the constructor the step expects
	Code int32  `json:",omitempty"`
	Text string `json:",omitempty"`
	Rand []byte // 16 random bytes for "random"
	// Raw: kind "other-object": the reply is this serialised object (well-formed, of a registered constructor, but none the
	// step can be answered with)
	Raw []byte `json:",omitempty"`
}

// HSObs is what the server learnt during a key exchange.
type HSObs struct {
	Server                       string `json:",omitempty"`
	Nonce, ServerNonce, NewNonce []byte
	RSACiphertext                []byte
	GA, GB, AuthKey              []byte
	Hash1                        []byte
	Salt                         int64
	Completed                    bool
	Err                          string
	PQ                           []byte
	ClientP, ClientQ             []byte
	GBs                          [][]byte `json:",omitempty"` // every g_b the client sent in this exchange
	// Got: messages of the exchange received from the client; Sent: replies completely written to the socket;
	// LastSentMs: when the last one was (unix ms). Written by the connection's goroutine, read with atomic loads.
	Got, Sent  int32
	LastSentMs int64
}

// Handshakes returns the key exchanges seen so far.
func (s *Server) Handshakes() []*HSObs {
	s.mu.Lock()
	defer s.mu.Unlock()
	return append([]*HSObs{}, s.HS...)
}

// Barrier lets n parties proceed together (or each on its own after the timeout).
type Barrier struct {
	mu      sync.Mutex
	N       int
	arrived int
	ch      chan struct{}
}

func NewBarrier(n int) *Barrier { return &Barrier{N: n, ch: make(chan struct{})} }

func (b *Barrier) Wait() {
	b.mu.Lock()
	b.arrived++
	if b.arrived == b.N {
		close(b.ch)
	}
	b.mu.Unlock()
	select {
	case <-b.ch:
	case <-time.After(300 * time.Millisecond):
	}
}

type Server struct {
	// ClockOffset: seconds added to this server's clock when it stamps msg_ids (a server in 2040: ids with the top bit set)
	ClockOffset int64
	haveMsg     bool
	addr        string
	prevNonce   []byte // nonce of the previous key exchange with this server (fault "previous-exchange")
	// RollingSalts > 0: that many of the next content-related messages each find their salt just retired (atomic)
	RollingSalts int32
	// SeqStart: where a connection's seq_no counter starts (a session that has been alive for a long time: the int32
	// on the wire passes 2^31 and goes on with negative values)
	SeqStart int32
	// DHBarrier, when set, is passed before server_DH_params_ok is sent
	DHBarrier *Barrier
	Name      string
	ln        net.Listener
	Key       *RSAKey
	Store     *Store

	mu      sync.Mutex
	seq     *int
	seqMu   *sync.Mutex
	events  *[]Event
	conns   []*Conn
	lastMsg int64
	// knobs
	NextHS    func() HSParams
	Fault     *Fault
	AutoPong  bool
	OnRequest func(c *Conn, r *Request) // API request (content-related, not ack/ping/container)
	OnEvent   func(e Event)
	// SaltOK decides whether a message's salt is acceptable; default: equals the stored salt.
	SaltOK func(c *Conn, env ref.Envelope) bool
	HS     []*HSObs
}

type Request struct {
	MsgID       int64
	SeqNo       int32
	Salt        int64
	Session     int64
	Body        []byte
	Ctor        uint32
	InContainer bool
}

// Hub lets several servers share one event sequence.
type Hub struct {
	seq    int
	mu     sync.Mutex
	Events []Event
}

// Snapshot returns a copy of the events so far.
func (h *Hub) Snapshot() []Event {
	h.mu.Lock()
	defer h.mu.Unlock()
	return append([]Event{}, h.Events...)
}

func NewServer(name string, key *RSAKey, store *Store, hub *Hub) (*Server, error) {
	ln, err := net.Listen("tcp", "127.0.0.1:0")
	if err != nil {
		return nil, err
	}
	s := &Server{Name: name, ln: ln, addr: ln.Addr().String(), Key: key, Store: store, seq: &hub.seq, seqMu: &hub.mu, events: &hub.Events, AutoPong: true}
	go s.acceptLoop()
	return s, nil
}

func (s *Server) Addr() string { return s.addr }
func (s *Server) Close()       { s.ln.Close() }

// Suspend stops listening (connection attempts are refused); Resume listens on the same address again.
func (s *Server) Suspend() { s.ln.Close() }
func (s *Server) Resume() error {
	var err error
	for i := 0; i < 50; i++ {
		var ln net.Listener
		if ln, err = net.Listen("tcp", s.addr); err == nil {
			s.ln = ln
			go s.acceptLoop()
			return nil
		}
		time.Sleep(10 * time.Millisecond)
	}
	return err
}

func (s *Server) log(e Event) {
	s.seqMu.Lock()
	*s.seq++
	e.Seq = *s.seq
	e.Server = s.Name
	e.TimeNs = time.Now().UnixNano()
	*s.events = append(*s.events, e)
	cb := s.OnEvent
	s.seqMu.Unlock()
	if cb != nil {
		cb(e)
	}
}

func (s *Server) Conns() []*Conn {
	s.mu.Lock()
	defer s.mu.Unlock()
	return append([]*Conn{}, s.conns...)
}

// LastConn returns the most recent connection (nil if none).
func (s *Server) LastConn() *Conn {
	s.mu.Lock()
	defer s.mu.Unlock()
	if len(s.conns) == 0 {
		return nil
	}
	return s.conns[len(s.conns)-1]
}

func (s *Server) acceptLoop() {
	ln := s.ln
	for {
		c, err := ln.Accept()
		if err != nil {
			return
		}
		if tc, ok := c.(*net.TCPConn); ok {
			tc.SetNoDelay(true)
			// when the scenario's process ends, reset rather than linger: thousands of scenarios per minute would
			// otherwise exhaust the ephemeral ports with TIME_WAIT sockets (an orderly Close() in a scenario still
			// sends FIN through CloseWrite)
			tc.SetLinger(0)
		}
		s.mu.Lock()
		conn := &Conn{S: s, c: c, ID: len(s.conns) + 1, seqNo: s.SeqStart}
		s.conns = append(s.conns, conn)
		s.mu.Unlock()
		s.log(Event{Kind: "conn-open", Conn: conn.ID})
		go conn.serve()
	}
}

func (s *Server) nextMsgID(parity int64) int64 {
	s.mu.Lock()
	defer s.mu.Unlock()
	id := ((time.Now().Unix() + s.ClockOffset) << 32) | parity
	if s.haveMsg && id <= s.lastMsg {
		id = (s.lastMsg &^ 3) + 4 + parity
	}
	s.lastMsg, s.haveMsg = id, true
	return id
}

// ---------- connection ----------

type Conn struct {
	// SplitNext > 0: the next frame written is cut after that many bytes (modulo its length) and sent in two pieces
	SplitNext int
	S         *Server
	c         net.Conn
	ID        int
	abridged  bool
	wmu       sync.Mutex

	// encrypted session state
	key     *KeyInfo
	Session int64
	seqNo   int32 // number of content-related messages sent * 2
	closed  bool

	// handshake state
	hs              *HSObs
	hsp             HSParams
	plainSent       int
	faultOff        bool
	lastID          int64
	lastSeq         int32
	lastBody        []byte
	a               *big.Int
	lastClientMsgID int64
}

// Close closes the connection in an orderly way: the sending direction is shut down (the client reads end-of-stream),
// the server keeps reading until the client closes its side. An abortive close (RST) is not what a scenario calls "close".
func (c *Conn) Close() {
	c.wmu.Lock()
	c.closed = true
	c.wmu.Unlock()
	if tc, ok := c.c.(*net.TCPConn); ok {
		tc.CloseWrite()
		return
	}
	c.c.Close()
}

func (c *Conn) readFrame() ([]byte, error) {
	if c.abridged {
		var h [1]byte
		if _, err := io.ReadFull(c.c, h[:]); err != nil {
			return nil, err
		}
		n := int(h[0])
		if h[0] == 0x7f {
			var l [3]byte
			if _, err := io.ReadFull(c.c, l[:]); err != nil {
				return nil, err
			}
			n = int(l[0]) | int(l[1])<<8 | int(l[2])<<16
		}
		b := make([]byte, n*4)
		_, err := io.ReadFull(c.c, b)
		return b, err
	}
	var h [4]byte
	if _, err := io.ReadFull(c.c, h[:]); err != nil {
		return nil, err
	}
	n := binary.LittleEndian.Uint32(h[:])
	if n > 1<<26 {
		return nil, fmt.Errorf("frame of %d bytes", n)
	}
	b := make([]byte, n)
	_, err := io.ReadFull(c.c, b)
	return b, err
}

// WriteFrame sends one transport frame.
func (c *Conn) WriteFrame(b []byte) error {
	c.wmu.Lock()
	defer c.wmu.Unlock()
	var f []byte
	if c.abridged {
		f = ref.FrameAbridged(b)
	} else {
		f = ref.FrameIntermediate(b)
	}
	if k := c.SplitNext; k > 0 {
		// the network delivers this frame in two pieces with a pause between them
		c.SplitNext = 0
		k = 1 + (k-1)%(len(f)-1)
		if _, err := c.c.Write(f[:k]); err != nil {
			return err
		}
		time.Sleep(3 * time.Millisecond)
		_, err := c.c.Write(f[k:])
		return err
	}
	_, err := c.c.Write(f)
	return err
}

func (c *Conn) serve() {
	defer func() {
		c.S.log(Event{Kind: "conn-close", Conn: c.ID})
		c.wmu.Lock()
		c.closed = true
		c.wmu.Unlock()
		c.c.Close()
	}()
	var first [1]byte
	if _, err := io.ReadFull(c.c, first[:]); err != nil {
		return
	}
	switch first[0] {
	case 0xef:
		c.abridged = true
		c.S.log(Event{Kind: "announce", Conn: c.ID, Note: "abridged"})
	case 0xee:
		var rest [3]byte
		if _, err := io.ReadFull(c.c, rest[:]); err != nil || rest != [3]byte{0xee, 0xee, 0xee} {
			c.S.log(Event{Kind: "violation", Conn: c.ID, Note: "bad transport announcement"})
			return
		}
		c.S.log(Event{Kind: "announce", Conn: c.ID, Note: "intermediate"})
	default:
		c.S.log(Event{Kind: "violation", Conn: c.ID, Note: fmt.Sprintf("unknown transport announcement %02x", first[0])})
		return
	}
	for {
		f, err := c.readFrame()
		if err != nil {
			return
		}
		if len(f) < 8 {
			c.S.log(Event{Kind: "violation", Conn: c.ID, Note: fmt.Sprintf("frame of %d bytes", len(f))})
			continue
		}
		if binary.LittleEndian.Uint64(f[:8]) == 0 {
			if err := c.plain(f); err != nil {
				if c.hs != nil && c.hs.Err == "" {
					c.hs.Err = err.Error()
				}
				c.S.log(Event{Kind: "hs-fail", Conn: c.ID, Note: err.Error()})
			}
			continue
		}
		c.encrypted(f)
	}
}

// ---------- plain messages: the key exchange ----------

func (c *Conn) sendPlain(body []byte) error {
	w := &W{}
	w.I64(0).I64(c.S.nextMsgID(1)).U32(uint32(len(body))).Raw(body)
	if c.plainSent < len(c.hsp.Splits) {
		c.SplitNext = c.hsp.Splits[c.plainSent]
	}
	c.plainSent++
	err := c.WriteFrame(w.B)
	if err == nil && c.hs != nil {
		atomic.StoreInt64(&c.hs.LastSentMs, time.Now().UnixMilli())
		atomic.AddInt32(&c.hs.Sent, 1)
	}
	return err
}

func flipBit(b []byte, bit int) []byte {
	o := append([]byte{}, b...)
	bit %= len(o) * 8
	o[bit/8] ^= 1 << (bit % 8)
	return o
}

// corrupt applies the fault to a nonce-like field; other is the other nonce of the exchange.
func (f *Fault) corrupt(v, other []byte) []byte {
	switch f.Kind {
	case "flip":
		return flipBit(v, f.Bit)
	case "random":
		r := append([]byte{}, f.Rand...)
		for len(r) < len(v) {
			r = append(r, byte(len(r)*37+1))
		}
		r = r[:len(v)]
		if bytes.Equal(r, v) {
			r[0] ^= 1
		}
		return r
	case "other":
		o := append([]byte{}, other...)
		for len(o) < len(v) {
			o = append(o, 0)
		}
		o = o[:len(v)]
		if bytes.Equal(o, v) {
			o[0] ^= 1
		}
		return o
	case "zero":
		z := make([]byte, len(v))
		if bytes.Equal(z, v) {
			z[len(z)-1] = 1
		}
		return z
	case "zero-head": // the leading Bit%len+1 bytes replaced by zeros (the tail stays correct)
		o := append([]byte{}, v...)
		k := f.Bit%len(o) + 1
		changed := false
		for i := 0; i < k; i++ {
			if o[i] != 0 {
				changed = true
			}
			o[i] = 0
		}
		if !changed {
			o[k%len(o)] ^= 1
		}
		return o
	case "zero-tail":
		o := append([]byte{}, v...)
		k := f.Bit%len(o) + 1
		changed := false
		for i := len(o) - k; i < len(o); i++ {
			if o[i] != 0 {
				changed = true
			}
			o[i] = 0
		}
		if !changed {
			o[0] ^= 1
		}
		return o
	}
	return v
}

func (f *Fault) at(step, field string) bool {
	return f != nil && f.Step == step && f.Field == field
}

func (c *Conn) plain(f []byte) error {
	r := &R{B: f[8:]}
	msgID := r.I64()
	n := int(r.U32())
	body := r.Take(n)
	if r.Err != nil || r.Off != len(r.B) {
		return fmt.Errorf("plain message with inconsistent length (declared %d, frame %d)", n, len(f))
	}
	if msgID&3 != 0 {
		c.S.log(Event{Kind: "violation", Conn: c.ID, Note: fmt.Sprintf("plain msg_id %d not divisible by 4", msgID)})
	}
	br := &R{B: body}
	ctor := br.U32()
	c.S.log(Event{Kind: "plain", Conn: c.ID, MsgID: msgID, Ctor: fmt.Sprintf("%08x", ctor), Len: len(body)})
	flt := c.S.Fault
	if c.faultOff {
		flt = nil
	}
	if c.hs != nil && ctor != IDReqPQ {
		atomic.AddInt32(&c.hs.Got, 1)
	}
	switch ctor {
	case IDReqPQ:
		c.hsp = c.S.NextHS()
		c.hs = &HSObs{Server: c.S.Name, Nonce: append([]byte{}, br.Take(16)...), ServerNonce: c.hsp.ServerNonce}
		c.S.mu.Lock()
		c.S.HS = append(c.S.HS, c.hs)
		c.S.mu.Unlock()
		atomic.AddInt32(&c.hs.Got, 1)
		if br.Err != nil {
			return errors.New("req_pq malformed")
		}
		pq := new(big.Int).Mul(new(big.Int).SetUint64(c.hsp.P), new(big.Int).SetUint64(c.hsp.Q))
		pqb := pq.Bytes()
		if c.hsp.PQPad8 {
			pqb = ref.LeftPad(pqb, 8)
		}
		c.hs.PQ = pqb
		if flt.at("resPQ", "kind") && flt.Kind == "rpc_error" {
			return c.sendPlain(RpcError(flt.Code, flt.Text))
		}
		if flt.at("resPQ", "kind") && flt.Kind == "other-object" {
			return c.sendPlain(flt.Raw)
		}
		nonce, sn := c.hs.Nonce, c.hs.ServerNonce
		stale := false
		if flt.at("resPQ", "nonce") && flt.Kind == "previous-exchange" {
			// the first exchange with this server gets a flipped nonce; every later one gets, before the conformant
			// res_pq, a res_pq that echoes the nonce of the exchange before it (a late reply from the old connection)
			c.S.mu.Lock()
			prev := c.S.prevNonce
			c.S.prevNonce = append([]byte{}, c.hs.Nonce...)
			c.S.mu.Unlock()
			if prev == nil {
				nonce = flipBit(nonce, flt.Bit)
			} else {
				stale = true
				c.faultOff = true
				flt = nil
				w := &W{}
				w.U32(IDResPQ).Raw(prev).Raw(sn).Str(pqb).VecI64([]int64{c.S.Key.Fingerprint()})
				if err := c.sendPlain(w.B); err != nil {
					return err
				}
				c.S.log(Event{Kind: "stale-respq", Conn: c.ID, Note: "res_pq echoing the previous exchange's nonce, conformant res_pq follows"})
				atomic.AddInt32(&c.hs.Sent, -1) // not an answer to a message of this exchange
			}
		} else if flt.at("resPQ", "nonce") {
			nonce = flt.corrupt(nonce, sn)
		}
		_ = stale
		fps := append(append(append([]int64{}, c.hsp.ExtraFingerprints...), c.S.Key.Fingerprint()), c.hsp.FingerprintsAfter...)
		if flt.at("resPQ", "fingerprints") {
			real := c.S.Key.Fingerprint()
			switch flt.Kind {
			case "empty":
				fps = nil
			case "one-wrong":
				fps = []int64{real ^ 0x5555}
			case "several-wrong":
				fps = []int64{real + 1, real - 1, ^real, 0}
			case "flip-fp":
				fps = []int64{real ^ (1 << uint(flt.Bit%64))}
			case "other-clients-key":
				// the fingerprint of a key another client of the same process is configured with (and has used)
				fps = []int64{flt.OtherFP}
			}
		}
		w := &W{}
		w.U32(IDResPQ).Raw(nonce).Raw(sn).Str(pqb).VecI64(fps)
		return c.sendPlain(w.B)
	case IDReqDHParams:
		if c.hs == nil {
			return errors.New("req_DH_params before req_pq")
		}
		n1, sn := br.Take(16), br.Take(16)
		p, q := br.Str(), br.Str()
		fp := br.I64()
		enc := br.Str()
		if br.Err != nil {
			return errors.New("req_DH_params malformed")
		}
		if !bytes.Equal(n1, c.hs.Nonce) || !bytes.Equal(sn, c.hs.ServerNonce) {
			return errors.New("req_DH_params: nonce/server_nonce mismatch")
		}
		if fp != c.S.Key.Fingerprint() {
			return fmt.Errorf("req_DH_params: unknown key fingerprint %x", fp)
		}
		c.hs.ClientP, c.hs.ClientQ = append([]byte{}, p...), append([]byte{}, q...)
		if new(big.Int).SetBytes(p).Uint64() != c.hsp.P || new(big.Int).SetBytes(q).Uint64() != c.hsp.Q {
			return fmt.Errorf("req_DH_params: wrong factorisation p=%x q=%x", p, q)
		}
		c.hs.RSACiphertext = append([]byte{}, enc...)
		if len(enc) != 256 {
			return fmt.Errorf("req_DH_params: encrypted_data has %d bytes, want 256", len(enc))
		}
		m := ref.RSAPrivate(enc, c.S.Key.N, c.S.Key.D)
		if m.BitLen() > 255*8 {
			return errors.New("req_DH_params: RSA block does not decrypt to a 255-byte value (undecryptable)")
		}
		dwh := ref.LeftPad(m.Bytes(), 255)
		ir := &R{B: dwh[20:]}
		if ir.U32() != IDPQInnerData {
			return errors.New("req_DH_params: decrypted data is not p_q_inner_data (undecryptable RSA block)")
		}
		ipq, ip, iq := ir.Str(), ir.Str(), ir.Str()
		in1, isn := ir.Take(16), ir.Take(16)
		newNonce := append([]byte{}, ir.Take(32)...)
		if ir.Err != nil {
			return errors.New("p_q_inner_data malformed")
		}
		if !bytes.Equal(ref.SHA1(dwh[20:20+ir.Off]), dwh[:20]) {
			return errors.New("p_q_inner_data: SHA1 mismatch")
		}
		if !bytes.Equal(in1, c.hs.Nonce) || !bytes.Equal(isn, c.hs.ServerNonce) {
			return errors.New("p_q_inner_data: nonce/server_nonce mismatch")
		}
		if new(big.Int).SetBytes(ipq).Cmp(new(big.Int).SetBytes(c.hs.PQ)) != 0 || !bytes.Equal(ip, p) || !bytes.Equal(iq, q) {
			return errors.New("p_q_inner_data: pq/p/q mismatch")
		}
		c.hs.NewNonce = newNonce
		if flt.at("dhParams", "kind") && flt.Kind == "rpc_error" {
			return c.sendPlain(RpcError(flt.Code, flt.Text))
		}
		if flt.at("dhParams", "kind") && flt.Kind == "other-object" {
			return c.sendPlain(flt.Raw)
		}
		if flt.at("dhParams", "kind") { // server_DH_params_fail with correct nonces
			w := &W{}
			w.U32(IDServerDHFail).Raw(c.hs.Nonce).Raw(c.hs.ServerNonce).Raw(ref.SHA1(newNonce)[4:20])
			return c.sendPlain(w.B)
		}
		c.a = new(big.Int).SetBytes(c.hsp.A)
		g := big.NewInt(int64(c.hsp.G))
		ga := new(big.Int).Exp(g, c.a, ref.DHPrime)
		c.hs.GA = ga.Bytes()
		inNonce, inSN := c.hs.Nonce, c.hs.ServerNonce
		if flt.at("dhInner", "nonce") {
			inNonce = flt.corrupt(inNonce, inSN)
		}
		if flt.at("dhInner", "server_nonce") {
			inSN = flt.corrupt(inSN, c.hs.Nonce)
		}
		w := &W{}
		w.U32(IDServerDHInner).Raw(inNonce).Raw(inSN).I32(int32(c.hsp.G)).Str(ref.DHPrime.Bytes()).Str(ga.Bytes()).I32(c.hsp.ServerTime)
		content := w.B
		prefix := ref.SHA1(content)
		if flt.at("dhInner", "sha1") {
			switch flt.Kind {
			case "prefix-flip":
				prefix = flipBit(prefix, flt.Bit)
			case "content-flip": // the hash was computed over a different content
				prefix = ref.SHA1(flipBit(content, flt.Bit))
			}
		}
		ans := append(append([]byte{}, prefix...), content...)
		pad := &stream{}
		binary.LittleEndian.PutUint64(pad.seed[:], c.hsp.PadSeed)
		for len(ans)%16 != 0 {
			var b [1]byte
			pad.Read(b[:])
			ans = append(ans, b[0])
		}
		k, iv := ref.TempKeys(newNonce, c.hs.ServerNonce)
		encAns, _ := ref.IGEEncrypt(k, iv, ans)
		oNonce, oSN := c.hs.Nonce, c.hs.ServerNonce
		if flt.at("dhParams", "nonce") {
			oNonce = flt.corrupt(oNonce, oSN)
		}
		if flt.at("dhParams", "server_nonce") {
			oSN = flt.corrupt(oSN, c.hs.Nonce)
		}
		o := &W{}
		o.U32(IDServerDHOk).Raw(oNonce).Raw(oSN).Str(encAns)
		if c.S.DHBarrier != nil {
			// key exchanges of several clients of one process reach this step together
			c.S.DHBarrier.Wait()
		}
		return c.sendPlain(o.B)
	case IDSetClientDH:
		if c.hs == nil || c.hs.NewNonce == nil || c.a == nil {
			return errors.New("set_client_DH_params out of order")
		}
		n1, sn := br.Take(16), br.Take(16)
		enc := br.Str()
		if br.Err != nil || !bytes.Equal(n1, c.hs.Nonce) || !bytes.Equal(sn, c.hs.ServerNonce) {
			return errors.New("set_client_DH_params: malformed or nonce mismatch")
		}
		if len(enc) == 0 || len(enc)%16 != 0 {
			return fmt.Errorf("set_client_DH_params: encrypted_data of %d bytes", len(enc))
		}
		k, iv := ref.TempKeys(c.hs.NewNonce, c.hs.ServerNonce)
		pt, _ := ref.IGEDecrypt(k, iv, enc)
		ir := &R{B: pt[20:]}
		if ir.U32() != IDClientDHInner {
			return errors.New("client_DH_inner_data undecryptable (wrong temp keys on the client side)")
		}
		in1, isn := ir.Take(16), ir.Take(16)
		retry := ir.I64()
		gbBytes := ir.Str()
		if ir.Err != nil {
			return errors.New("client_DH_inner_data malformed")
		}
		if !bytes.Equal(ref.SHA1(pt[20:20+ir.Off]), pt[:20]) {
			return errors.New("client_DH_inner_data: SHA1 mismatch")
		}
		if padding := len(pt) - 20 - ir.Off; padding > 15 {
			c.S.log(Event{Kind: "violation", Conn: c.ID, Note: fmt.Sprintf("client_DH_inner_data carries %d padding bytes (0..15 allowed)", padding)})
		}
		if !bytes.Equal(in1, c.hs.Nonce) || !bytes.Equal(isn, c.hs.ServerNonce) {
			return errors.New("client_DH_inner_data: nonce mismatch")
		}
		if retry != 0 && len(c.hs.GBs) == 0 {
			return fmt.Errorf("client_DH_inner_data: retry_id %d on the first attempt", retry)
		}
		c.hs.GBs = append(c.hs.GBs, append([]byte{}, gbBytes...))
		if c.hsp.RetryFirst > 0 && len(c.hs.GBs) <= c.hsp.RetryFirst {
			// a conformant server may find the key's auxiliary hash taken and ask for another exponent: dh_gen_retry
			// with new_nonce_hash2; a client is free to give up instead
			gbr := new(big.Int).SetBytes(gbBytes)
			auxr := ref.SHA1(ref.LeftPad(new(big.Int).Exp(gbr, c.a, ref.DHPrime).Bytes(), 256))[:8]
			o := &W{}
			o.U32(IDDHGenRetry).Raw(c.hs.Nonce).Raw(c.hs.ServerNonce).Raw(ref.SHA1(c.hs.NewNonce, []byte{2}, auxr)[4:20])
			return c.sendPlain(o.B)
		}
		gb := new(big.Int).SetBytes(gbBytes)
		one := big.NewInt(1)
		if gb.Cmp(one) <= 0 || gb.Cmp(new(big.Int).Sub(ref.DHPrime, one)) >= 0 {
			return errors.New("client_DH_inner_data: g_b out of range")
		}
		c.hs.GB = gb.Bytes()
		gab := new(big.Int).Exp(gb, c.a, ref.DHPrime)
		authKey := ref.LeftPad(gab.Bytes(), 256)
		c.hs.AuthKey = authKey
		aux := ref.SHA1(authKey)[:8]
		h1 := ref.SHA1(c.hs.NewNonce, []byte{1}, aux)[4:20]
		c.hs.Hash1 = h1
		c.hs.Salt = int64(binary.LittleEndian.Uint64(ref.XorBytes(c.hs.NewNonce[:8], c.hs.ServerNonce[:8])))
		ctorOut := uint32(IDDHGenOk)
		hash := h1
		oNonce, oSN := c.hs.Nonce, c.hs.ServerNonce
		if flt != nil && flt.Step == "dhGen" {
			switch flt.Field {
			case "nonce":
				oNonce = flt.corrupt(oNonce, oSN)
			case "server_nonce":
				oSN = flt.corrupt(oSN, c.hs.Nonce)
			case "new_nonce_hash":
				switch flt.Kind {
				case "flip":
					hash = flipBit(h1, flt.Bit)
				case "hash2":
					hash = ref.SHA1(c.hs.NewNonce, []byte{2}, aux)[4:20]
				case "hash3":
					hash = ref.SHA1(c.hs.NewNonce, []byte{3}, aux)[4:20]
				case "zero", "other", "zero-head", "zero-tail", "random":
					hash = flt.corrupt(h1, c.hs.Nonce)
				case "random-hash":
					hash = flt.corrupt(h1, c.hs.Nonce)
					if flt.Kind != "random" {
						hash = (&Fault{Kind: "random", Rand: flt.Rand}).corrupt(h1, nil)
					}
				}
			case "kind":
				switch flt.Kind {
				case "gen_retry":
					ctorOut, hash = IDDHGenRetry, ref.SHA1(c.hs.NewNonce, []byte{2}, aux)[4:20]
				case "gen_fail":
					ctorOut, hash = IDDHGenFail, ref.SHA1(c.hs.NewNonce, []byte{3}, aux)[4:20]
				}
			}
		}
		if flt == nil || flt.Step == "" {
			c.hs.Completed = true
			c.S.Store.Put(authKey, c.hs.Salt)
			c.S.log(Event{Kind: "hs-done", Conn: c.ID, Note: hex.EncodeToString(ref.AuthKeyID(authKey))})
		} else {
			// the server side considers the key established in any case; whether the client uses it is the point of C07
			c.S.Store.Put(authKey, c.hs.Salt)
		}
		if flt.at("dhGen", "kind") && flt.Kind == "rpc_error" {
			return c.sendPlain(RpcError(flt.Code, flt.Text))
		}
		if flt.at("dhGen", "kind") && flt.Kind == "other-object" {
			return c.sendPlain(flt.Raw)
		}
		o := &W{}
		o.U32(ctorOut).Raw(oNonce).Raw(oSN).Raw(hash)
		return c.sendPlain(o.B)
	}
	return fmt.Errorf("unexpected plain constructor %08x", ctor)
}

// ---------- encrypted messages ----------

func (c *Conn) encrypted(f []byte) {
	ki := c.S.Store.Get(f[:8])
	if ki == nil {
		c.S.log(Event{Kind: "violation", Conn: c.ID, Note: "encrypted frame with unknown auth_key_id " + hex.EncodeToString(f[:8])})
		c.WriteFrame(binary.LittleEndian.AppendUint32(nil, uint32(0xfffffe6c))) // -404, as Telegram does
		return
	}
	env, padding, err := ref.Open(ki.AuthKey, f, 0)
	if err != nil {
		c.S.log(Event{Kind: "violation", Conn: c.ID, Note: "envelope (C03): " + err.Error()})
		return
	}
	if padding > 15 {
		c.S.log(Event{Kind: "violation", Conn: c.ID, Note: fmt.Sprintf("envelope (C03): %d padding bytes", padding)})
	}
	c.key = ki
	if c.Session == 0 {
		c.Session = env.Session
	} else if c.Session != env.Session {
		c.S.log(Event{Kind: "violation", Conn: c.ID, Note: "session id changed within a connection"})
	}
	ctor := uint32(0)
	if len(env.Body) >= 4 {
		ctor = binary.LittleEndian.Uint32(env.Body)
	}
	ev := Event{Kind: "enc", Conn: c.ID, MsgID: env.MsgID, SeqNo: env.SeqNo, Salt: env.Salt, Session: env.Session, Ctor: fmt.Sprintf("%08x", ctor), Len: len(env.Body), Padding: padding}
	if len(env.Body) <= 64 {
		ev.Body = hex.EncodeToString(env.Body)
	}
	c.S.log(ev)
	if env.SeqNo&1 == 1 && atomic.LoadInt32(&c.S.RollingSalts) > 0 {
		// the server goes through salts quickly: each of the next content-related messages arrives just after the salt
		// it carries has been retired
		atomic.AddInt32(&c.S.RollingSalts, -1)
		c.S.Store.SetSalt(f[:8], ki.Salt+1)
		ki = c.S.Store.Get(f[:8])
		c.S.log(Event{Kind: "rotate", Conn: c.ID, Note: fmt.Sprintf("salt=%d", ki.Salt)})
	}
	ok := env.Salt == ki.Salt
	if c.S.SaltOK != nil {
		ok = c.S.SaltOK(c, env)
	}
	if !ok {
		// a conformant server rejects the whole message with bad_server_salt (error code 48) and tells the valid salt
		w := &W{}
		w.U32(IDBadServerSalt).I64(env.MsgID).I32(env.SeqNo).I32(48).I64(c.S.Store.Get(f[:8]).Salt)
		c.S.log(Event{Kind: "salt-reject", Conn: c.ID, MsgID: env.MsgID, Ctor: fmt.Sprintf("%08x", ctor), Salt: env.Salt})
		c.Send(w.B, false)
		return
	}
	c.dispatch(env, env.Body, env.MsgID, env.SeqNo, false)
}

func (c *Conn) dispatch(env ref.Envelope, body []byte, msgID int64, seqNo int32, inContainer bool) {
	if len(body) < 4 {
		c.S.log(Event{Kind: "violation", Conn: c.ID, Note: "message body shorter than a constructor id"})
		return
	}
	ctor := binary.LittleEndian.Uint32(body)
	if inContainer {
		c.S.log(Event{Kind: "item", Conn: c.ID, MsgID: msgID, SeqNo: seqNo, Ctor: fmt.Sprintf("%08x", ctor), Len: len(body), InCont: true})
	}
	switch ctor {
	case IDMsgContainer:
		r := &R{B: body[4:]}
		n := int(r.U32())
		for i := 0; i < n && r.Err == nil; i++ {
			id, sq := r.I64(), r.I32()
			l := int(r.U32())
			b := r.Take(l)
			if r.Err != nil {
				break
			}
			c.dispatch(env, b, id, sq, true)
		}
		if r.Err != nil {
			c.S.log(Event{Kind: "violation", Conn: c.ID, Note: "malformed msg_container from the client"})
		}
	case IDMsgsAck:
		r := &R{B: body[4:]}
		ids := r.VecI64()
		c.S.log(Event{Kind: "ack", Conn: c.ID, MsgID: msgID, SeqNo: seqNo, IDs: ids})
	case IDPing:
		r := &R{B: body[4:]}
		pid := r.I64()
		if c.S.AutoPong {
			c.Send((&W{}).U32(IDPong).I64(msgID).I64(pid).B, false)
		}
	default:
		if c.Closed() {
			// the server has closed this connection: what still arrives on it is lost, as with a real server
			c.S.log(Event{Kind: "dropped-after-close", Conn: c.ID, MsgID: msgID, Ctor: fmt.Sprintf("%08x", ctor)})
			return
		}
		if c.S.OnRequest != nil {
			c.S.OnRequest(c, &Request{MsgID: msgID, SeqNo: seqNo, Salt: env.Salt, Session: env.Session, Body: append([]byte{}, body...), Ctor: ctor, InContainer: inContainer})
		}
	}
}

// Item is one message of a container the server sends.
type Item struct {
	Body           []byte
	ContentRelated bool
	MsgID          int64 // filled by SendContainer
	SeqNo          int32
}

func (c *Conn) nextSeq(contentRelated bool) int32 {
	if contentRelated {
		v := c.seqNo + 1
		c.seqNo += 2
		return v
	}
	return c.seqNo
}

func (c *Conn) seal(msgID int64, seqNo int32, body []byte) []byte {
	salt := c.key.Salt
	pad := ref.SHA1(body, []byte{byte(msgID)})
	return ref.Seal(c.key.AuthKey, ref.Envelope{Salt: salt, Session: c.Session, MsgID: msgID, SeqNo: seqNo, Body: body}, 8, pad)
}

// Send sends one encrypted message; returns its msg_id.
func (c *Conn) Send(body []byte, contentRelated bool) int64 {
	if c.key == nil || c.Closed() {
		return 0
	}
	c.S.mu.Lock()
	seq := c.nextSeq(contentRelated)
	c.S.mu.Unlock()
	parity := int64(1)
	if len(body) >= 4 && binary.LittleEndian.Uint32(body) != IDRpcResult && contentRelated {
		parity = 3 // not a response to a client message
	}
	id := c.S.nextMsgID(parity)
	ctor := uint32(0)
	if len(body) >= 4 {
		ctor = binary.LittleEndian.Uint32(body)
	}
	c.S.log(Event{Kind: "sent", Conn: c.ID, MsgID: id, SeqNo: seq, Ctor: fmt.Sprintf("%08x", ctor), Len: len(body)})
	if contentRelated {
		c.wmu.Lock()
		c.lastID, c.lastSeq, c.lastBody = id, seq, append([]byte{}, body...)
		c.wmu.Unlock()
	}
	c.WriteFrame(c.seal(id, seq, body))
	return id
}

// Prepared is a message that has been given its msg_id and seq_no (stamped when the server created it) but has not
// left yet.
type Prepared struct {
	c     *Conn
	id    int64
	seq   int32
	ctor  uint32
	n     int
	frame []byte
}

// Prepare stamps and seals a message without sending it.
func (c *Conn) Prepare(body []byte, contentRelated bool) *Prepared {
	if c.key == nil || c.Closed() {
		return nil
	}
	c.S.mu.Lock()
	seq := c.nextSeq(contentRelated)
	c.S.mu.Unlock()
	parity := int64(1)
	if len(body) >= 4 && binary.LittleEndian.Uint32(body) != IDRpcResult && contentRelated {
		parity = 3
	}
	id := c.S.nextMsgID(parity)
	ctor := uint32(0)
	if len(body) >= 4 {
		ctor = binary.LittleEndian.Uint32(body)
	}
	return &Prepared{c: c, id: id, seq: seq, ctor: ctor, n: len(body), frame: c.seal(id, seq, body)}
}

// Write sends a prepared message (possibly after messages that were stamped later).
func (p *Prepared) Write() {
	if p == nil {
		return
	}
	p.c.S.log(Event{Kind: "sent", Conn: p.c.ID, MsgID: p.id, SeqNo: p.seq, Ctor: fmt.Sprintf("%08x", p.ctor), Len: p.n})
	p.c.WriteFrame(p.frame)
}

// Redeliver sends the last content-related message of this connection once more, under the same msg_id and seq_no: what
// a server does when the acknowledgement did not reach it. Returns the id (0: nothing to repeat).
func (c *Conn) Redeliver() int64 {
	c.wmu.Lock()
	id, seq, body := c.lastID, c.lastSeq, c.lastBody
	c.wmu.Unlock()
	if id == 0 || c.key == nil || c.Closed() {
		return 0
	}
	ctor := uint32(0)
	if len(body) >= 4 {
		ctor = binary.LittleEndian.Uint32(body)
	}
	c.S.log(Event{Kind: "sent", Conn: c.ID, MsgID: id, SeqNo: seq, Ctor: fmt.Sprintf("%08x", ctor), Len: len(body), Note: "redelivered"})
	c.WriteFrame(c.seal(id, seq, body))
	return id
}

// SendNested sends the items inside a msg_container that is itself the only item of an outer msg_container.
func (c *Conn) SendNested(items []*Item) int64 {
	if c.key == nil || c.Closed() {
		return 0
	}
	inner := c.containerBody(items)
	c.S.mu.Lock()
	seq := c.nextSeq(false)
	c.S.mu.Unlock()
	innerID := c.S.nextMsgID(1)
	c.S.log(Event{Kind: "sent", Conn: c.ID, MsgID: innerID, SeqNo: seq, Ctor: fmt.Sprintf("%08x", uint32(IDMsgContainer)), Len: len(inner), InCont: true, Note: fmt.Sprintf("inner container of %d", len(items))})
	w := &W{}
	w.U32(IDMsgContainer).U32(1).I64(innerID).I32(seq).U32(uint32(len(inner))).Raw(inner)
	c.S.mu.Lock()
	oseq := c.nextSeq(false)
	c.S.mu.Unlock()
	id := c.S.nextMsgID(1)
	c.S.log(Event{Kind: "sent", Conn: c.ID, MsgID: id, SeqNo: oseq, Ctor: fmt.Sprintf("%08x", uint32(IDMsgContainer)), Len: len(w.B), Note: "outer container"})
	c.WriteFrame(c.seal(id, oseq, w.B))
	return id
}

func (c *Conn) containerBody(items []*Item) []byte {
	w := &W{}
	w.U32(IDMsgContainer).U32(uint32(len(items)))
	for _, it := range items {
		c.S.mu.Lock()
		it.SeqNo = c.nextSeq(it.ContentRelated)
		c.S.mu.Unlock()
		it.MsgID = c.S.nextMsgID(1)
		ctor := uint32(0)
		if len(it.Body) >= 4 {
			ctor = binary.LittleEndian.Uint32(it.Body)
		}
		c.S.log(Event{Kind: "sent", Conn: c.ID, MsgID: it.MsgID, SeqNo: it.SeqNo, Ctor: fmt.Sprintf("%08x", ctor), Len: len(it.Body), InCont: true})
		w.I64(it.MsgID).I32(it.SeqNo).U32(uint32(len(it.Body))).Raw(it.Body)
	}
	return w.B
}

// SendContainer sends the items in one msg_container (the container itself is not content-related).
func (c *Conn) SendContainer(items []*Item) int64 {
	if c.key == nil || c.Closed() {
		return 0
	}
	w := &W{}
	w.U32(IDMsgContainer).U32(uint32(len(items)))
	for _, it := range items {
		c.S.mu.Lock()
		it.SeqNo = c.nextSeq(it.ContentRelated)
		c.S.mu.Unlock()
		it.MsgID = c.S.nextMsgID(1)
		ctor := uint32(0)
		if len(it.Body) >= 4 {
			ctor = binary.LittleEndian.Uint32(it.Body)
		}
		c.S.log(Event{Kind: "sent", Conn: c.ID, MsgID: it.MsgID, SeqNo: it.SeqNo, Ctor: fmt.Sprintf("%08x", ctor), Len: len(it.Body), InCont: true})
		w.I64(it.MsgID).I32(it.SeqNo).U32(uint32(len(it.Body))).Raw(it.Body)
	}
	c.S.mu.Lock()
	seq := c.nextSeq(false)
	c.S.mu.Unlock()
	id := c.S.nextMsgID(1)
	c.S.log(Event{Kind: "sent", Conn: c.ID, MsgID: id, SeqNo: seq, Ctor: fmt.Sprintf("%08x", uint32(IDMsgContainer)), Len: len(w.B), Note: fmt.Sprintf("container of %d", len(items))})
	c.WriteFrame(c.seal(id, seq, w.B))
	return id
}

// SealFrame builds the encrypted frame for a body (consuming a msg_id and seq_no) without sending it.
func (c *Conn) SealFrame(body []byte, contentRelated bool) []byte {
	if c.key == nil {
		return nil
	}
	c.S.mu.Lock()
	seq := c.nextSeq(contentRelated)
	c.S.mu.Unlock()
	id := c.S.nextMsgID(1)
	c.S.log(Event{Kind: "sent", Conn: c.ID, MsgID: id, SeqNo: seq, Len: len(body), Note: "raw"})
	return c.seal(id, seq, body)
}

// MangledFrame builds, instead of a genuine message carrying body, what an attacker on the path (flip, truncate,
// append, garbage, rekey, reflect) or a key holder that breaks the rules (evenid, badlen) would hand the client.
// Every one of them fails at least one of the acceptance conditions of an incoming packet.
func (c *Conn) MangledFrame(body []byte, op string, a, b int, rnd []byte) []byte {
	if c.key == nil {
		return nil
	}
	c.S.mu.Lock()
	seq := c.nextSeq(true)
	c.S.mu.Unlock()
	id := c.S.nextMsgID(1)
	noise := func(n int) []byte {
		var out []byte
		for i := 0; len(out) < n; i++ {
			out = append(out, ref.SHA1(rnd, []byte{byte(i), byte(i >> 8)})...)
		}
		return out[:n]
	}
	env := ref.Envelope{Salt: c.key.Salt, Session: c.Session, MsgID: id, SeqNo: seq, Body: body}
	pad := noise(16)
	good := ref.Seal(c.key.AuthKey, env, 8, pad)
	var f []byte
	switch op {
	case "flip":
		f = good
		bit := a % (len(f) * 8)
		f[bit/8] ^= 1 << (bit % 8)
	case "truncate":
		n := a % len(good) / 4 * 4
		if n < 4 {
			n = 4
		}
		f = good[:n]
	case "append":
		// not a whole number of blocks: a whole extra block is only more padding to the acceptance conditions
		f = append(good, noise([]int{4, 8, 12, 20, 24, 28}[a%6])...)
	case "garbage":
		f = append(append([]byte{}, ref.AuthKeyID(c.key.AuthKey)...), noise(16*(1+a%8)+16)...)
	case "rekey":
		other := append([]byte{}, c.key.AuthKey...)
		other[8+a%128] ^= 1 << (b % 8) // within the 128 bytes the server-to-client key derivation reads
		f = ref.Seal(other, env, 8, pad)
		copy(f[:8], ref.AuthKeyID(c.key.AuthKey))
	case "reflect":
		f = ref.Seal(c.key.AuthKey, env, 0, pad)
	case "evenid":
		env.MsgID = env.MsgID&^3&^(-1<<63) | int64(a&1)<<1
		if b&1 == 1 {
			env.MsgID |= -1 << 63
		}
		f = ref.Seal(c.key.AuthKey, env, 8, pad)
	case "badlen":
		pt := make([]byte, 0, 64+len(body))
		pt = binary.LittleEndian.AppendUint64(pt, uint64(env.Salt))
		pt = binary.LittleEndian.AppendUint64(pt, uint64(env.Session))
		pt = binary.LittleEndian.AppendUint64(pt, uint64(env.MsgID))
		pt = binary.LittleEndian.AppendUint32(pt, uint32(env.SeqNo))
		pt = binary.LittleEndian.AppendUint32(pt, 0)
		pt = append(pt, body...)
		for i := 0; len(pt)%16 != 0; i++ {
			pt = append(pt, pad[i%16])
		}
		area := int64(len(pt) - 32)
		ls := []int64{-1 << 31, -1, -32, -33, 1<<31 - 1, 1 << 30, area + 1, area + 4, area + 16, area + 33}
		l := ls[a%len(ls)]
		binary.LittleEndian.PutUint32(pt[28:], uint32(int32(l)))
		hl := len(pt)
		if b&1 == 1 {
			hl = 32
		}
		f = ref.SealRaw(c.key.AuthKey, pt, hl, 8)
	default:
		return nil
	}
	c.S.log(Event{Kind: "sent", Conn: c.ID, MsgID: id, SeqNo: seq, Len: len(body), Note: "raw"})
	return f
}

// SendRawEncrypted seals an arbitrary body with explicit msg_id/seq_no (for hostile histories).
func (c *Conn) SendRawEncrypted(msgID int64, seqNo int32, body []byte) {
	if c.key == nil {
		return
	}
	c.S.log(Event{Kind: "sent", Conn: c.ID, MsgID: msgID, SeqNo: seqNo, Len: len(body), Note: "raw"})
	c.WriteFrame(c.seal(msgID, seqNo, body))
}

// LogNote records a scenario-level observation in the server's event sequence.
func (s *Server) LogNote(kind string, c *Conn, msgID int64, note string) {
	id := 0
	if c != nil {
		id = c.ID
	}
	s.log(Event{Kind: kind, Conn: id, MsgID: msgID, Note: note})
}

// AdoptHandshakeKey makes the key this connection's exchange produced the connection's key, so that the server can
// speak first (it considers the key established once it has answered set_client_DH_params). False if the exchange
// never got that far.
func (c *Conn) AdoptHandshakeKey() bool {
	if c.hs == nil || c.hs.AuthKey == nil {
		return false
	}
	ki := c.S.Store.Get(ref.AuthKeyID(c.hs.AuthKey))
	if ki == nil {
		return false
	}
	c.key = ki
	if c.Session == 0 {
		c.Session = 0x5e55104e5e55104e
	}
	return true
}

// SetSalt switches the salt the server accepts for this connection's key (salt rotation).
func (c *Conn) SetSalt(salt int64) {
	if c.key != nil {
		c.S.Store.SetSalt(ref.AuthKeyID(c.key.AuthKey), salt)
	}
}

func (c *Conn) Closed() bool {
	c.wmu.Lock()
	defer c.wmu.Unlock()
	return c.closed
}

// Adopt makes the connection usable for sending before the client has spoken (resumed sessions are learnt from the first message).
func (c *Conn) HasSession() bool { return c.key != nil }
