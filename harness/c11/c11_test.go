package c11

import (
	"encoding/binary"
	"encoding/hex"
	"encoding/json"
	"fmt"
	"strings"
	"testing"
	"time"

	"github.com/xelaj/mtproto/telegram/verifh/hx"
	"github.com/xelaj/mtproto/telegram/verifh/refsrv"
	"github.com/xelaj/mtproto/telegram/verifh/scen"
	"pgregory.net/rapid"
	"verif/evid"
)

var run = evid.New("C11")

func TestMain(m *testing.M) { hx.Main(m, run) }

type rapidSource struct{ t *rapid.T }

func (r rapidSource) Bytes(label string, n int) []byte { return hx.FixedBytes(r.t, label, n) }
func (r rapidSource) Int(label string, n int) int      { return rapid.IntRange(0, n-1).Draw(r.t, label) }

type detSource struct{ seed uint64 }

func (d *detSource) Bytes(label string, n int) []byte {
	d.seed = d.seed*6364136223846793005 + 1442695040888963407
	return hx.Det(d.seed^evid.Hash(label), n)
}
func (d *detSource) Int(label string, n int) int {
	d.seed = d.seed*6364136223846793005 + 1442695040888963407
	return int(hx.DetU64(d.seed^evid.Hash(label)) % uint64(n))
}

// Plan is the abstract history: rotations with the requests accepted before / rejected by each, and how many
// answers the server gives back before the next rotation.
type Plan struct {
	Fresh     bool
	Rotations []Rotation
	Kinds     []string // request kinds, by order of creation
	// AckRejected: at the end, with nothing pending (n = 0), the server retires the salt once more and rejects the
	// client's latest acknowledgement - a message no caller waits for
	AckRejected bool
	// Burst > 1: that rejection comes as the last of Burst notifications in one container (the server went through
	// several salts in a row); the salt of the last one is the one to keep
	Burst int `json:",omitempty"`
	// StoreFault: before that, one store of the session fails (disk full) while a salt is saved, and the same salt is
	// announced again afterwards
	StoreFault bool `json:",omitempty"`
	// Rejections > 0: after the rotations one more request is issued while the server goes through salts quickly: the
	// request and each of its re-sent copies arrive just after their salt was retired, Rejections times in a row
	Rejections int `json:",omitempty"`
	// SaltReturns: at the end the server returns to the salt that the stored session held at the start
	SaltReturns bool `json:",omitempty"`
	// UID: the unique_id of the new_session_created notifications ("" a different one each time, "zero", "same")
	UID string `json:",omitempty"`
}

type Rotation struct {
	Accepted   int  // requests issued (and accepted) before the rotation, answers kept back
	Rejected   int  // requests issued after the server switched salts
	AnswerNow  int  // how many outstanding requests are answered before the next rotation (the rest stays pending)
	NewSession bool // the new salt is announced by new_session_created instead of being learnt from a rejection
	// HoldRejected: the first rejected sender is held right after its write until the bad_server_salt has reached the client
	HoldRejected bool
	Order        uint64
}

func salts(i int) int64 { return int64(0x1122334455660000) + int64(i+1)*0x101 }

// build turns a plan into a script.
func build(src scen.Source, keys []refsrv.RSAKeyJSON, p Plan) (*scen.Scenario, error) {
	var sc *scen.Scenario
	if p.Fresh {
		hs, err := scen.BuildHandshake(src, keys, scen.Corner{}, false)
		if err != nil {
			return nil, err
		}
		hs.HS.P, hs.HS.Q = 1000003, 1000033
		sc = &scen.Scenario{Kind: "rpc", RSA: hs.RSA, HS: hs.HS, RPC: &scen.RPCSpec{Fresh: true}}
	} else {
		sc = scen.NewResumed(src)
	}
	sc.RPC.NewSessionUID = p.UID
	tag := 100
	kindOf := func() string {
		k := scen.ReqKinds[(tag/3)%len(scen.ReqKinds)]
		if len(p.Kinds) > 0 {
			k = p.Kinds[(tag-100)%len(p.Kinds)]
		}
		return k
	}
	caller := 0
	var outstanding []int
	var steps []scen.Step
	newCalls := func(n int) {
		var calls []scen.CallSpec
		for i := 0; i < n; i++ {
			calls = append(calls, scen.CallSpec{Caller: caller, Reqs: []scen.ReqSpec{{Tag: tag, Kind: kindOf()}}})
			outstanding = append(outstanding, tag)
			tag++
			caller++
		}
		if n > 0 {
			steps = append(steps, scen.Step{Op: "call", Calls: calls})
		}
	}
	for ri, r := range p.Rotations {
		newCalls(r.Accepted)
		steps = append(steps, scen.Step{Op: "await-requests", N: len(outstanding)})
		if r.NewSession {
			steps = append(steps, scen.Step{Op: "new-session", Salt: salts(ri)})
		} else {
			steps = append(steps, scen.Step{Op: "rotate", Salt: salts(ri)})
		}
		if r.Rejected > 0 && r.HoldRejected {
			// the rejection reaches the client while the rejected sender is still inside the send path
			h := &scen.HoldSpec{Point: "send.written", Tag: tag, Manual: true, Ms: 400}
			steps = append(steps, scen.Step{Op: "hold", Hold: h})
			newCalls(r.Rejected)
			steps = append(steps, scen.Step{Op: "sleep", Ms: 20}, scen.Step{Op: "release", Hold: h})
		} else {
			newCalls(r.Rejected)
		}
		if r.Rejected == 0 {
			// nobody is talking: a request makes the client learn the new salt (and, for new_session_created, its
			// acceptance shows that the announcement has been processed)
			steps = append(steps, scen.Step{Op: "probe"})
		}
		steps = append(steps, scen.Step{Op: "await-requests", N: len(outstanding)})
		steps = append(steps, scen.Step{Op: "session-snapshot", Salt: salts(ri)})
		// answer some of the outstanding requests now, in a drawn order
		n := r.AnswerNow
		if n > len(outstanding) {
			n = len(outstanding)
		}
		order := append([]int{}, outstanding...)
		x := r.Order
		for i := len(order) - 1; i > 0; i-- {
			j := int(x % uint64(i+1))
			x /= uint64(i + 1)
			order[i], order[j] = order[j], order[i]
		}
		for _, tg := range order[:n] {
			steps = append(steps, scen.Step{Op: "answer", Items: []scen.AnsItem{{Tag: tg}}})
		}
		outstanding = order[n:]
	}
	for _, tg := range outstanding {
		steps = append(steps, scen.Step{Op: "answer", Items: []scen.AnsItem{{Tag: tg}}})
	}
	steps = append(steps, scen.Step{Op: "await-calls"}, scen.Step{Op: "probe"})
	if p.Rejections > 0 {
		steps = append(steps, scen.Step{Op: "rotate-rolling", N: p.Rejections})
		newCalls(1)
		steps = append(steps, scen.Step{Op: "await-requests", N: 1}, scen.Step{Op: "session-snapshot", Salt: salts(len(p.Rotations)-1) + int64(p.Rejections)},
			scen.Step{Op: "answer", Items: []scen.AnsItem{{Tag: tag - 1}}}, scen.Step{Op: "await-calls"}, scen.Step{Op: "probe"})
	}
	if p.StoreFault {
		// the disk is full while a salt announced by new_session_created is saved (the client can only warn); when the
		// server names the same salt again in a rejection and the disk has room again, the store must get it
		s := salts(len(p.Rotations) + 7)
		steps = append(steps, scen.Step{Op: "store-fault", N: 1}, scen.Step{Op: "new-session", Salt: s}, scen.Step{Op: "store-fault"},
			scen.Step{Op: "bad-salt", Salt: s, Push: &scen.PushSpec{Kind: "last-ack", Arg: 4 << 32}}, scen.Step{Op: "session-snapshot", Salt: s}, scen.Step{Op: "probe"})
		// and the same while a salt learnt from a rejection is saved: the rejected request is still re-sent and answered
		s2 := s + 1
		steps = append(steps, scen.Step{Op: "store-fault", N: 1}, scen.Step{Op: "rotate", Salt: s2}, scen.Step{Op: "probe"}, scen.Step{Op: "store-fault"},
			scen.Step{Op: "bad-salt", Salt: s2, Push: &scen.PushSpec{Kind: "last-ack", Arg: 4 << 32}}, scen.Step{Op: "session-snapshot", Salt: s2}, scen.Step{Op: "probe"})
	}
	if p.AckRejected {
		last := salts(len(p.Rotations))
		steps = append(steps, scen.Step{Op: "bad-salt", Salt: last, N: p.Burst, Push: &scen.PushSpec{Kind: "last-ack", Arg: 4 << 32}},
			scen.Step{Op: "session-snapshot", Salt: last}, scen.Step{Op: "probe"})
	}
	if p.SaltReturns && !p.Fresh && sc.Resume != nil {
		// the server comes back to the salt the stored session held when the process started (salts are valid for a
		// period each; a server with a small set of them gets round to the first one again): adopted and stored like any other
		steps = append(steps, scen.Step{Op: "rotate", Salt: sc.Resume.Salt}, scen.Step{Op: "probe"}, scen.Step{Op: "session-snapshot", Salt: sc.Resume.Salt}, scen.Step{Op: "probe"})
	}
	sc.RPC.Steps = steps
	b, _ := json.Marshal(p)
	sc.Note = string(b)
	return sc, nil
}

func requests(sc *scen.Scenario) []scen.ReqSpec {
	var out []scen.ReqSpec
	for _, st := range sc.RPC.Steps {
		if st.Op == "call" {
			for _, c := range st.Calls {
				out = append(out, c.Reqs...)
			}
		}
	}
	return out
}

func judge(sc *scen.Scenario, res *scen.Result, runErr error) (string, error) {
	if runErr != nil {
		return "inconclusive", fmt.Errorf("INFRA: %v", runErr)
	}
	if res.Died {
		return "violation", fmt.Errorf("client process died: %s", scen.PanicSite(res.Stderr))
	}
	if !res.Connected {
		if sc.RPC.Fresh {
			return "inconclusive", fmt.Errorf("INFRA: key exchange did not complete (judged by C06): %s %s", res.ConnectErr, res.ConnectPanic)
		}
		return "inconclusive", fmt.Errorf("INFRA: resumed session did not connect: %s %s", res.ConnectErr, res.ConnectPanic)
	}
	// (4) nothing stalls
	if res.Stall != nil && res.Stall.Verdict == "STALL" {
		return "violation", fmt.Errorf("the receive loop stalls: blocked at %s with %d callers waiting", res.Stall.LoopAt, res.Stall.Blocked)
	}
	// (1) a request the server accepted is never sent a second time; a rejected one is re-sent exactly once per rejection
	accepted := map[int]int{}
	for _, ev := range res.Events {
		if ev.Kind == "req" {
			var tag int
			fmt.Sscanf(ev.Note, "tag=%d", &tag)
			accepted[tag]++
		}
		if ev.Kind == "violation" {
			return "violation", fmt.Errorf("server-side validation: %s", ev.Note)
		}
	}
	reqs := requests(sc)
	for _, r := range reqs {
		if accepted[r.Tag] > 1 {
			return "violation", fmt.Errorf("the request with tag %d was accepted by the server %d times: a request the server had already accepted was sent again", r.Tag, accepted[r.Tag])
		}
	}
	// (2) every message written after the client handled a bad_server_salt carries that (or a newer) salt
	saltAt := map[int64]int64{}
	for _, ev := range res.Events {
		if ev.Kind == "enc" {
			saltAt[ev.MsgID] = ev.Salt
		}
	}
	// adoption order of salts as the client's hook log shows it (the hook fires after the salt has been assigned and
	// saved, so a sender may already use a salt whose adoption is logged slightly later: newer is never wrong)
	lastAdoption := map[int64]int{}
	nAdopt := 0
	for _, h := range res.Hooks {
		if h.Point == "salt.adopted" {
			nAdopt++
			lastAdoption[h.Salt] = nAdopt
		}
	}
	seen := 0
	var seenSalt int64
	for _, h := range res.Hooks {
		switch h.Point {
		case "salt.adopted":
			seen++
			seenSalt = h.Salt
		case "send.msgid":
			if seen == 0 {
				continue
			}
			got, ok := saltAt[h.MsgID]
			if !ok {
				continue // the message never reached the server (connection closed)
			}
			if idx, known := lastAdoption[got]; !known || idx < seen {
				return "violation", fmt.Errorf("message %d took its id after the client had adopted salt %d (adoption #%d) but was sent under the older salt %d", h.MsgID, seenSalt, seen, got)
			}
		}
	}
	// (2b) a salt announced by new_session_created counts from the moment the client has dealt with the notification. The
	// acknowledgement naming it is written after that (the client acknowledges a message when it is through with it, and
	// every message is serialised and written under one lock), so that acknowledgement and everything the server receives
	// after it on the connection carries the announced salt or a newer one
	saltOrder := map[int64]int{}
	haveInitial := false
	// older(y, x): y is known to have been retired before x was announced - the salt the session started with, or one the
	// script introduced earlier. A salt the log does not know (the intermediate ones of a burst of notifications) is never
	// called older: it may as well be newer
	older := func(y, x int64) bool {
		oy, known := saltOrder[y]
		return known && oy < saltOrder[x]
	}
	announcedBy := map[int64]int64{} // msg_id of a new_session_created -> salt it announces
	var pendingAnnounce []int64
	mustCarry := map[int]int64{} // connection -> salt announced by an acknowledged notification
	encSalt := map[int64]int64{}
	for _, ev := range res.Events {
		switch ev.Kind {
		case "rotate", "new-session", "bad-salt":
			// the server moves on to another salt (possibly one it has used before): what an earlier notification demanded
			// holds until here only
			mustCarry = map[int]int64{}
			var x int64
			if n, _ := fmt.Sscanf(ev.Note, "salt=%d", &x); n == 1 {
				if _, ok := saltOrder[x]; !ok {
					saltOrder[x] = len(saltOrder) + 1
				}
				if ev.Kind == "new-session" {
					pendingAnnounce = append(pendingAnnounce, x)
				}
			}
		case "sent":
			if ev.Ctor == "9ec20908" && len(pendingAnnounce) > 0 {
				announcedBy[ev.MsgID] = pendingAnnounce[0]
				pendingAnnounce = pendingAnnounce[1:]
			}
		case "enc":
			encSalt[ev.MsgID] = ev.Salt
			if !haveInitial {
				haveInitial = true
				if _, ok := saltOrder[ev.Salt]; !ok {
					saltOrder[ev.Salt] = 0 // the salt the session starts with precedes every announced one
				}
			}
			if b, err := hex.DecodeString(ev.Body); err == nil && ev.Ctor == "62d6b459" && len(b) >= 12 {
				// an acknowledgement (the server reads it whether or not it then rejects the message for its salt)
				for k := 12; k+8 <= len(b); k += 8 {
					if x, ok := announcedBy[int64(binary.LittleEndian.Uint64(b[k:]))]; ok {
						if older(ev.Salt, x) {
							return "violation", fmt.Errorf("the acknowledgement of the new_session_created that announced salt %d was itself sent under the older salt %d: the announced salt was not taken over", x, ev.Salt)
						}
						if saltOrder[mustCarry[ev.Conn]] < saltOrder[x] {
							mustCarry[ev.Conn] = x
						}
					}
				}
			}
			if x, ok := mustCarry[ev.Conn]; ok && older(ev.Salt, x) {
				return "violation", fmt.Errorf("the client had acknowledged the new_session_created that announced salt %d, yet its next message %d went out under the older salt %d: the announced salt was not taken over", x, ev.MsgID, ev.Salt)
			}
		case "ack":
			for _, id := range ev.IDs {
				if x, ok := announcedBy[id]; ok {
					if y, ok := encSalt[ev.MsgID]; ok && older(y, x) {
						return "violation", fmt.Errorf("the acknowledgement of the new_session_created that announced salt %d was itself sent under the older salt %d: the announced salt was not taken over", x, y)
					}
					if saltOrder[mustCarry[ev.Conn]] < saltOrder[x] {
						mustCarry[ev.Conn] = x
					}
				}
			}
		}
	}
	// (5) the adopted salt is written to the session store
	for _, ev := range res.Events {
		if ev.Kind == "session-file" {
			var exists, saltOK bool
			var salt int64
			fmt.Sscanf(ev.Note, "exists=%t salt=%d salt_ok=%t", &exists, &salt, &saltOK)
			want := int64(0)
			// the snapshot follows a rotate/new-session step: find the latest one before it
			for _, e2 := range res.Events {
				if e2.Seq >= ev.Seq {
					break
				}
				if e2.Kind == "rotate" || e2.Kind == "new-session" || e2.Kind == "bad-salt" {
					fmt.Sscanf(e2.Note, "salt=%d", &want)
				}
			}
			if res.Stall == nil && (!exists || !saltOK || salt != want) {
				return "violation", fmt.Errorf("after the rotation to salt %d the session store holds salt %d (file exists: %v)", want, salt, exists)
			}
		}
	}
	if res.Stall != nil {
		if res.Stall.Verdict == "IDLE" {
			returned := map[int]bool{}
			for _, c := range res.Calls {
				returned[c.Tag] = true
			}
			for _, r := range reqs {
				if !returned[r.Tag] {
					return "violation", fmt.Errorf("the caller of tag %d never receives its answer although the client is idle (requests accepted by the server: %v)", r.Tag, accepted)
				}
			}
		}
		return "inconclusive", fmt.Errorf("INFRA: unfinished calls, state inspection: %s %s", res.Stall.Verdict, res.Stall.LoopAt)
	}
	// (3) every caller receives its own answer
	got := map[int]scen.CallResult{}
	for _, c := range res.Calls {
		got[c.Tag] = c
	}
	for _, r := range reqs {
		c, ok := got[r.Tag]
		if !ok {
			return "violation", fmt.Errorf("the call with tag %d never returned", r.Tag)
		}
		if !c.OK || c.Value != scen.Expected(r) {
			return "violation", fmt.Errorf("tag %d (%s): call returned %q err=%q panic=%q, want %s", r.Tag, r.Kind, c.Value, c.Err, c.Panic, scen.Expected(r))
		}
		if accepted[r.Tag] != 1 {
			return "violation", fmt.Errorf("tag %d: accepted %d times", r.Tag, accepted[r.Tag])
		}
	}
	for _, c := range res.Calls {
		if c.Kind == "probe" && !c.OK {
			return "violation", fmt.Errorf("a request issued after the rotation did not complete: %+v", c)
		}
	}
	for _, n := range res.Notes {
		if strings.Contains(n, "requests arrived") || strings.Contains(n, "not pending") || strings.Contains(n, "no connection") || strings.Contains(n, "warm-up") {
			return "inconclusive", fmt.Errorf("INFRA: script could not be played: %s", n)
		}
	}
	return "ok", nil
}

func classes(p Plan) ([]string, bool) {
	var cls []string
	nt := false
	if p.Fresh {
		cls = append(cls, "session:fresh-keyed")
	} else {
		cls = append(cls, "session:resumed")
	}
	if p.AckRejected {
		cls = append(cls, "rejected-message-is-an-ack")
	}
	if p.Burst > 1 {
		cls = append(cls, "salt-notifications-in-a-burst")
	}
	if p.SaltReturns && !p.Fresh {
		cls = append(cls, "server-returns-to-the-salt-stored-at-the-start")
	}
	if p.StoreFault {
		cls = append(cls, "store-fails-once-then-same-salt-again")
	}
	if p.Rejections > 0 {
		cls = append(cls, "same-request-rejected-several-times-in-a-row", fmt.Sprintf("same-request-rejected:%dx", p.Rejections))
	}
	if p.Rejections >= 4 {
		cls = append(cls, "same-request-rejected>=4-times-in-a-row")
	}
	cls = append(cls, fmt.Sprintf("rotations=%d", len(p.Rotations)))
	if len(p.Rotations) >= 2 {
		cls = append(cls, "second-rotation")
	}
	pendingCarried := 0
	for i, r := range p.Rotations {
		if r.Accepted+r.Rejected+pendingCarried > 0 {
			nt = true
		}
		if (r.Accepted+pendingCarried) > 0 && r.Rejected > 0 {
			cls = append(cls, "accepted+rejected-mixed")
		}
		if r.Accepted+pendingCarried > 0 {
			cls = append(cls, "accepted-before-rotation")
		}
		if r.Rejected > 0 {
			cls = append(cls, "rejected-by-rotation")
		}
		if r.Rejected == 0 && r.Accepted+pendingCarried == 0 {
			cls = append(cls, "rotation-with-nothing-pending")
		}
		if r.NewSession {
			cls = append(cls, "salt-by-new_session_created", "new_session_created:unique_id="+map[string]string{"": "fresh", "zero": "0", "same": "repeated"}[p.UID])
		}
		if r.HoldRejected && r.Rejected > 0 && !r.NewSession {
			cls = append(cls, "directed:rejection-while-sender-in-send-path")
		}
		if p.Fresh && i == 0 {
			cls = append(cls, "fresh-keyed+rotation")
		}
		out := r.Accepted + r.Rejected + pendingCarried
		if r.AnswerNow < out {
			pendingCarried = out - r.AnswerNow
			if i+1 < len(p.Rotations) {
				cls = append(cls, "pending-across-two-rotations")
			}
		} else {
			pendingCarried = 0
		}
	}
	return cls, nt
}

func evaluate(sc *scen.Scenario, p Plan) error {
	res, runErr := scen.RunChild(sc, 120*time.Second)
	verdict, err := judge(sc, res, runErr)
	cls, nt := classes(p)
	if sc.Resume != nil && sc.Resume.NoHash {
		cls = append(cls, "session:resumed-stored-without-key-id")
	}
	if sc.ServerClockOffset > 0 {
		cls = append(cls, "server-clock-after-2038")
	}
	b, _ := json.Marshal(sc.RPC.Steps)
	run.Case(verdict != "inconclusive" && nt, evid.Hash(b, p.Fresh), append(cls, "verdict:"+verdict)...)
	run.Sample(map[string]any{"plan": p})
	return err
}

func genPlan(t *rapid.T) Plan {
	p := Plan{Fresh: rapid.IntRange(0, 3).Draw(t, "fresh") == 0}
	k := rapid.IntRange(1, 3).Draw(t, "rotations")
	for i := 0; i < k; i++ {
		p.Rotations = append(p.Rotations, Rotation{Accepted: rapid.IntRange(0, 3).Draw(t, "accepted"), Rejected: rapid.IntRange(0, 3).Draw(t, "rejected"),
			AnswerNow: rapid.IntRange(0, 6).Draw(t, "answernow"), NewSession: rapid.IntRange(0, 5).Draw(t, "newsession") == 0, HoldRejected: rapid.IntRange(0, 2).Draw(t, "holdrejected") == 0,
			Order: rapid.Uint64().Draw(t, "order")})
	}
	p.UID = rapid.SampledFrom([]string{"", "", "zero", "same"}).Draw(t, "new-session-uid")
	p.SaltReturns = rapid.IntRange(0, 2).Draw(t, "salt-returns") == 0
	p.AckRejected = rapid.IntRange(0, 2).Draw(t, "ackrejected") == 0
	p.StoreFault = rapid.IntRange(0, 3).Draw(t, "storefault") == 0
	if rapid.IntRange(0, 2).Draw(t, "rolling") == 0 {
		p.Rejections = rapid.SampledFrom([]int{2, 3, 4, 5, 8, 12}).Draw(t, "rejections")
	}
	if p.AckRejected && rapid.Bool().Draw(t, "burst") {
		p.Burst = rapid.IntRange(2, 6).Draw(t, "nburst")
	}
	nk := rapid.IntRange(1, 4).Draw(t, "nkinds")
	for i := 0; i < nk; i++ {
		p.Kinds = append(p.Kinds, rapid.SampledFrom(scen.ReqKinds).Draw(t, "kind"))
	}
	return p
}

func TestC11(t *testing.T) {
	keys, err := scen.KeyPool()
	if err != nil {
		t.Fatalf("INFRA: %v", err)
	}
	if p := hx.ReplayPath(); p != "" {
		var sc scen.Scenario
		if err := evid.LoadReplay(p, &sc); err != nil {
			t.Fatal(err)
		}
		var plan Plan
		json.Unmarshal([]byte(sc.Note), &plan)
		run.Case(true, 1)
		if err := evaluate(&sc, plan); err != nil {
			if strings.HasPrefix(err.Error(), "INFRA:") {
				t.Fatalf("%v", err)
			}
			run.Violation(sc, err.Error())
			t.Fatalf("replay fails: %v", err)
		}
		return
	}
	nsh := hx.NShards()
	t.Run("small-histories", func(t *testing.T) {
		// every history with k <= 2 rotations and <= 3 requests per rotation side (quick: k=1 and a slice of k=2), all
		// "answer now" counts, a few answer orders
		idx := 0
		var n int64
		var plans []Plan
		for _, fresh := range []bool{false, true} {
			for a := 0; a <= 2; a++ {
				for r := 0; r <= 2; r++ {
					for now := 0; now <= a+r; now++ {
						plans = append(plans, Plan{Fresh: fresh, Rotations: []Rotation{{Accepted: a, Rejected: r, AnswerNow: now, Order: uint64(a*7 + r)}}})
						if r > 0 && now == 0 {
							plans = append(plans, Plan{Fresh: fresh, Rotations: []Rotation{{Accepted: a, Rejected: r, AnswerNow: now, HoldRejected: true, Order: uint64(a*7 + r)}}})
						}
						for a2 := 0; a2 <= 1; a2++ {
							for r2 := 0; r2 <= 1; r2++ {
								plans = append(plans, Plan{Fresh: fresh, Rotations: []Rotation{{Accepted: a, Rejected: r, AnswerNow: now, Order: uint64(now)}, {Accepted: a2, Rejected: r2, AnswerNow: 9, Order: uint64(a2 + 2*r2)}}})
							}
						}
					}
				}
			}
		}
		// salts announced by new_session_created, under every kind of unique_id, once and twice in a row
		for _, uid := range []string{"", "zero", "same"} {
			for r := 0; r <= 1; r++ {
				plans = append(plans, Plan{UID: uid, Rotations: []Rotation{{Accepted: 1, Rejected: r, AnswerNow: 9, NewSession: true}}},
					Plan{UID: uid, Rotations: []Rotation{{Accepted: r, Rejected: 0, AnswerNow: 9, NewSession: true}, {Accepted: 1, Rejected: r, AnswerNow: 9, NewSession: true}}})
			}
		}
		for i := range plans {
			plans[i].AckRejected = i%3 == 1
			if i%6 == 1 {
				plans[i].Burst = 2 + i%4
			}
			plans[i].StoreFault = i%5 == 2
			plans[i].SaltReturns = i%4 == 3
		}
		stride := run.Pick(5, 1)
		for i, p := range plans {
			if i%stride != 0 && len(p.Rotations) > 1 && !p.Rotations[0].NewSession {
				continue
			}
			idx++
			if idx%nsh != run.Shard {
				continue
			}
			sc, err := build(&detSource{seed: run.Seed*13 + uint64(idx)}, keys, p)
			if err != nil {
				t.Fatalf("INFRA: %v", err)
			}
			if p.Burst > 1 {
				sc.GoMaxProcs = 1 // one processor: what the client starts in the background runs in an order of the scheduler's choosing
			}
			n++
			if err := evaluate(sc, p); err != nil {
				if strings.HasPrefix(err.Error(), "INFRA:") {
					t.Logf("inconclusive: %v", err)
					continue
				}
				pp := run.ViolationNamed(fmt.Sprintf("plan%d", i), sc, err.Error())
				t.Errorf("violation (replay %s): %v", pp, err)
				return
			}
		}
		run.Exhaustive("small histories (k<=2 rotations, <=2 accepted x <=2 rejected per rotation, all answer-now counts; fresh and resumed) - this shard's share", n)
	})
	if t.Failed() {
		return
	}
	t.Run("generated", func(t *testing.T) {
		rapid.Check(t, func(t *rapid.T) {
			p := genPlan(t)
			sc, err := build(rapidSource{t}, keys, p)
			if err != nil {
				t.Fatalf("INFRA: %v", err)
			}
			sc.GoMaxProcs = rapid.SampledFrom([]int{1, 2, 16}).Draw(t, "gomaxprocs")
			if err := evaluate(sc, p); err != nil {
				if strings.HasPrefix(err.Error(), "INFRA:") {
					t.Skipf("%v", err)
				}
				hx.Fail(t, run, sc, err)
			}
		})
	})
}
