package c07

import (
	"encoding/json"
	"fmt"
	"strings"
	"testing"
	"time"

	"github.com/xelaj/mtproto/telegram/verifh/hx"
	"github.com/xelaj/mtproto/telegram/verifh/refsrv"
	"github.com/xelaj/mtproto/telegram/verifh/scen"
	"pgregory.net/rapid"
	"verif/evid"
)

var run = evid.New("C07")

func TestMain(m *testing.M) { hx.Main(m, run) }

type detSource struct{ seed uint64 }

func (d *detSource) Bytes(label string, n int) []byte {
	d.seed = d.seed*6364136223846793005 + 1442695040888963407
	return hx.Det(d.seed^evid.Hash(label), n)
}
func (d *detSource) Int(label string, n int) int {
	d.seed = d.seed*6364136223846793005 + 1442695040888963407
	return int(hx.DetU64(d.seed^evid.Hash(label)) % uint64(n))
}

type rapidSource struct{ t *rapid.T }

func (r rapidSource) Bytes(label string, n int) []byte { return hx.FixedBytes(r.t, label, n) }
func (r rapidSource) Int(label string, n int) int      { return rapid.IntRange(0, n-1).Draw(r.t, label) }

// the fault catalogue: exactly the inconsistencies the statement lists
type faultClass struct {
	Step, Field, Kind string
	Bits              int // number of bit positions for flip kinds (0 = not a flip)
}

// rpcErrors: what a server may put into an rpc_error; DC > 0: a conformant reference server is configured for that
// data centre in the client's list
var rpcErrors = []struct {
	Code int32
	Text string
	DC   int
}{{400, "INTERNAL_SERVER_ERROR", 0}, {303, "PHONE_MIGRATE_2", 2}, {303, "PHONE_MIGRATE_9", 0}, {303, "NETWORK_MIGRATE_2", 2}, {303, "USER_MIGRATE_2", 2}, {420, "FLOOD_WAIT_3", 0}, {303, "FILE_MIGRATE_2", 2}, {500, "PHONE_MIGRATE_2", 2}}

// otherObjects: well-formed objects of registered constructors that answer no step of the exchange
var otherObjects = []struct {
	Name string
	Body []byte
}{
	{"null", le32(0x56730bcc)}, {"boolTrue", le32(0x997275b5)}, {"boolFalse", le32(0xbc799737)},
	{"pong", append(le32(0x347773c5), make([]byte, 16)...)}, {"msgs_ack of nothing", append(le32(0x62d6b459), append(le32(0x1cb5c415), 0, 0, 0, 0)...)},
	{"updatesTooLong", le32(0xe317af7e)}, {"new_session_created", append(le32(0x9ec20908), make([]byte, 24)...)},
	{"rpc_result of null", append(append(le32(0xf35c6d01), make([]byte, 8)...), le32(0x56730bcc)...)},
	{"req_pq (the request echoed)", append(le32(0x60469778), make([]byte, 16)...)},
	{"dh_gen_ok with zero fields", append(le32(0x3bcbf734), make([]byte, 48)...)}, {"resPQ with zero fields", append(append(le32(0x05162463), make([]byte, 32)...), append([]byte{0, 0, 0, 0}, append(le32(0x1cb5c415), 0, 0, 0, 0)...)...)},
}

func le32(v uint32) []byte { return []byte{byte(v), byte(v >> 8), byte(v >> 16), byte(v >> 24)} }

var catalogue = []faultClass{
	// a well-formed dh_gen_retry (right nonces, right new_nonce_hash2) once or twice, after which the server accepts whatever
	// the client sends next: the statement lists the retry constructor among the replies that end the exchange
	{"dhGen", "kind", "gen_retry-then-ok", 2},
	{"resPQ", "kind", "other-object", len(otherObjects)}, {"dhParams", "kind", "other-object", len(otherObjects)}, {"dhGen", "kind", "other-object", len(otherObjects)},
	{"resPQ", "nonce", "flip", 128}, {"resPQ", "nonce", "random", 0}, {"resPQ", "nonce", "other", 0}, {"resPQ", "nonce", "zero", 0},
	{"resPQ", "fingerprints", "other-clients-key", 0},
	{"resPQ", "fingerprints", "empty", 0}, {"resPQ", "fingerprints", "one-wrong", 0}, {"resPQ", "fingerprints", "several-wrong", 0}, {"resPQ", "fingerprints", "flip-fp", 64},
	{"dhParams", "nonce", "flip", 128}, {"dhParams", "nonce", "random", 0}, {"dhParams", "nonce", "other", 0}, {"dhParams", "nonce", "zero", 0},
	{"dhParams", "server_nonce", "flip", 128}, {"dhParams", "server_nonce", "random", 0}, {"dhParams", "server_nonce", "other", 0}, {"dhParams", "server_nonce", "zero", 0},
	{"dhParams", "kind", "params_fail", 0},
	{"dhInner", "nonce", "flip", 128}, {"dhInner", "nonce", "random", 0}, {"dhInner", "nonce", "other", 0}, {"dhInner", "nonce", "zero", 0},
	{"dhInner", "server_nonce", "flip", 128}, {"dhInner", "server_nonce", "random", 0}, {"dhInner", "server_nonce", "other", 0}, {"dhInner", "server_nonce", "zero", 0},
	{"dhInner", "sha1", "prefix-flip", 160}, {"dhInner", "sha1", "content-flip", 2400},
	{"dhGen", "nonce", "flip", 128}, {"dhGen", "nonce", "random", 0}, {"dhGen", "nonce", "other", 0}, {"dhGen", "nonce", "zero", 0},
	{"dhGen", "server_nonce", "flip", 128}, {"dhGen", "server_nonce", "random", 0}, {"dhGen", "server_nonce", "other", 0}, {"dhGen", "server_nonce", "zero", 0},
	{"dhGen", "new_nonce_hash", "flip", 128}, {"dhGen", "new_nonce_hash", "hash2", 0}, {"dhGen", "new_nonce_hash", "hash3", 0}, {"dhGen", "new_nonce_hash", "random-hash", 0},
	{"dhGen", "kind", "gen_retry", 0}, {"dhGen", "kind", "gen_fail", 0},
	// the second exchange of the same client object (the application reconnects after the first one failed) is answered
	// with the first exchange's nonce first, as a late reply would be, and conformantly after that
	{"resPQ", "nonce", "previous-exchange", 128},
	// a reply of the wrong kind that is no constructor of the exchange at all: rpc_error, with texts the client handles
	// by itself elsewhere (the "bit" selects the text)
	{"resPQ", "kind", "rpc_error", len(rpcErrors)}, {"dhParams", "kind", "rpc_error", len(rpcErrors)}, {"dhGen", "kind", "rpc_error", len(rpcErrors)},
	// substitution by zero / by the other nonce for the hash too, and partially zeroed values (head or tail kept)
	{"dhGen", "new_nonce_hash", "zero", 0}, {"dhGen", "new_nonce_hash", "other", 0}, {"dhGen", "new_nonce_hash", "zero-head", 15}, {"dhGen", "new_nonce_hash", "zero-tail", 15},
	{"resPQ", "nonce", "zero-head", 15}, {"resPQ", "nonce", "zero-tail", 15},
	{"dhParams", "nonce", "zero-head", 15}, {"dhParams", "server_nonce", "zero-head", 15}, {"dhParams", "nonce", "zero-tail", 15}, {"dhParams", "server_nonce", "zero-tail", 15},
	{"dhInner", "nonce", "zero-head", 15}, {"dhInner", "server_nonce", "zero-head", 15}, {"dhInner", "nonce", "zero-tail", 15}, {"dhInner", "server_nonce", "zero-tail", 15},
	{"dhGen", "nonce", "zero-head", 15}, {"dhGen", "server_nonce", "zero-head", 15}, {"dhGen", "nonce", "zero-tail", 15}, {"dhGen", "server_nonce", "zero-tail", 15},
}

func judge(sc *scen.Scenario, res *scen.Result, runErr error) (string, error) {
	f := sc.Fault
	where := fmt.Sprintf("[%s.%s %s bit %d]", f.Step, f.Field, f.Kind, f.Bit)
	if f.Kind == "rpc_error" {
		where = fmt.Sprintf("[%s answered with rpc_error %d %s]", f.Step, f.Code, f.Text)
	}
	if runErr != nil {
		return "inconclusive", fmt.Errorf("INFRA: %v", runErr)
	}
	if res.Died {
		return "violation", fmt.Errorf("%s client process died: %s", where, scen.PanicSite(res.Stderr))
	}
	if res.ConnectPanic != "" {
		return "violation", fmt.Errorf("%s the inconsistent reply made CreateConnection panic instead of returning an error: %s", where, res.ConnectPanic)
	}
	if res.Connected {
		return "violation", fmt.Errorf("%s key exchange completed although the server's reply was inconsistent", where)
	}
	// abandoned means abandoned: no further step of the exchange follows the inconsistent reply
	forbidden := map[string]string{"resPQ": "d712e4be", "dhParams": "f5045f1f", "dhInner": "f5045f1f"}
	names := map[string]string{"d712e4be": "req_DH_params", "f5045f1f": "set_client_DH_params"}
	for _, ev := range res.Events {
		if ev.Kind == "plain" && ev.Server == "dc-main" && forbidden[f.Step] != "" && ev.Ctor == forbidden[f.Step] {
			return "violation", fmt.Errorf("%s the client went on with the key exchange (%s) after the inconsistent reply", where, names[ev.Ctor])
		}
	}

	if res.ConnectHung {
		return "inconclusive", fmt.Errorf("INFRA: %s connect neither failed nor finished: %v", where, res.Notes)
	}
	if res.ConnectErr == "" {
		return "violation", fmt.Errorf("%s CreateConnection returned nil", where)
	}
	if res.Session != nil && res.Session.Exists {
		return "violation", fmt.Errorf("%s a session was stored by an aborted key exchange (server went on with: %q)", where, sc.Aftermath)
	}
	if sc.PreludeKey != nil {
		ok := false
		for _, n := range res.Notes {
			ok = ok || n == "prelude exchange done"
		}
		if !ok {
			return "inconclusive", fmt.Errorf("INFRA: %s the other client's exchange did not complete: %v", where, res.Notes)
		}
	}
	for _, ev := range res.Events {
		if ev.Server == "prelude" {
			continue
		}
		if ev.Kind == "enc" || (ev.Kind == "violation" && strings.Contains(ev.Note, "encrypted frame")) {
			return "violation", fmt.Errorf("%s the client sent an encrypted message after an inconsistent reply (server went on with: %q)", where, sc.Aftermath)
		}
	}
	return "ok", nil
}

func evaluate(sc *scen.Scenario) error {
	res, runErr := scen.RunChild(sc, 120*time.Second)
	verdict, err := judge(sc, res, runErr)
	b, _ := json.Marshal(sc)
	f := sc.Fault
	cls := []string{"step:" + f.Step, fmt.Sprintf("fault:%s.%s:%s", f.Step, f.Field, f.Kind), "verdict:" + verdict}
	if sc.Baseline != "" {
		cls = append(cls, "baseline:"+sc.Baseline)
	}
	if f.Kind == "rpc_error" && len(sc.HSDCs) > 0 {
		cls = append(cls, "fault:rpc_error-naming-a-configured-data-centre")
	}
	if res != nil && res.ConnectErr != "" {
		cls = append(cls, "client-error:"+strings.SplitN(strings.TrimPrefix(res.ConnectErr, "making auth key: "), ":", 3)[0])
	}
	if res != nil {
		for _, n := range res.Notes {
			if strings.HasPrefix(n, "aftermath sent") {
				cls = append(cls, n)
			}
		}
	}
	run.Case(verdict != "inconclusive", evid.Hash(b), cls...)
	errText := ""
	if res != nil {
		errText = res.ConnectErr
	}
	run.Sample(map[string]any{"fault": f, "client_error": errText})
	return err
}

func build(src scen.Source, keys []refsrv.RSAKeyJSON, fc faultClass, bit int) (*scen.Scenario, error) {
	sc, err := scen.BuildHandshake(src, keys, scen.Corner{}, false)
	if err != nil {
		return nil, err
	}
	// the factorisation is not what this property is about: keep it cheap
	sc.HS.P, sc.HS.Q = 1000003, 1000033
	sc.Probe = false
	sc.Fault = &refsrv.Fault{Step: fc.Step, Field: fc.Field, Kind: fc.Kind, Bit: bit, Rand: src.Bytes("faultrand", 16)}
	if fc.Kind == "rpc_error" {
		re := rpcErrors[bit%len(rpcErrors)]
		sc.Fault.Code, sc.Fault.Text = re.Code, re.Text
		if re.DC > 0 {
			sc.HSDCs = []int{re.DC}
		}
	}
	if fc.Kind == "gen_retry-then-ok" {
		sc.HS.RetryFirst = 1 + bit%2
	}
	if fc.Kind == "other-object" {
		sc.Fault.Raw, sc.Fault.Text = otherObjects[bit%len(otherObjects)].Body, otherObjects[bit%len(otherObjects)].Name
	}
	if fc.Kind == "other-clients-key" {
		// a second client object of the process, configured with another key, has already used it; the server under test
		// offers the fingerprint of that key only
		var other refsrv.RSAKeyJSON
		for _, k := range keys {
			if k.Key().Fingerprint() != sc.RSA.Key().Fingerprint() {
				other = k
				break
			}
		}
		sc.PreludeKey = &other
		sc.Fault.OtherFP = other.Key().Fingerprint()
	}
	return sc, nil
}

// zeroBaseline makes the legitimate server_nonce (or, through the injection hook, the client's nonce) of the exchange zero.
func zeroBaseline(sc *scen.Scenario, baseline string, src scen.Source, keys []refsrv.RSAKeyJSON, fc faultClass, bit int) {
	switch baseline {
	case "zero-server_nonce":
		sc.HS.ServerNonce = make([]byte, 16)
		sc.Baseline = baseline
	case "zero-nonce":
		if inj, err := scen.BuildHandshake(src, keys, scen.Corner{}, true); err == nil && inj.Draws != nil {
			sc.Draws = inj.Draws
			sc.Draws.Nonce = make([]byte, 16)
			sc.Baseline = baseline
		}
	}
}

func TestC07(t *testing.T) {
	keys, err := scen.KeyPool()
	if err != nil {
		t.Fatalf("INFRA: %v", err)
	}
	if p := hx.ReplayPath(); p != "" {
		var sc scen.Scenario
		if err := evid.LoadReplay(p, &sc); err != nil {
			t.Fatal(err)
		}
		run.Case(true, 1)
		if err := evaluate(&sc); err != nil {
			if strings.HasPrefix(err.Error(), "INFRA:") {
				t.Fatalf("%v", err)
			}
			run.Violation(sc, err.Error())
			t.Fatalf("replay fails: %v", err)
		}
		return
	}
	nsh := hx.NShards()
	t.Run("catalogue", func(t *testing.T) {
		idx := 0
		var n int64
		failedClass := map[string]bool{}
		lastStep := 0
		for ci, fc := range catalogue {
			var bits []int
			switch {
			case fc.Bits == 0:
				bits = []int{0}
			case (run.Thorough() && fc.Bits <= 160) || fc.Kind == "other-object" || fc.Kind == "gen_retry-then-ok":
				for b := 0; b < fc.Bits; b++ {
					bits = append(bits, b)
				}
			default:
				k := run.Pick(6, 160)
				for j := 0; j < k; j++ {
					bits = append(bits, int(hx.DetU64(run.Seed*131+uint64(ci*1000+j))%uint64(fc.Bits)))
				}
				bits = append(bits, 0, fc.Bits-1)
			}
			// the same fault against a baseline in which the legitimate value of one nonce is zero (as good a random number
			// as any other; a "not known yet" marker for some programs): one more case per class that does not substitute zero
			baselines := []string{""}
			if (fc.Field == "nonce" || fc.Field == "server_nonce") && (fc.Kind == "flip" || fc.Kind == "random" || fc.Kind == "other") {
				baselines = append(baselines, "zero-server_nonce", "zero-nonce")
			}
			for bi, bit := range bits {
				for _, baseline := range baselines {
					if baseline != "" && bi != 0 {
						continue
					}
					idx++
					if idx%nsh != run.Shard {
						continue
					}
					key := fc.Step + fc.Field + fc.Kind + baseline
					if failedClass[key] {
						continue // one reproduction per fault class is enough
					}
					sc, err := build(&detSource{seed: run.Seed*7 + uint64(idx)}, keys, fc, bit)
					if err != nil {
						t.Fatalf("INFRA: %v", err)
					}
					zeroBaseline(sc, baseline, &detSource{seed: run.Seed*7 + uint64(idx)}, keys, fc, bit)
					// the server considers the key established once it answered the last step: it may go on speaking
					sc.Aftermath = []string{"", "new-session", "bad-salt", "update", "close", "app-reconnect"}[idx/nsh%6]
					if fc.Step == "dhGen" {
						// only after the last step does the server hold a key to speak with: every continuation is played by
						// every run (this shard's k-th such case takes continuation k + shard)
						sc.Aftermath = []string{"new-session", "bad-salt", "update", "close", "app-reconnect", ""}[(lastStep+run.Shard)%6]
						lastStep++
					}
					if fc.Kind == "previous-exchange" {
						sc.Aftermath = "app-reconnect"
					}
					n++
					if err := evaluate(sc); err != nil {
						if strings.HasPrefix(err.Error(), "INFRA:") {
							t.Fatalf("%v", err)
						}
						failedClass[key] = true
						p := run.ViolationNamed(fmt.Sprintf("%s-%s-%s-%d%s", fc.Step, fc.Field, fc.Kind, bit, baseline), sc, err.Error())
						t.Errorf("violation (replay %s): %v", p, err)
					}
				}
			}
		}
		run.Exhaustive("fault catalogue (step x field x corruption; all bit positions of <=160-bit fields in the thorough tier) - this shard's share", n)
	})
	if t.Failed() {
		return
	}
	t.Run("generated", func(t *testing.T) {
		rapid.Check(t, func(t *rapid.T) {
			fc := catalogue[rapid.IntRange(0, len(catalogue)-1).Draw(t, "fault")]
			bit := 0
			if fc.Bits > 0 {
				bit = rapid.IntRange(0, fc.Bits-1).Draw(t, "bit")
			}
			sc, err := build(rapidSource{t}, keys, fc, bit)
			if err != nil {
				t.Fatalf("INFRA: %v", err)
			}
			// vary the baseline too: prime sizes, padding, g
			if rapid.Bool().Draw(t, "otherprimes") {
				sc.HS.P, sc.HS.Q = 65537, 4294967291
			}
			if (fc.Field == "nonce" || fc.Field == "server_nonce") && (fc.Kind == "flip" || fc.Kind == "random" || fc.Kind == "other") {
				zeroBaseline(sc, rapid.SampledFrom([]string{"", "", "zero-server_nonce", "zero-nonce"}).Draw(t, "baseline"), rapidSource{t}, keys, fc, bit)
			}
			sc.Aftermath = rapid.SampledFrom([]string{"", "new-session", "bad-salt", "update", "close", "app-reconnect"}).Draw(t, "aftermath")
			if fc.Kind == "previous-exchange" {
				sc.Aftermath = "app-reconnect"
			}
			if err := evaluate(sc); err != nil {
				if strings.HasPrefix(err.Error(), "INFRA:") {
					t.Skipf("%v", err)
				}
				hx.Fail(t, run, sc, err)
			}
		})
	})
}
