package c04

import (
	"bytes"
	"encoding/binary"
	"encoding/json"
	"fmt"
	"strings"
	"sync"
	"testing"
	"time"

	"github.com/xelaj/mtproto/internal/mtproto/messages"
	"github.com/xelaj/mtproto/telegram/verifh/hx"
	"github.com/xelaj/mtproto/telegram/verifh/ref"
	"github.com/xelaj/mtproto/telegram/verifh/scen"
	"pgregory.net/rapid"
	"verif/evid"
)

var run = evid.New("C04")

func TestMain(m *testing.M) { hx.Main(m, run) }

// Case: the receiver's key and the bytes it is handed; Fault describes how Data was derived (documentation only).
type Case struct {
	Key   []byte
	Data  []byte
	Fault string
	Plain bool // Data is handed to DeserializeUnencrypted
}

// decide is the reference reading of the statement's four conditions.
func decide(key, data []byte) (ref.Envelope, bool) {
	var e ref.Envelope
	if len(key) != 256 {
		return e, false // no session key (the key exchange is still going on): no key id can match it
	}
	if len(data) < 24 || !bytes.Equal(data[:8], ref.AuthKeyID(key)) {
		return e, false
	}
	enc := data[24:]
	if len(enc) == 0 || len(enc)%16 != 0 {
		return e, false
	}
	k, iv := ref.KDF1(key, data[8:24], 8)
	pt, err := ref.IGEDecrypt(k, iv, enc)
	if err != nil || len(pt) < 32 {
		return e, false
	}
	l := int64(int32(binary.LittleEndian.Uint32(pt[28:])))
	if l < 0 || 32+l > int64(len(pt)) {
		return e, false
	}
	if !bytes.Equal(ref.SHA1(pt[:32+l])[4:20], data[8:24]) {
		return e, false
	}
	e.Salt = int64(binary.LittleEndian.Uint64(pt[0:]))
	e.Session = int64(binary.LittleEndian.Uint64(pt[8:]))
	e.MsgID = int64(binary.LittleEndian.Uint64(pt[16:]))
	e.SeqNo = int32(binary.LittleEndian.Uint32(pt[24:]))
	e.Body = pt[32 : 32+l]
	if m := e.MsgID & 3; m != 1 && m != 3 {
		return e, false
	}
	return e, true
}

func decidePlain(data []byte) (int64, []byte, bool) {
	if len(data) < 20 {
		return 0, nil, false
	}
	id := int64(binary.LittleEndian.Uint64(data[8:]))
	if m := id & 3; m != 1 && m != 3 {
		return 0, nil, false
	}
	l := binary.LittleEndian.Uint32(data[16:])
	if int64(l) != int64(len(data)-20) {
		return 0, nil, false
	}
	return id, data[20:], true
}

// kept: messages the deserialisers have handed out; they must stay what they were while further packets are handled
var kept hx.Retain

func oracle(c Case) error {
	if err := oracleOne(c); err != nil {
		return err
	}
	return kept.Verify()
}

func oracleOne(c Case) error {
	return hx.Safely(func() error {
		if c.Plain {
			id, body, ok := decidePlain(c.Data)
			m, err := messages.DeserializeUnencrypted(append([]byte{}, c.Data...))
			if !ok {
				if err == nil {
					return fmt.Errorf("[%s] inconsistent plain packet accepted as msg_id=%d body[%d]", c.Fault, m.MsgID, len(m.Msg))
				}
				return nil
			}
			if err != nil {
				return fmt.Errorf("[%s] consistent plain packet refused: %v", c.Fault, err)
			}
			if m.MsgID != id || !bytes.Equal(m.Msg, body) {
				return fmt.Errorf("[%s] plain packet opened to a different message", c.Fault)
			}
			kept.Keep("the body of an accepted plain message", func() []byte { return m.Msg })
			return nil
		}
		want, ok := decide(c.Key, c.Data)
		in := append(make([]byte, 0, len(c.Data)+16), c.Data...)
		m, err := messages.DeserializeEncrypted(in, append([]byte{}, c.Key...))
		// the caller's receive buffer: handed over a second time it gets the same verdict, and afterwards it is used for
		// the next packet
		if m2, err2 := messages.DeserializeEncrypted(in, append([]byte{}, c.Key...)); (err == nil) != (err2 == nil) || (err == nil && !bytes.Equal(m.Msg, m2.Msg)) {
			return fmt.Errorf("[%s] the same buffer handed to DeserializeEncrypted twice: first %v, then %v", c.Fault, err, err2)
		}
		hx.Scribble(in)
		if !ok {
			if err == nil {
				return fmt.Errorf("[%s] packet that fails the acceptance conditions yielded a message (msg_id=%d seq_no=%d body[%d])", c.Fault, m.MsgID, m.SeqNo, len(m.Msg))
			}
			return nil
		}
		if err != nil {
			return fmt.Errorf("[%s] packet that satisfies all four conditions was refused: %v", c.Fault, err)
		}
		if m.Salt != want.Salt || m.SessionID != want.Session || m.MsgID != want.MsgID || m.SeqNo != want.SeqNo || !bytes.Equal(m.Msg, want.Body) {
			return fmt.Errorf("[%s] yielded a message different from the sealed one", c.Fault)
		}
		kept.Keep("the body of an accepted message", func() []byte { return m.Msg })
		return nil
	})
}

func eval(c Case, changed bool, classes ...string) error {
	run.Case(changed, evid.Hash(c.Key, c.Data, c.Plain), classes...)
	return oracle(c)
}

type base struct {
	Key, Other []byte
	Env        ref.Envelope
	Pad        []byte
	Garbage    []byte
}

func genBase(t *rapid.T) base {
	var b base
	b.Key = hx.FixedBytes(t, "key", 256)
	b.Other = hx.FixedBytes(t, "otherkey", 256)
	b.Other[0] ^= 1
	b.Env = ref.Envelope{Salt: rapid.Int64().Draw(t, "salt"), Session: rapid.Int64().Draw(t, "session"),
		MsgID: rapid.Int64().Draw(t, "msgid")&^3 | rapid.SampledFrom([]int64{1, 3}).Draw(t, "parity"), SeqNo: rapid.Int32().Draw(t, "seq")}
	b.Env.Body = hx.Bytes(t, "body", run.Pick(200, 2048), 0, 4, 16, 200)
	b.Pad = hx.FixedBytes(t, "pad", 16)
	b.Garbage = hx.FixedBytes(t, "garbage", 16+16*rapid.IntRange(1, 8).Draw(t, "gblocks"))
	return b
}

func region(pos, total int) string {
	switch {
	case pos < 8:
		return "keyid"
	case pos < 24:
		return "msgkey"
	default:
		return "ciphertext"
	}
}

// faults enumerates the faulty variants of one valid packet and evaluates each; returns the first failure.
func faults(t *rapid.T, b base) (Case, error) {
	pkt := ref.Seal(b.Key, b.Env, 8, b.Pad)
	c := Case{Key: b.Key, Data: pkt, Fault: "none (valid packet)"}
	if err := eval(c, false, "valid"); err != nil {
		return c, err
	}
	// every single-bit flip (exhaustive for packets <= 256 bytes, else 256 drawn positions + all header bits)
	var positions []int
	if len(pkt) <= 256 {
		for i := 0; i < len(pkt)*8; i++ {
			positions = append(positions, i)
		}
		run.Exhaustive("single-bit flips of packets <= 256 bytes", int64(len(positions)))
	} else {
		for i := 0; i < 24*8; i++ {
			positions = append(positions, i)
		}
		for _, p := range rapid.SliceOfN(rapid.IntRange(24*8, len(pkt)*8-1), 128, 128).Draw(t, "flips") {
			positions = append(positions, p)
		}
	}
	for _, p := range positions {
		d := append([]byte{}, pkt...)
		d[p/8] ^= 1 << (p % 8)
		c = Case{Key: b.Key, Data: d, Fault: fmt.Sprintf("bit flip at bit %d (%s)", p, region(p/8, len(pkt)))}
		if err := eval(c, true, "flip:"+region(p/8, len(pkt))); err != nil {
			return c, err
		}
	}
	// every truncation length
	for l := 0; l < len(pkt); l++ {
		c = Case{Key: b.Key, Data: append([]byte{}, pkt[:l]...), Fault: fmt.Sprintf("truncated to %d of %d bytes", l, len(pkt))}
		cl := "trunc:>=24"
		if l < 24 && l >= 8 {
			cl = "trunc:8..23-with-valid-keyid"
		} else if l < 8 {
			cl = "trunc:<8"
		}
		if err := eval(c, true, cl); err != nil {
			return c, err
		}
	}
	run.Exhaustive("truncation lengths 0..len-1", int64(len(pkt)))
	// appended bytes
	for _, extra := range []int{1, 4, 15, 16, 32} {
		c = Case{Key: b.Key, Data: append(append([]byte{}, pkt...), b.Garbage[:extra]...), Fault: fmt.Sprintf("%d bytes appended", extra)}
		if err := eval(c, true, "extended"); err != nil {
			return c, err
		}
	}
	// re-keyed: sealed under another key, receiver's key id spliced in
	d := ref.Seal(b.Other, b.Env, 8, b.Pad)
	copy(d[:8], ref.AuthKeyID(b.Key))
	c = Case{Key: b.Key, Data: d, Fault: "sealed under another key, receiver's key id spliced in"}
	if err := eval(c, true, "rekeyed"); err != nil {
		return c, err
	}
	c = Case{Key: b.Key, Data: ref.Seal(b.Other, b.Env, 8, b.Pad), Fault: "sealed under another key (foreign key id)"}
	if err := eval(c, true, "foreign-keyid"); err != nil {
		return c, err
	}
	c = Case{Key: b.Key, Data: ref.Seal(b.Key, b.Env, 0, b.Pad), Fault: "sealed for the client-to-server direction (reflection)"}
	if err := eval(c, true, "reflected"); err != nil {
		return c, err
	}
	// block-aligned garbage under the right key id
	for n := 16; n <= len(b.Garbage); n += 16 {
		d = append(append([]byte{}, ref.AuthKeyID(b.Key)...), b.Garbage[:n]...)
		c = Case{Key: b.Key, Data: d, Fault: fmt.Sprintf("right key id + %d garbage bytes", n)}
		if err := eval(c, true, "garbage"); err != nil {
			return c, err
		}
	}
	// the receiver has no session key yet (a packet that arrives during the key exchange): whatever the key id says -
	// the digest of the empty string included - there is nothing it could match
	for _, nokey := range [][]byte{nil, {}} {
		for n := 0; n <= len(b.Garbage) && n <= 80; n += 16 {
			d = append(append([]byte{}, ref.SHA1(nil)[12:20]...), b.Garbage[:n]...)
			c = Case{Key: nokey, Data: d, Fault: fmt.Sprintf("receiver without a session key: key id of the empty key + %d bytes", n)}
			if err := eval(c, true, "no-session-key"); err != nil {
				return c, err
			}
		}
		d = append([]byte{}, pkt...)
		copy(d[:8], ref.SHA1(nil)[12:20])
		for _, dd := range [][]byte{d, pkt} {
			c = Case{Key: nokey, Data: dd, Fault: "receiver without a session key: well-formed packet of another session"}
			if err := eval(c, true, "no-session-key"); err != nil {
				return c, err
			}
		}
	}
	// attacker holding the key: well-sealed plaintext with an inconsistent declared length
	pt := make([]byte, 0, 64+len(b.Env.Body))
	pt = binary.LittleEndian.AppendUint64(pt, uint64(b.Env.Salt))
	pt = binary.LittleEndian.AppendUint64(pt, uint64(b.Env.Session))
	pt = binary.LittleEndian.AppendUint64(pt, uint64(b.Env.MsgID))
	pt = binary.LittleEndian.AppendUint32(pt, uint32(b.Env.SeqNo))
	pt = binary.LittleEndian.AppendUint32(pt, 0)
	pt = append(pt, b.Env.Body...)
	for i := 0; len(pt)%16 != 0; i++ {
		pt = append(pt, b.Pad[i%16])
	}
	area := len(pt) - 32
	ls := []int64{-1 << 31, -1, 1<<31 - 1, 1 << 30, -32, -33}
	for dlt := -33; dlt <= 33; dlt++ {
		ls = append(ls, int64(area+dlt))
	}
	for _, l := range ls {
		p2 := append([]byte{}, pt...)
		binary.LittleEndian.PutUint32(p2[28:], uint32(int32(l)))
		// msg_key over whatever the receiver could hash: the declared range when it is inside, else everything / the header
		var hashLens []int
		if l >= 0 && 32+l <= int64(len(p2)) {
			hashLens = []int{int(32 + l)}
		} else {
			hashLens = []int{len(p2), 32}
		}
		for _, hl := range hashLens {
			c = Case{Key: b.Key, Data: ref.SealRaw(b.Key, p2, hl, 8), Fault: fmt.Sprintf("attacker with key: declared length %d, data area %d bytes, msg_key over %d bytes", l, area, hl)}
			cl := "attacker:L-in-range"
			switch {
			case l < 0:
				cl = "attacker:L<0"
			case 32+l > int64(len(p2)) && l <= int64(area)+33:
				cl = "attacker:L-just-above"
			case 32+l > int64(len(p2)):
				cl = "attacker:L-huge"
			}
			if err := eval(c, true, cl); err != nil {
				return c, err
			}
		}
	}
	// correctly sealed, every combination of the two parity bits with the sign bit of msg_id (00 and 10 must be refused)
	for _, low := range []int64{0, 1, 2, 3} {
		for _, sign := range []bool{false, true} {
			e2 := b.Env
			e2.MsgID = e2.MsgID&^3&^(-1<<63) | low
			if sign {
				e2.MsgID |= -1 << 63
			}
			c = Case{Key: b.Key, Data: ref.Seal(b.Key, e2, 8, b.Pad), Fault: fmt.Sprintf("correctly sealed, msg_id %d (low bits %02b, sign bit %v)", e2.MsgID, low, sign)}
			if err := eval(c, low%2 == 0, fmt.Sprintf("parity:low=%02b,negative=%v", low, sign)); err != nil {
				return c, err
			}
		}
	}
	run.Exhaustive("parity bits x sign bit of msg_id, encrypted and plain", 16)
	// plain packets
	pl := make([]byte, 8, 24+len(b.Env.Body))
	pl = binary.LittleEndian.AppendUint64(pl, uint64(b.Env.MsgID))
	pl = binary.LittleEndian.AppendUint32(pl, uint32(len(b.Env.Body)))
	pl = append(pl, b.Env.Body...)
	c = Case{Plain: true, Data: pl, Fault: "valid plain packet"}
	if err := eval(c, false, "plain:valid"); err != nil {
		return c, err
	}
	for _, dl := range []int64{-1, 1, 4, -4, 1 << 31, 0xffffffff - int64(len(b.Env.Body))} {
		d := append([]byte{}, pl...)
		binary.LittleEndian.PutUint32(d[16:], uint32(int64(len(b.Env.Body))+dl))
		c = Case{Plain: true, Data: d, Fault: fmt.Sprintf("plain packet declaring length off by %d", dl)}
		if err := eval(c, true, "plain:bad-length"); err != nil {
			return c, err
		}
	}
	for l := 0; l < 20 && l < len(pl); l++ {
		c = Case{Plain: true, Data: append([]byte{}, pl[:l]...), Fault: fmt.Sprintf("plain packet truncated to %d bytes", l)}
		if err := eval(c, true, "plain:truncated-header"); err != nil {
			return c, err
		}
	}
	for _, low := range []int64{0, 1, 2, 3} {
		for _, sign := range []bool{false, true} {
			id := b.Env.MsgID&^3&^(-1<<63) | low
			if sign {
				id |= -1 << 63
			}
			d2 := append([]byte{}, pl...)
			binary.LittleEndian.PutUint64(d2[8:], uint64(id))
			c = Case{Plain: true, Data: d2, Fault: fmt.Sprintf("plain packet with msg_id %d (low bits %02b, sign bit %v)", id, low, sign)}
			if err := eval(c, low%2 == 0, fmt.Sprintf("plain:parity:low=%02b,negative=%v", low, sign)); err != nil {
				return c, err
			}
		}
	}
	return c, nil
}

func TestC04(t *testing.T) {
	if p := hx.ReplayPath(); p != "" {
		var cl struct{ ClientLevel *clientCase }
		if err := evid.LoadReplay(p, &cl); err == nil && cl.ClientLevel != nil {
			run.Case(true, 1)
			run.Case(true, 2)
			if err := evalClient(*cl.ClientLevel); err != nil {
				if strings.HasPrefix(err.Error(), "INFRA:") {
					t.Fatalf("%v", err)
				}
				run.Violation(map[string]any{"ClientLevel": cl.ClientLevel}, err.Error())
				t.Fatalf("replay fails: %v", err)
			}
			return
		}
		var kc struct{ Keys *keysCase }
		if err := evid.LoadReplay(p, &kc); err == nil && kc.Keys != nil {
			run.Case(true, 1)
			run.Case(true, 2)
			if err := evalKeys(*kc.Keys); err != nil {
				run.Violation(map[string]any{"Keys": kc.Keys}, err.Error())
				t.Fatalf("replay fails: %v", err)
			}
			return
		}
		var c Case
		if err := evid.LoadReplay(p, &c); err != nil {
			t.Fatal(err)
		}
		run.Case(true, 1)
		run.Case(true, 2)
		run.Sample(map[string]any{"fault": c.Fault, "len": len(c.Data)})
		if err := oracle(c); err != nil {
			run.Violation(c, err.Error())
			t.Fatalf("replay fails: %v", err)
		}
		return
	}
	rapid.Check(t, func(t *rapid.T) {
		b := genBase(t)
		c, err := faults(t, b)
		run.Sample(map[string]any{"body_len": len(b.Env.Body), "msg_id": b.Env.MsgID, "seq_no": b.Env.SeqNo, "last_fault": c.Fault})
		if err != nil {
			hx.Fail(t, run, c, err)
		}
	})
}

// ---------- several sessions with different keys in one process, used at the same time ----------

// keysCase: Workers goroutines, each the receiver of its own session (its own 256-byte key), open Rounds times in turn
// a packet sealed for them and the same packet with the key id of the next session's key written over its own.
type keysCase struct {
	Seed    uint64
	Workers int
	Rounds  int
}

func evalKeys(kc keysCase) error {
	type sess struct {
		key, good, forged []byte
		env               ref.Envelope
	}
	ss := make([]sess, kc.Workers)
	for i := range ss {
		ss[i].key = hx.Det(kc.Seed*31+uint64(i)+1, 256)
		ss[i].env = ref.Envelope{Salt: int64(kc.Seed) + 5, Session: int64(i) + 77, MsgID: int64(kc.Seed)<<8 | 1, SeqNo: int32(2*i + 1), Body: hx.Det(kc.Seed+uint64(i)+900, 4*(i+1))}
		ss[i].good = ref.Seal(ss[i].key, ss[i].env, 8, hx.Det(kc.Seed+uint64(i), 16))
	}
	for i := range ss {
		ss[i].forged = append([]byte{}, ss[i].good...)
		copy(ss[i].forged, ref.AuthKeyID(ss[(i+1)%len(ss)].key))
	}
	errs := make(chan error, kc.Workers)
	var wg sync.WaitGroup
	for w := range ss {
		wg.Add(1)
		go func(w int) {
			defer wg.Done()
			s := ss[w]
			errs <- hx.Safely(func() error {
				for r := 0; r < kc.Rounds; r++ {
					m, err := messages.DeserializeEncrypted(append([]byte{}, s.good...), s.key)
					if err != nil {
						return fmt.Errorf("session %d of %d (round %d): a packet that satisfies all four conditions under this session's key was refused: %v", w, kc.Workers, r, err)
					}
					if m.MsgID != s.env.MsgID || m.SessionID != s.env.Session || !bytes.Equal(m.Msg, s.env.Body) {
						return fmt.Errorf("session %d of %d (round %d): yielded a message different from the sealed one", w, kc.Workers, r)
					}
					if m, err := messages.DeserializeEncrypted(append([]byte{}, s.forged...), s.key); err == nil {
						return fmt.Errorf("session %d of %d (round %d): a packet whose key id is that of another session's key was accepted (msg_id=%d body[%d])", w, kc.Workers, r, m.MsgID, len(m.Msg))
					}
				}
				return nil
			})
		}(w)
	}
	wg.Wait()
	close(errs)
	for err := range errs {
		if err != nil {
			return err
		}
	}
	return nil
}

func TestC04Keys(t *testing.T) {
	if hx.ReplayPath() != "" {
		return
	}
	for i, workers := range []int{2, 2, 3, 16} {
		kc := keysCase{Seed: run.Seed*7 + uint64(run.Shard)*1009 + uint64(i), Workers: workers, Rounds: run.Pick(30000, 400000) / workers}
		run.Case(true, evid.Hash("keys", kc.Seed, kc.Workers), "sessions-with-different-keys-at-once")
		run.Class("keys:openings", int64(2*kc.Rounds*kc.Workers))
		if err := evalKeys(kc); err != nil {
			p := run.ViolationNamed(fmt.Sprintf("keys-%d", i), map[string]any{"Keys": kc}, err.Error())
			t.Fatalf("violation (replay %s): %v", p, err)
		}
	}
}

// ---------- client level: forged / corrupted packets sent to a live client ----------

type clientCase struct {
	Scenario *scen.Scenario
	Attack   string
	Run      int `json:",omitempty"` // bad packets in a row
}

func judgeClient(c clientCase, res *scen.Result, runErr error) (string, error) {
	if runErr != nil {
		return "inconclusive", fmt.Errorf("INFRA: %v", runErr)
	}
	if res.Died {
		return "violation", fmt.Errorf("[%s] the packet killed the client process: %s", c.Attack, scen.PanicSite(res.Stderr))
	}
	if !res.Connected {
		return "inconclusive", fmt.Errorf("INFRA: not connected: %s", res.ConnectErr)
	}
	if res.Stall != nil {
		if res.Stall.Verdict == "STALL" || res.Stall.Verdict == "IDLE" {
			return "violation", fmt.Errorf("[%s] after the packet the genuine answer is never delivered (receive loop %s at %s)", c.Attack, res.Stall.Verdict, res.Stall.LoopAt)
		}
		return "inconclusive", fmt.Errorf("INFRA: unfinished: %s", res.Stall.LoopAt)
	}
	for _, cr := range res.Calls {
		if cr.Kind == "probe" {
			if !cr.OK {
				return "violation", fmt.Errorf("[%s] a later request did not complete: %+v", c.Attack, cr)
			}
			continue
		}
		want := scen.Expected(scen.ReqSpec{Tag: cr.Tag, Kind: cr.Kind})
		if !cr.OK || cr.Value != want {
			return "violation", fmt.Errorf("[%s] the call with tag %d received %q (err %q) - the key holder sealed %s", c.Attack, cr.Tag, cr.Value, cr.Err, want)
		}
	}
	for _, n := range res.Notes {
		if strings.Contains(n, "not pending") || strings.Contains(n, "no connection") || strings.Contains(n, "warm-up") {
			return "inconclusive", fmt.Errorf("INFRA: %s", n)
		}
	}
	return "ok", nil
}

type rapidSource struct{ t *rapid.T }

func (r rapidSource) Bytes(label string, n int) []byte { return hx.FixedBytes(r.t, label, n) }
func (r rapidSource) Int(label string, n int) int      { return rapid.IntRange(0, n-1).Draw(r.t, label) }

func evalClient(c clientCase) error {
	res, runErr := scen.RunChild(c.Scenario, 120*time.Second)
	verdict, err := judgeClient(c, res, runErr)
	b, _ := json.Marshal(c.Scenario.RPC.Steps)
	cls := []string{"client:" + c.Attack, "client-verdict:" + verdict}
	if c.Run >= 45 {
		cls = append(cls, "client:>=45-bad-packets-in-a-row")
	}
	run.Case(verdict != "inconclusive", evid.Hash(b, c.Scenario.Resume.AuthKey), cls...)
	return err
}

var clientAttacks = []string{"forged-plain-result", "corrupted-result", "mangled:flip", "mangled:truncate", "mangled:append", "mangled:garbage", "mangled:rekey",
	"mangled:reflect", "mangled:evenid", "mangled:badlen"}

func TestC04Client(t *testing.T) {
	if p := hx.ReplayPath(); p != "" {
		return // client-level replays run through TestC04's replay entry (kind field)
	}
	rapid.Check(t, func(t *rapid.T) {
		s := rapidSource{t}
		sc := scen.NewResumed(s)
		kind := rapid.SampledFrom(scen.ReqKinds).Draw(t, "kind")
		tag := 2 * rapid.IntRange(1, 500).Draw(t, "tag")
		attack := rapid.SampledFrom(clientAttacks).Draw(t, "attack")
		push := &scen.PushSpec{Kind: attack, Arg: int64(tag)}
		if attack == "corrupted-result" {
			bit := rapid.IntRange(0, 2000).Draw(t, "bit")
			push.Body = []byte{byte(bit >> 8), byte(bit)}
		}
		if strings.HasPrefix(attack, "mangled:") {
			a, b := rapid.IntRange(0, 65535).Draw(t, "a"), rapid.IntRange(0, 65535).Draw(t, "b")
			push.Body = append([]byte{byte(a >> 8), byte(a), byte(b >> 8), byte(b)}, hx.FixedBytes(t, "noise", 8)...)
		}
		sc.RPC.Steps = []scen.Step{
			{Op: "call", Calls: []scen.CallSpec{{Caller: 0, Reqs: []scen.ReqSpec{{Tag: tag, Kind: kind}}}}},
			{Op: "await-requests", N: 1},
			{Op: "push", Push: push},
		}
		runLen := 1
		if strings.HasPrefix(attack, "mangled:") && rapid.IntRange(0, 3).Draw(t, "in-a-row") == 0 {
			// somebody on the path keeps at it: dozens of bad packets in a row, nothing genuine in between
			runLen = rapid.SampledFrom([]int{45, 64, 70, 130}).Draw(t, "run")
			for k := 1; k < runLen; k++ {
				pk := *push
				pk.Kind = rapid.SampledFrom(clientAttacks[2:]).Draw(t, "attack-k")
				pk.Body = append([]byte{byte(k), byte(k * 7), byte(k >> 3), byte(k * 13)}, push.Body[4:]...)
				sc.RPC.Steps = append(sc.RPC.Steps, scen.Step{Op: "push", Push: &pk})
			}
		}
		sc.RPC.Steps = append(sc.RPC.Steps,
			scen.Step{Op: "sleep", Ms: 5},
			scen.Step{Op: "answer", Items: []scen.AnsItem{{Tag: tag}}},
			scen.Step{Op: "await-calls"},
			scen.Step{Op: "probe"})
		c := clientCase{Scenario: sc, Attack: attack, Run: runLen}
		if err := evalClient(c); err != nil {
			if strings.HasPrefix(err.Error(), "INFRA:") {
				t.Skipf("%v", err)
			}
			p := run.Violation(map[string]any{"ClientLevel": c}, err.Error())
			t.Fatalf("violation (replay %s): %v", p, err)
		}
	})
}
