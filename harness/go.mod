module github.com/xelaj/mtproto/telegram/verifh

go 1.23

require (
	github.com/xelaj/errs v0.0.0-20200831133608-d1c11863e019
	github.com/xelaj/mtproto v0.0.0
	pgregory.net/rapid v1.3.0
	verif/evid v0.0.0
)

require (
	github.com/fatih/structtag v1.2.0 // indirect
	github.com/k0kubun/pp v3.0.1+incompatible // indirect
	github.com/mattn/go-colorable v0.1.8 // indirect
	github.com/mattn/go-isatty v0.0.12 // indirect
	github.com/pkg/errors v0.9.1 // indirect
	github.com/xelaj/go-dry v0.0.0-20210621215431-21c77821487c // indirect
	golang.org/x/crypto v0.0.0-20210322153248-0c34fe9e7dc2 // indirect
	golang.org/x/sys v0.0.0-20210324051608-47abb6519492 // indirect
)

replace github.com/xelaj/mtproto => /repo

replace verif/evid => ../evid
