package c09

import (
	"encoding/json"
	"fmt"
	"strings"
	"testing"
	"time"

	"github.com/xelaj/mtproto/telegram/verifh/hx"
	"github.com/xelaj/mtproto/telegram/verifh/scen"
	"pgregory.net/rapid"
	"verif/evid"
)

var run = evid.New("C09")

func TestMain(m *testing.M) { hx.Main(m, run) }

type rapidSource struct{ t *rapid.T }

func (r rapidSource) Bytes(label string, n int) []byte { return hx.FixedBytes(r.t, label, n) }
func (r rapidSource) Int(label string, n int) int      { return rapid.IntRange(0, n-1).Draw(r.t, label) }

func callersOf(sc *scen.Scenario) []scen.CallSpec {
	var cs []scen.CallSpec
	for _, st := range sc.RPC.Steps {
		if st.Op == "call" {
			cs = append(cs, st.Calls...)
		}
	}
	return cs
}

func errFor(sc *scen.Scenario, tag int) (int32, string, bool) {
	for _, st := range sc.RPC.Steps {
		if st.Op == "answer" {
			for _, it := range st.Items {
				if it.Tag == tag && (it.ErrCode != 0 || it.ErrText != "") {
					return it.ErrCode, it.ErrText, true
				}
			}
		}
	}
	return 0, "", false
}

// judge: each call returns exactly the value built for its own tag, in the Go kind its function declares.
func judge(sc *scen.Scenario, res *scen.Result, runErr error) (string, error) {
	if runErr != nil {
		return "inconclusive", fmt.Errorf("INFRA: %v", runErr)
	}
	if res.Died {
		return "violation", fmt.Errorf("client process died: %s", scen.PanicSite(res.Stderr))
	}
	if !res.Connected {
		return "inconclusive", fmt.Errorf("INFRA: resumed session did not connect: %s %s", res.ConnectErr, res.ConnectPanic)
	}
	if res.Stall != nil {
		if res.Stall.Verdict == "STALL" {
			return "violation", fmt.Errorf("callers never receive their answers: receive loop blocked at %s with %d callers waiting", res.Stall.LoopAt, res.Stall.Blocked)
		}
		if res.Stall.Verdict == "IDLE" {
			// quiescent: the loop waits for more input, the server has nothing left to send; which answered calls are still waiting?
			answered := map[int]bool{}
			for _, ev := range res.Events {
				if ev.Kind == "answer" {
					var tag int
					fmt.Sscanf(ev.Note, "tag=%d", &tag)
					answered[tag] = true
				}
			}
			returned := map[int]bool{}
			for _, c := range res.Calls {
				returned[c.Tag] = true
			}
			for _, cs := range callersOf(sc) {
				for _, r := range cs.Reqs {
					if answered[r.Tag] && !returned[r.Tag] {
						return "violation", fmt.Errorf("tag %d (%s): the server sent the result but the call never returns (receive loop idle, %d callers blocked); client warnings: %v", r.Tag, r.Kind, res.Stall.Blocked, lastN(res.Warnings, 2))
					}
				}
			}
		}
		if res.Stall.Verdict == "IDLE" {
			// the very first call of the session (the one that introduces the connection to the server)
			for _, n := range res.Notes {
				if strings.HasPrefix(n, "warm-up request failed") {
					for _, ev := range res.Events {
						if ev.Kind == "sent" && ev.Ctor == "f35c6d01" {
							return "violation", fmt.Errorf("the first call on the connection never returns although the server sent its result (rpc_result in message %d); receive loop idle; client warnings: %v", ev.MsgID, lastN(res.Warnings, 2))
						}
					}
				}
			}
		}
		return "inconclusive", fmt.Errorf("INFRA: calls unfinished, state inspection inconclusive: %s", res.Stall.LoopAt)
	}
	got := map[int]scen.CallResult{}
	for _, c := range res.Calls {
		if _, dup := got[c.Tag]; dup {
			return "violation", fmt.Errorf("the call with tag %d returned twice", c.Tag)
		}
		got[c.Tag] = c
	}
	for _, cs := range callersOf(sc) {
		for _, r := range cs.Reqs {
			c, ok := got[r.Tag]
			if !ok {
				return "violation", fmt.Errorf("the call with tag %d (%s) never returned", r.Tag, r.Kind)
			}
			if c.Panic != "" {
				return "violation", fmt.Errorf("the call with tag %d (%s) panicked: %s", r.Tag, r.Kind, c.Panic)
			}
			if code, text, isErr := errFor(sc, r.Tag); isErr {
				if c.OK || c.Code != int(code) || c.Value != text {
					return "violation", fmt.Errorf("tag %d (%s): rpc_error(%d,%q) addressed to it was delivered as ok=%v code=%d message=%q err=%q", r.Tag, r.Kind, code, text, c.OK, c.Code, c.Value, c.Err)
				}
				continue
			}
			if !c.OK {
				return "violation", fmt.Errorf("tag %d (%s): call failed: %s", r.Tag, r.Kind, c.Err)
			}
			if want := scen.Expected(r); c.Value != want {
				return "violation", fmt.Errorf("tag %d (%s): call returned %s (Go type %s), the result addressed to it is %s", r.Tag, r.Kind, c.Value, c.GoType, want)
			}
		}
	}
	for _, c := range res.Calls {
		if c.Kind == "probe" && !c.OK {
			return "violation", fmt.Errorf("a request issued afterwards did not complete: %+v", c)
		}
	}
	for _, ev := range res.Events {
		if ev.Kind == "violation" {
			return "violation", fmt.Errorf("server-side validation: %s", ev.Note)
		}
	}
	for _, n := range res.Notes {
		if strings.Contains(n, "requests arrived") || strings.Contains(n, "not pending") || strings.Contains(n, "no connection") || strings.Contains(n, "warm-up") {
			return "inconclusive", fmt.Errorf("INFRA: script could not be played: %s", n)
		}
	}
	return "ok", nil
}

// genEarlyAnswer: the answer to a request reaches the client while the sending goroutine is still inside the send
// path (held right after its write): the result must still find its caller.
func genEarlyAnswer(t *rapid.T) (*scen.Scenario, []string) {
	s := rapidSource{t}
	sc := scen.NewResumed(s)
	n := rapid.IntRange(1, 3).Draw(t, "ncallers")
	callers := scen.Callers(s, n, 1, 1+rapid.IntRange(0, 1000).Draw(t, "base"))
	held := callers[0].Reqs[0]
	hold := &scen.HoldSpec{Point: "send.written", Tag: held.Tag, Manual: true, Ms: 400}
	steps := []scen.Step{{Op: "hold", Hold: hold}, {Op: "call", Calls: callers[:1]}, {Op: "await-requests", N: 1},
		{Op: "answer", Container: rapid.Bool().Draw(t, "container"), Items: []scen.AnsItem{{Tag: held.Tag, Gzip: rapid.Bool().Draw(t, "gzip")}}},
		{Op: "sleep", Ms: rapid.IntRange(5, 30).Draw(t, "settle")}, {Op: "release", Hold: hold}}
	if n > 1 {
		steps = append(steps, scen.Step{Op: "call", Calls: callers[1:]})
		steps, _ = scen.AnswerRounds(s, steps, callers[1:], 0)
	}
	steps = append(steps, scen.Step{Op: "await-calls"}, scen.Step{Op: "probe"})
	sc.RPC.Steps = steps
	sc.GoMaxProcs = rapid.SampledFrom([]int{1, 2, 16}).Draw(t, "gomaxprocs")
	return sc, []string{"directed:answer-while-sender-in-send-path", "feat:" + held.Kind + ":early", "feat:container"}
}

// genAnswerAfterReconnect: the connection drops while calls are unanswered; answers belong to the session, so the
// server gives them on the connection the client opens next.
func genAnswerAfterReconnect(t *rapid.T) (*scen.Scenario, []string) {
	s := rapidSource{t}
	sc := scen.NewResumed(s)
	n := rapid.IntRange(1, 4).Draw(t, "ncallers")
	callers := scen.Callers(s, n, 1, 1+rapid.IntRange(0, 1000).Draw(t, "base"))
	steps := []scen.Step{{Op: "call", Calls: callers}, {Op: "await-requests", N: n}}
	var tags []int
	for _, c := range callers {
		tags = append(tags, c.Reqs[0].Tag)
	}
	order := scen.Permute(s, tags)
	// some are answered before the drop, the rest after the client is back
	before := rapid.IntRange(0, len(order)-1).Draw(t, "before")
	for _, tg := range order[:before] {
		steps = append(steps, scen.Step{Op: "answer", Items: []scen.AnsItem{{Tag: tg}}})
	}
	// the server learns which session the new connection belongs to from the first message on it: another request
	steps = append(steps, scen.Step{Op: "close"}, scen.Step{Op: "await-reconnect", N: 2}, scen.Step{Op: "probe", Retry: true})
	rest := scen.Step{Op: "answer", Container: rapid.Bool().Draw(t, "container")}
	for _, tg := range order[before:] {
		rest.Items = append(rest.Items, scen.AnsItem{Tag: tg, Gzip: rapid.IntRange(0, 2).Draw(t, "gzip") == 0})
	}
	steps = append(steps, rest, scen.Step{Op: "await-calls"}, scen.Step{Op: "probe", Retry: true})
	sc.RPC.Steps = steps
	sc.GoMaxProcs = rapid.SampledFrom([]int{1, 2, 16}).Draw(t, "gomaxprocs")
	return sc, []string{"server-history:answers-after-reconnect", "feat:container"}
}

func gen(t *rapid.T) (*scen.Scenario, []string) {
	switch rapid.IntRange(0, 5).Draw(t, "family") {
	case 0:
		return genEarlyAnswer(t)
	case 1:
		return genAnswerAfterReconnect(t)
	}
	s := rapidSource{t}
	sc := scen.NewSession(s)
	ncallers := rapid.IntRange(1, run.Pick(6, 8)).Draw(t, "ncallers")
	callers := scen.Callers(s, ncallers, 4, 1+rapid.IntRange(0, 1000).Draw(t, "base"))
	steps := []scen.Step{}
	// optional directed interleaving: hold one sender at the entry of the send path until another request has arrived
	if ncallers >= 2 && rapid.Bool().Draw(t, "hold") {
		a, b := callers[0].Reqs[0].Tag, callers[1].Reqs[0].Tag
		steps = append(steps, scen.Step{Op: "hold", Hold: &scen.HoldSpec{Point: "send.enter", Tag: a, Until: b, Ms: 100}})
	}
	resent := rapid.IntRange(0, 3).Draw(t, "rotated") == 0
	if resent {
		// the server has retired the salt: every request is rejected once and answered only in its second copy
		steps = append(steps, scen.Step{Op: "rotate", Salt: 0x0909090909090000 + int64(rapid.IntRange(1, 1000).Draw(t, "salt"))})
	}
	steps = append(steps, scen.Step{Op: "call", Calls: callers})
	steps, feats := scen.AnswerRounds(s, steps, callers, 6)
	if resent {
		feats["answers-to-requests-resent-after-salt-rotation"] = 1
	}
	steps = append(steps, scen.Step{Op: "await-calls"}, scen.Step{Op: "probe"})
	sc.RPC.Steps = steps
	sc.GoMaxProcs = rapid.SampledFrom([]int{1, 2, 16}).Draw(t, "gomaxprocs")
	var cls []string
	for f := range feats {
		cls = append(cls, "feat:"+f)
	}
	cls = append(cls, fmt.Sprintf("gomaxprocs=%d", sc.GoMaxProcs))
	if sc.RPC.Fresh {
		cls = append(cls, "session:keyed-in-this-process")
	}
	if sc.ServerClockOffset > 0 {
		cls = append(cls, "server-clock-after-2038")
	}
	if ncallers >= 2 {
		cls = append(cls, "concurrent-callers")
	}
	return sc, cls
}

func nontrivial(cls []string) bool {
	for _, c := range cls {
		if c == "feat:answered-out-of-order" || c == "feat:container" || c == "feat:gzip" || strings.HasPrefix(c, "feat:vec") {
			return true
		}
	}
	return false
}

func evaluate(sc *scen.Scenario, cls []string) error {
	res, runErr := scen.RunChild(sc, 120*time.Second)
	verdict, err := judge(sc, res, runErr)
	b, _ := json.Marshal(sc)
	run.Case(verdict != "inconclusive" && nontrivial(cls), evid.Hash(b), append(cls, "verdict:"+verdict)...)
	if len(b) < 1500 {
		run.Sample(map[string]any{"steps": sc.RPC.Steps, "gomaxprocs": sc.GoMaxProcs})
	}
	return err
}

func TestC09(t *testing.T) {
	if p := hx.ReplayPath(); p != "" {
		var sc scen.Scenario
		if err := evid.LoadReplay(p, &sc); err != nil {
			t.Fatal(err)
		}
		run.Case(true, 1)
		if err := evaluate(&sc, []string{"feat:container"}); err != nil {
			if strings.HasPrefix(err.Error(), "INFRA:") {
				t.Fatalf("%v", err)
			}
			run.Violation(sc, err.Error())
			t.Fatalf("replay fails: %v", err)
		}
		return
	}
	t.Run("generated", func(t *testing.T) {
		rapid.Check(t, func(t *rapid.T) {
			sc, cls := gen(t)
			if err := evaluate(sc, cls); err != nil {
				if strings.HasPrefix(err.Error(), "INFRA:") {
					t.Skipf("%v", err)
				}
				hx.Fail(t, run, sc, err)
			}
		})
	})
}

func lastN(v []string, n int) []string {
	if len(v) > n {
		return v[len(v)-n:]
	}
	return v
}
