package c18

import (
	"bytes"
	"fmt"
	"math/big"
	"strings"
	"sync"
	"testing"

	"github.com/xelaj/mtproto/telegram"
	"github.com/xelaj/mtproto/telegram/internal/srp"
	"github.com/xelaj/mtproto/telegram/verifh/hx"
	"github.com/xelaj/mtproto/telegram/verifh/ref"
	"pgregory.net/rapid"
	"verif/evid"
)

var run = evid.New("C18")

func TestMain(m *testing.M) { hx.Main(m, run) }

type Case struct {
	Password string
	Other    string // a different password
	Salt1    []byte
	Salt2    []byte
	G        int64
	BSecret  []byte // server secret b (big-endian)
	ASecret  []byte // client secret a, 256 bytes (ignored when Public)
	Corner   string // "", A, B, u, S: which quantity is forced to start with zero byte(s)
	Zeros    int    // 1 or 2 leading zero bytes
	BMinimal bool   // send B minimal-length (true) or padded to 256 bytes
	Public   bool   // use telegram.GetInputCheckPassword (client's own ephemeral)
	BadB     string // "", zero, p, p+1, short, long, empty: out-of-range server value
}

var (
	xMu    sync.Mutex
	xCache = map[string]*big.Int{}
)

func verifier(pw string, s1, s2 []byte, g int64) *big.Int {
	key := fmt.Sprintf("%q|%x|%x|%d", pw, s1, s2, g)
	xMu.Lock()
	v, ok := xCache[key]
	xMu.Unlock()
	if ok {
		return v
	}
	v = new(big.Int).Exp(big.NewInt(g), ref.SRPX([]byte(pw), s1, s2), ref.DHPrime)
	xMu.Lock()
	xCache[key] = v
	xMu.Unlock()
	return v
}

func lz(b []byte) int {
	n := 0
	for n < len(b) && b[n] == 0 {
		n++
	}
	return n
}

func padded(x *big.Int) []byte { return ref.LeftPad(x.Bytes(), 256) }

// answer calls the code under test.
func answer(c Case, pw string, B []byte, a []byte) (A, M1 []byte, empty bool, err error) {
	// the server's parameters as a caller holds them after parsing one message: adjacent windows of one buffer, each
	// with the next one in its spare capacity. Nothing in the buffer may change.
	pB := padded(ref.DHPrime)
	blob := append(append(append(append(append([]byte{}, c.Salt1...), c.Salt2...), pB...), B...), bytes.Repeat([]byte{0xa5}, 96)...)
	orig := append([]byte{}, blob...)
	o1 := len(c.Salt1)
	o2 := o1 + len(c.Salt2)
	o3 := o2 + len(pB)
	o4 := o3 + len(B)
	c.Salt1, c.Salt2, pB, B = blob[:o1], blob[o1:o2], blob[o2:o3], blob[o3:o4]
	defer func() {
		if err == nil && !bytes.Equal(blob, orig) {
			err = fmt.Errorf("the caller's parameters (salt1 | salt2 | p | B in one buffer) were modified at offset %d of %d", firstDiffAt(blob, orig), len(blob))
		}
	}()
	if c.Public {
		ap := &telegram.AccountPassword{
			CurrentAlgo: &telegram.PasswordKdfAlgoSHA256SHA256PBKDF2HMACSHA512iter100000SHA256ModPow{Salt1: c.Salt1, Salt2: c.Salt2, G: int32(c.G), P: pB},
			SRPB:        B, SRPID: 4242,
		}
		res, err := telegram.GetInputCheckPassword(pw, ap)
		if err != nil {
			return nil, nil, false, err
		}
		switch o := res.(type) {
		case *telegram.InputCheckPasswordEmpty:
			return nil, nil, true, nil
		case *telegram.InputCheckPasswordSRPObj:
			if o.SRPID != 4242 {
				return nil, nil, false, fmt.Errorf("srp_id %d not echoed", o.SRPID)
			}
			return o.A, o.M1, false, nil
		default:
			return nil, nil, false, fmt.Errorf("unexpected answer type %T", res)
		}
	}
	res, err := srp.VerifGetInputCheckPassword(pw, B, &srp.ModPow{Salt1: c.Salt1, Salt2: c.Salt2, G: int32(c.G), P: pB}, a)
	if err != nil {
		return nil, nil, false, err
	}
	if res == nil {
		return nil, nil, true, nil
	}
	return res.GA, res.M1, false, nil
}

func firstDiffAt(a, b []byte) int {
	for i := range a {
		if i >= len(b) || a[i] != b[i] {
			return i
		}
	}
	return len(a)
}

// prepare forces the requested corner by walking exponents; returns the server and the client secret to use.
func prepare(c Case) (*ref.SRPServer, []byte, error) {
	p := ref.DHPrime
	v := verifier(c.Password, c.Salt1, c.Salt2, c.G)
	srv := ref.NewSRPServer(c.Salt1, c.Salt2, c.G, p, v, new(big.Int).SetBytes(c.BSecret))
	a := new(big.Int).SetBytes(c.ASecret)
	g := big.NewInt(c.G)
	z := c.Zeros
	switch c.Corner {
	case "B":
		for i := 0; lz(padded(srv.B)) < z; i++ {
			srv.BumpB()
			if i > 1<<20 {
				return nil, nil, fmt.Errorf("corner search exhausted")
			}
		}
	case "A":
		A := new(big.Int).Exp(g, a, p)
		for i := 0; lz(padded(A)) < z; i++ {
			a.Add(a, big.NewInt(1))
			A.Mul(A, g).Mod(A, p)
			if i > 1<<20 {
				return nil, nil, fmt.Errorf("corner search exhausted")
			}
		}
	case "u":
		A := new(big.Int).Exp(g, a, p)
		for i := 0; ; i++ {
			u := ref.SHA256(padded(A), padded(srv.B))
			if lz(u) >= z {
				break
			}
			a.Add(a, big.NewInt(1))
			A.Mul(A, g).Mod(A, p)
			if i > 1<<20 {
				return nil, nil, fmt.Errorf("corner search exhausted")
			}
		}
	case "S":
		A := new(big.Int).Exp(g, a, p)
		for i := 0; ; i++ {
			S, _ := srv.S(A)
			if lz(padded(S)) >= z {
				break
			}
			a.Add(a, big.NewInt(1))
			A.Mul(A, g).Mod(A, p)
			if i > 1<<14 {
				return nil, nil, fmt.Errorf("corner search exhausted")
			}
		}
	}
	ab := a.Bytes()
	if len(ab) > 256 {
		ab = ab[len(ab)-256:]
	}
	return srv, ref.LeftPad(ab, 256), nil
}

func oracle(c Case) error {
	return hx.Safely(func() error {
		p := ref.DHPrime
		if c.Password == "" {
			_, _, empty, err := answer(c, "", padded(big.NewInt(5)), c.ASecret)
			if err != nil || !empty {
				return fmt.Errorf("empty password: want the 'no password' answer, got empty=%v err=%v", empty, err)
			}
			return nil
		}
		srv, a, err := prepare(c)
		if err != nil {
			return fmt.Errorf("INFRA: %v", err)
		}
		if c.BadB != "" {
			var B []byte
			switch c.BadB {
			case "zero":
				B = make([]byte, 256)
			case "empty":
				B = []byte{}
			case "p":
				B = padded(p)
			case "p+1":
				B = padded(new(big.Int).Add(p, big.NewInt(1)))
			case "short":
				B = srv.B.Bytes()[256-200:]
			case "long":
				B = append(make([]byte, 44), padded(srv.B)...)
			}
			_, _, _, err := answer(c, c.Password, B, a)
			if err == nil {
				return fmt.Errorf("out-of-range server value B (%s, %d bytes) was not refused", c.BadB, len(B))
			}
			return nil
		}
		B := padded(srv.B)
		if c.BMinimal {
			B = srv.B.Bytes()
		}
		A, M1, empty, err := answer(c, c.Password, append([]byte{}, B...), append([]byte{}, a...))
		if err != nil || empty {
			return fmt.Errorf("right password: client refused valid parameters: empty=%v err=%v", empty, err)
		}
		if err := srv.Check(A, M1); err != nil {
			return fmt.Errorf("the answer for the right password is rejected by a conformant server: %v (A has %d leading zero bytes, B %d)", err, lz(ref.LeftPad(A, 256)), lz(padded(srv.B)))
		}
		if !c.Public {
			wantA := new(big.Int).Exp(big.NewInt(c.G), new(big.Int).SetBytes(a), p)
			if new(big.Int).SetBytes(A).Cmp(wantA) != 0 {
				return fmt.Errorf("A != g^a mod p")
			}
		}
		// what came before in this process must not matter: the same password again right away with one of the two
		// salts changed (the server rotates a salt; two accounts share one) - the server that holds the verifier for
		// the new parameters accepts the answer
		for _, which := range []string{"salt2", "salt1"} {
			c2 := c
			if which == "salt2" {
				c2.Salt2 = append(append([]byte{}, c.Salt2...), 0x5a)
			} else {
				c2.Salt1 = append(append([]byte{}, c.Salt1...), 0x5a)
			}
			c2.Corner, c2.Zeros = "", 0
			srv2, a2, err := prepare(c2)
			if err != nil {
				return fmt.Errorf("INFRA: %v", err)
			}
			A3, M3, empty, err := answer(c2, c2.Password, padded(srv2.B), append([]byte{}, a2...))
			if err != nil || empty {
				return fmt.Errorf("same password, other %s: client refused valid parameters: empty=%v err=%v", which, empty, err)
			}
			if err := srv2.Check(A3, M3); err != nil {
				return fmt.Errorf("right password, asked again with the same %s and another %s: the answer is rejected by the server holding the verifier for the new parameters: %v", map[string]string{"salt2": "salt1", "salt1": "salt2"}[which], which, err)
			}
		}
		// the answer computed for any other password must be rejected
		A2, M2, empty, err := answer(c, c.Other, append([]byte{}, B...), append([]byte{}, a...))
		if err != nil || empty {
			return fmt.Errorf("other password: client refused valid parameters: empty=%v err=%v", empty, err)
		}
		if err := srv.Check(A2, M2); err == nil {
			return fmt.Errorf("the answer computed for a different password (%q instead of %q) is accepted", c.Other, c.Password)
		}
		if bytes.Equal(M1, M2) {
			return fmt.Errorf("M1 does not depend on the password")
		}
		// answers handed out stay what they were while further answers are computed
		kept.Keep("an SRP answer (A | M1)", func() []byte { return append(append([]byte{}, A...), M1...) })
		return kept.Verify()
	})
}

var kept hx.Retain

func mutatePassword(t *rapid.T, pw string) string {
	r := []rune(pw)
	switch rapid.IntRange(0, 5).Draw(t, "mut") {
	case 0:
		return pw + " "
	case 1:
		return " " + pw
	case 2:
		i := rapid.IntRange(0, len(r)-1).Draw(t, "pos")
		r2 := append([]rune{}, r...)
		r2[i] ^= 0x20
		if string(r2) != pw && r2[i] != 0 {
			return string(r2)
		}
		return pw + "x"
	case 3:
		if len(r) > 1 {
			return string(r[:len(r)-1])
		}
		return pw + pw
	case 4:
		return pw + "́" // combining acute: NFD-like variant
	default:
		o := rapid.StringN(1, 12, 48).Draw(t, "otherpw")
		if o == pw {
			return pw + "1"
		}
		return o
	}
}

func gen(t *rapid.T) Case {
	c := Case{}
	c.Password = rapid.OneOf(
		rapid.StringN(1, 24, 200),
		rapid.StringMatching(`[a-zA-Z0-9 !@#]{1,16}`),
		rapid.SampledFrom([]string{"a", "pässwörd", "пароль", "密码", "é", "\x00", "a\x00b", " ", "🙂🙃", "é"}),
		// pass phrases: lengths around and beyond any buffer an implementation might join the hashed parts in
		rapid.Custom(func(t *rapid.T) string {
			n := rapid.SampledFrom([]int{55, 56, 63, 64, 65, 119, 120, 255, 256, 257, 511, 512, 944, 945, 1023, 1024, 1025, 4096, 70000}).Draw(t, "pwlen")
			return strings.Repeat(rapid.StringMatching(`[a-z ]{7}`).Draw(t, "pwunit"), n/7+1)[:n]
		}),
	).Draw(t, "password")
	c.Other = mutatePassword(t, c.Password)
	c.Salt1 = hx.Bytes(t, "salt1", 64, 0, 8, 32, 40, 64, 128, 509, 510, 600, 2048)
	c.Salt2 = hx.Bytes(t, "salt2", 64, 0, 16, 32, 64, 479, 480, 500, 2048)
	c.G = rapid.SampledFrom([]int64{3, 4, 7}).Draw(t, "g")
	c.BSecret = hx.FixedBytes(t, "b", 256)
	c.BSecret[0] |= 1
	c.ASecret = hx.FixedBytes(t, "a", 256)
	if rapid.IntRange(0, 7).Draw(t, "asmall") == 0 { // small client secret
		for i := 0; i < 250; i++ {
			c.ASecret[i] = 0
		}
	}
	c.Corner = rapid.SampledFrom([]string{"", "", "A", "B", "u", "S", "A", "B"}).Draw(t, "corner")
	c.Zeros = 1
	if c.Corner == "A" || c.Corner == "B" || c.Corner == "u" {
		c.Zeros = rapid.SampledFrom([]int{1, 1, 2}).Draw(t, "zeros")
	}
	c.BMinimal = rapid.Bool().Draw(t, "bminimal")
	c.Public = rapid.IntRange(0, 4).Draw(t, "public") == 0
	if c.Public && (c.Corner == "A" || c.Corner == "u" || c.Corner == "S") {
		c.Corner = "B" // the client's own draw cannot be steered
	}
	switch rapid.IntRange(0, 11).Draw(t, "special") {
	case 0:
		c.BadB = rapid.SampledFrom([]string{"zero", "p", "p+1", "short", "long", "empty"}).Draw(t, "badb")
	case 1:
		c.Password = ""
	}
	return c
}

func record(c Case) {
	cls := []string{}
	switch {
	case c.Password == "":
		cls = append(cls, "empty-password")
	case c.BadB != "":
		cls = append(cls, "badB:"+c.BadB)
	default:
		cls = append(cls, fmt.Sprintf("corner:%s%d", c.Corner, c.Zeros), fmt.Sprintf("g=%d", c.G))
		if 2*len(c.Salt1)+len(c.Password) > 1024 || 2*len(c.Salt2) > 900 {
			cls = append(cls, "long-hash-input")
		}
		if c.Public {
			cls = append(cls, "public-api")
		}
		if c.BMinimal {
			cls = append(cls, "B-minimal-length")
		}
	}
	run.Case(true, evid.Hash(c.Password, c.Other, c.Salt1, c.Salt2, c.G, c.BSecret, c.ASecret, c.Corner, c.Zeros, c.BMinimal, c.Public, c.BadB), cls...)
	run.Sample(map[string]any{"password": c.Password, "other": c.Other, "salt1_len": len(c.Salt1), "salt2_len": len(c.Salt2), "g": c.G, "corner": c.Corner, "zeros": c.Zeros,
		"b_minimal": c.BMinimal, "public": c.Public, "bad_B": c.BadB})
}

func TestC18(t *testing.T) {
	if p := hx.ReplayPath(); p != "" {
		var c Case
		if err := evid.LoadReplay(p, &c); err != nil {
			t.Fatal(err)
		}
		run.Case(true, 1)
		record(c)
		if err := oracle(c); err != nil {
			run.Violation(c, err.Error())
			t.Fatalf("replay fails: %v", err)
		}
		return
	}
	t.Run("generated", func(t *testing.T) {
		rapid.Check(t, func(t *rapid.T) {
			c := gen(t)
			record(c)
			if err := oracle(c); err != nil {
				hx.Fail(t, run, c, err)
			}
			pool.Add(c)
		})
	})
	if t.Failed() {
		return
	}
	t.Run("concurrent", func(t *testing.T) {
		// several password checks at once (several clients in one process)
		items := pool.Items
		if len(items) > run.Pick(6, 40) {
			items = items[:run.Pick(6, 40)]
		}
		hx.RunConcurrent(t, run, items, 4, 1, oracle)
	})
}

var pool hx.Pool[Case]
