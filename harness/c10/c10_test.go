package c10

import (
	"os"
	"encoding/json"
	"fmt"
	"math"
	"strings"
	"sync"
	"testing"
	"time"

	"github.com/xelaj/mtproto/internal/utils"
	"github.com/xelaj/mtproto/telegram/verifh/hx"
	"github.com/xelaj/mtproto/telegram/verifh/refsrv"
	"github.com/xelaj/mtproto/telegram/verifh/scen"
	"pgregory.net/rapid"
	"verif/evid"
)

var run = evid.New("C10")

func TestMain(m *testing.M) { hx.Main(m, run) }

type rapidSource struct{ t *rapid.T }

func (r rapidSource) Bytes(label string, n int) []byte { return hx.FixedBytes(r.t, label, n) }
func (r rapidSource) Int(label string, n int) int      { return rapid.IntRange(0, n-1).Draw(r.t, label) }

const ackCtor = "62d6b459"

// judge checks the invariants of the outgoing stream over the server's arrival-ordered log.
func judge(sc *scen.Scenario, res *scen.Result, runErr error) (string, map[string]bool, error) {
	feats := map[string]bool{}
	if runErr != nil {
		return "inconclusive", feats, fmt.Errorf("INFRA: %v", runErr)
	}
	if res.Died {
		return "violation", feats, fmt.Errorf("client process died: %s", scen.PanicSite(res.Stderr))
	}
	if !res.Connected {
		return "inconclusive", feats, fmt.Errorf("INFRA: resumed session did not connect: %s %s", res.ConnectErr, res.ConnectPanic)
	}
	type last struct {
		id   int64
		seq  int32
		ok   bool
		ack  bool
		g    string
		conn int
	}
	perConn := map[int64]*last{} // one stream per session id: a reconnection continues the same stream
	acked := map[int64]int{}     // msg_id -> position in the server's log of the latest acknowledgement naming it
	for _, ev := range res.Events {
		switch ev.Kind {
		case "violation":
			return "violation", feats, fmt.Errorf("server-side validation: %s", ev.Note)
		case "ack":
			for _, id := range ev.IDs {
				acked[id] = ev.Seq
			}
		case "enc":
			l := perConn[ev.Session]
			if l == nil {
				l = &last{}
				perConn[ev.Session] = l
			}
			if l.ok && l.conn != ev.Conn {
				feats["stream-continues-after-reconnect"] = true
			}
			l.conn = ev.Conn
			if ev.MsgID&3 != 0 {
				return "violation", feats, fmt.Errorf("msg_id %d is not a multiple of four", ev.MsgID)
			}
			if l.ok && ev.MsgID <= l.id {
				return "violation", feats, fmt.Errorf("msg_ids do not increase in the order the messages were written: %d (seq_no %d) arrived after %d (seq_no %d)", ev.MsgID, ev.SeqNo, l.id, l.seq)
			}
			if l.ok && ev.SeqNo < l.seq {
				return "violation", feats, fmt.Errorf("seq_no decreases along the stream: %d after %d", ev.SeqNo, l.seq)
			}
			sec := ev.MsgID >> 32
			arr := ev.TimeNs / 1e9
			// the id is taken before the message is sealed and written; on a busy machine it reaches the server's log
			// seconds later - never earlier
			if sec < arr-30 || sec > arr+2 {
				return "violation", feats, fmt.Errorf("msg_id %d is not derived from the current time: its seconds part %d, arrival at %d", ev.MsgID, sec, arr)
			}
			isAck := ev.Ctor == ackCtor
			if isAck && ev.SeqNo&1 != 0 {
				return "violation", feats, fmt.Errorf("a pure acknowledgement carries the odd seq_no %d", ev.SeqNo)
			}
			if !isAck && ev.SeqNo&1 != 1 {
				return "violation", feats, fmt.Errorf("content-related message %s carries the even seq_no %d", ev.Ctor, ev.SeqNo)
			}
			if l.ok && l.ack != isAck {
				feats["ack-interleaved-with-requests"] = true
			}
			if l.ok && !isAck && !l.ack {
				feats["adjacent-requests"] = true
			}
			l.id, l.seq, l.ok, l.ack = ev.MsgID, ev.SeqNo, true, isAck
		}
	}
	// a point of the history at which the server waited for its acknowledgements: with the client at rest (receive loop
	// idle in two inspections) nothing more was going to be written, so what was missing then was not acknowledged - even
	// if the ids ride along with the acknowledgement of the server's next message later on
	for _, n := range res.Notes {
		if strings.HasPrefix(n, "unacked:") && (strings.HasSuffix(n, "state=IDLE") || strings.HasSuffix(n, "state=STALL")) {
			return "violation", feats, fmt.Errorf("the server waited for acknowledgements and the client, at rest, sent none: %s (content-related messages are acknowledged when they are received, not when the server next speaks)", n)
		}
	}
	// every content-related server message, alone or inside a container, must be acknowledged
	for _, ev := range res.Events {
		if ev.Kind == "sent" && ev.SeqNo&1 == 1 && ev.Note != "raw" {
			if ev.InCont {
				feats["content-related-in-container"] = true
			}
			if ev.Note == "redelivered" {
				feats["content-related-redelivered"] = true
			}
			// acknowledged = an acknowledgement naming it arrived after this delivery (a message the server delivers again
			// after the first acknowledgement wants another one)
			if acked[ev.MsgID] < ev.Seq {
				if res.Stall != nil && (res.Stall.Verdict == "IDLE" || res.Stall.Verdict == "STALL") {
					return "violation", feats, fmt.Errorf("content-related server message %d (%s, in container: %v, %s) was never acknowledged; receive loop %s", ev.MsgID, ev.Ctor, ev.InCont, ev.Note, res.Stall.Verdict)
				}
				return "inconclusive", feats, fmt.Errorf("INFRA: message %d unacknowledged but the client is not quiescent", ev.MsgID)
			}
		}
	}
	for _, c := range res.Calls {
		if !c.OK && c.Kind != "probe" {
			return "inconclusive", feats, fmt.Errorf("INFRA: a call failed (judged by C09): %+v", c)
		}
	}
	return "ok", feats, nil
}

func gen(t *rapid.T) (*scen.Scenario, []string) {
	s := rapidSource{t}
	sc := scen.NewSession(s)
	ncallers := rapid.IntRange(1, run.Pick(6, 8)).Draw(t, "ncallers")
	callers := scen.Callers(s, ncallers, 3, 1+rapid.IntRange(0, 1000).Draw(t, "base"))
	var steps []scen.Step
	var cls []string
	if rapid.IntRange(0, 4).Draw(t, "push-while-sending") == 0 {
		// a content-related message reaches the client while one of its senders is in the middle of the send path (a big
		// upload on a slow line), and nothing content-related follows for a while: the acknowledgement is due all the same,
		// before the server has said anything else
		a := callers[0].Reqs[0]
		h := &scen.HoldSpec{Point: rapid.SampledFrom([]string{"send.msgid", "send.written"}).Draw(t, "holdpoint"), Tag: a.Tag, Manual: true, Ms: 400}
		p := scen.PushSpec{Kind: rapid.SampledFrom([]string{"update", "updates-too-long"}).Draw(t, "pushkind"), ContentRelated: true, Arg: int64(rapid.IntRange(1, 1<<30).Draw(t, "arg")) << 2,
			InContainer: rapid.Bool().Draw(t, "pushcont")}
		steps = append(steps, scen.Step{Op: "probe"}, scen.Step{Op: "await-acks"},
			scen.Step{Op: "hold", Hold: h}, scen.Step{Op: "call", Calls: []scen.CallSpec{{Caller: 0, Reqs: []scen.ReqSpec{a}}}}, scen.Step{Op: "sleep", Ms: 30},
			scen.Step{Op: "push", Push: &p}, scen.Step{Op: "sleep", Ms: 30}, scen.Step{Op: "release", Hold: h},
			scen.Step{Op: "await-requests", N: 1}, scen.Step{Op: "await-acks"},
			scen.Step{Op: "answer", Items: []scen.AnsItem{{Tag: a.Tag}}}, scen.Step{Op: "await-calls"}, scen.Step{Op: "probe"}, scen.Step{Op: "await-acks"})
		sc.RPC.Steps = steps
		sc.GoMaxProcs = rapid.SampledFrom([]int{1, 2, 16}).Draw(t, "gomaxprocs")
		if sc.ServerClockOffset > 0 {
			cls = append(cls, "server-clock-after-2038")
		}
		return sc, append(cls, "directed:content-related-message-while-a-sender-is-in-the-send-path", "server-history:content-related-push")
	}
	if ncallers >= 2 && rapid.IntRange(0, 2).Draw(t, "hold") > 0 {
		// directed inversion attempt: hold A right after it took its msg_id until B's message has reached the server
		a, b := callers[0].Reqs[0].Tag, callers[1].Reqs[0].Tag
		steps = append(steps, scen.Step{Op: "hold", Hold: &scen.HoldSpec{Point: "send.msgid", Tag: a, Until: b, Ms: 120}})
		cls = append(cls, "directed:hold-after-msgid")
	}
	steps = append(steps, scen.Step{Op: "call", Calls: callers})
	answers, afeats := scen.AnswerRounds(s, nil, callers, 0)
	if afeats["result-longer-than-1MiB"] > 0 {
		cls = append(cls, "server-history:message-longer-than-1MiB")
	}
	if afeats["repeated-result"] > 0 {
		cls = append(cls, "server-history:repeated-result")
	}
	// interleave server-initiated messages (content-related: odd seq_no; service: even) between the answer steps
	pushKinds := []scen.PushSpec{
		{Kind: "pong"}, {Kind: "ack"}, {Kind: "state-info"}, {Kind: "all-info"}, {Kind: "detailed-info"},
		{Kind: "update", ContentRelated: true}, {Kind: "updates-too-long", ContentRelated: true},
		{Kind: "bad-msg-clock"},
	}
	pingAt := -1
	if rapid.IntRange(0, 2).Draw(t, "ping") > 0 {
		pingAt = rapid.IntRange(0, len(answers)).Draw(t, "pingat")
		cls = append(cls, "client-ping")
	}
	for ai, st := range answers {
		if ai == pingAt {
			steps = append(steps, scen.Step{Op: "ping"})
		}
		if st.Op == "answer" && st.Container && rapid.IntRange(0, 2).Draw(t, "rider") == 0 {
			// the container that brings the answers also brings a service message of the server's own
			rk := rapid.SampledFrom([]string{"bad-msg", "bad-msg", "pong", "ack", "state-info", "all-info", "detailed-info"}).Draw(t, "riderkind")
			st.Push = &scen.PushSpec{Kind: rk, Arg: int64(rapid.IntRange(1, 1<<20).Draw(t, "riderarg")) << 2}
			cls = append(cls, "server-history:service-message-in-the-container-of-the-answers", "server-history:rider:"+rk)
		}
		steps = append(steps, st)
		if st.Op == "answer" && rapid.IntRange(0, 2).Draw(t, "push") == 0 {
			p := pushKinds[rapid.IntRange(0, len(pushKinds)-1).Draw(t, "pushkind")]
			p.Arg = int64(rapid.IntRange(1, 1<<30).Draw(t, "arg")) << 2
			if p.Kind == "bad-msg-clock" {
				// the server's clock: minutes behind or ahead of the client's
				p.Arg = int64(rapid.SampledFrom([]int{-300, -120, -61, 61, 120, 300}).Draw(t, "skew"))
				cls = append(cls, "server-history:clock-skew-notification")
			}
			p.InContainer = rapid.Bool().Draw(t, "pushcont")
			p.Gzip = p.ContentRelated && rapid.IntRange(0, 3).Draw(t, "pushgzip") == 0
			steps = append(steps, scen.Step{Op: "push", Push: &p})
			if p.ContentRelated {
				cls = append(cls, "server-history:content-related-push")
			} else {
				cls = append(cls, "server-history:service-push")
			}
		}
	}
	if pingAt == len(answers) {
		steps = append(steps, scen.Step{Op: "ping"})
	}
	steps = append(steps, scen.Step{Op: "await-calls"}, scen.Step{Op: "probe"}, scen.Step{Op: "await-acks"})
	if rapid.IntRange(0, 2).Draw(t, "redeliver") == 0 {
		// the server behaves as if the acknowledgement of its last content-related message had not arrived: it delivers
		// the message again (same msg_id), one to three times
		for k := rapid.IntRange(1, 3).Draw(t, "redeliveries"); k > 0; k-- {
			steps = append(steps, scen.Step{Op: "push", Push: &scen.PushSpec{Kind: "redeliver"}}, scen.Step{Op: "await-acks"})
		}
		cls = append(cls, "server-history:redelivery-after-the-acknowledgement")
	}
	if rapid.IntRange(0, 3).Draw(t, "reconnect") == 0 {
		// the server closes the connection; the same session goes on over a new one
		more := scen.Callers(s, rapid.IntRange(1, 3).Draw(t, "ncallers2"), 2, 5000+rapid.IntRange(0, 1000).Draw(t, "base2"))
		steps = append(steps, scen.Step{Op: "close"}, scen.Step{Op: "await-reconnect", N: 2}, scen.Step{Op: "probe", Retry: true}, scen.Step{Op: "call", Calls: more})
		steps, _ = scen.AnswerRounds(s, steps, more, 0)
		steps = append(steps, scen.Step{Op: "await-calls"}, scen.Step{Op: "probe"})
		cls = append(cls, "server-history:close-and-reconnect")
	}
	sc.RPC.Steps = steps
	sc.GoMaxProcs = rapid.SampledFrom([]int{1, 2, 16}).Draw(t, "gomaxprocs")
	if sc.ServerClockOffset > 0 {
		cls = append(cls, "server-clock-after-2038")
	}
	if rapid.IntRange(0, 3).Draw(t, "oldsession") == 0 {
		// a server session that has sent a billion messages: its seq_no passes 2^31 during this history
		sc.RPC.ServerSeqStart = int32(math.MaxInt32 - 1 - 2*rapid.IntRange(0, 5).Draw(t, "seqleft"))
		cls = append(cls, "server-history:seq_no-passes-2^31")
	}
	if ncallers >= 2 {
		cls = append(cls, "concurrent-callers")
	}
	return sc, cls
}

func evaluate(sc *scen.Scenario, cls []string) error {
	res, runErr := scen.RunChild(sc, 120*time.Second)
	verdict, feats, err := judge(sc, res, runErr)
	for f := range feats {
		cls = append(cls, "feat:"+f)
	}
	if verdict == "inconclusive" && err != nil {
		// what kept the case from being judged, by kind (a generator or harness whose cases are mostly inconclusive shows here)
		why := err.Error()
		if i := strings.IndexAny(why, "0123456789{"); i > 0 {
			why = why[:i]
		}
		cls = append(cls, "inconclusive:"+strings.TrimSpace(why))
	}
	if d := os.Getenv("VERIF_DEBUG_DUMP"); d != "" && res != nil {
		for _, c := range cls {
			if strings.HasPrefix(c, "directed:content") {
				jb, _ := json.MarshalIndent(map[string]any{"scenario": sc, "result": res}, "", " ")
				os.WriteFile(fmt.Sprintf("%s/c10-%d.json", d, time.Now().UnixNano()), jb, 0o644)
			}
		}
	}
	b, _ := json.Marshal(sc)
	run.Case(verdict != "inconclusive" && (feats["adjacent-requests"] || feats["ack-interleaved-with-requests"]), evid.Hash(b), append(cls, "verdict:"+verdict)...)
	if res != nil && len(res.Events) < 40 {
		var stream []string
		for _, ev := range res.Events {
			if ev.Kind == "enc" {
				stream = append(stream, fmt.Sprintf("%s id=%d seq=%d", ev.Ctor, ev.MsgID, ev.SeqNo))
			}
		}
		run.Sample(map[string]any{"outgoing_stream_as_received": stream})
	}
	return err
}

func TestC10(t *testing.T) {
	if p := hx.ReplayPath(); p != "" {
		var g struct{ Generator bool }
		if err := evid.LoadReplay(p, &g); err == nil && g.Generator {
			run.Case(true, 1)
			run.Case(true, 2)
			msgIDGenerator(t)
			return
		}
		var sc scen.Scenario
		if err := evid.LoadReplay(p, &sc); err != nil {
			t.Fatal(err)
		}
		run.Case(true, 1)
		if err := evaluate(&sc, nil); err != nil {
			if strings.HasPrefix(err.Error(), "INFRA:") {
				t.Fatalf("%v", err)
			}
			run.Violation(sc, err.Error())
			t.Fatalf("replay fails: %v", err)
		}
		return
	}
	t.Run("generated", func(t *testing.T) {
		rapid.Check(t, func(t *rapid.T) {
			sc, cls := gen(t)
			if err := evaluate(sc, cls); err != nil {
				if strings.HasPrefix(err.Error(), "INFRA:") {
					t.Skipf("%v", err)
				}
				hx.Fail(t, run, sc, err)
			}
		})
	})
}

var _ = refsrv.IDMsgsAck

// TestC10MsgID: the id generator on its own, called the way several clients of one process call it - from many
// goroutines at once, each under its own client's lock only. Every id is a multiple of four whose upper half is the
// current second.
func TestC10MsgID(t *testing.T) {
	if hx.ReplayPath() != "" {
		return
	}
	msgIDGenerator(t)
}

func msgIDGenerator(t *testing.T) {
	per := run.Pick(200000, 3000000)
	const workers = 8
	var wg sync.WaitGroup
	bad := make(chan string, workers)
	for w := 0; w < workers; w++ {
		wg.Add(1)
		go func(w int) {
			defer wg.Done()
			for i := 0; i < per; i++ {
				before := time.Now().Unix()
				id := utils.GenerateMessageId()
				after := time.Now().Unix()
				if id&3 != 0 {
					bad <- fmt.Sprintf("msg_id %d generated while %d goroutines generate ids is not a multiple of four", id, workers)
					return
				}
				if sec := id >> 32; sec < before-1 || sec > after+1 {
					bad <- fmt.Sprintf("msg_id %d is not derived from the current time: seconds part %d, clock %d..%d", id, sec, before, after)
					return
				}
			}
		}(w)
	}
	wg.Wait()
	close(bad)
	run.Class("msgid-generator:concurrent-calls", int64(workers*per))
	run.Case(true, evid.Hash("msgid-generator", run.Shard), "msgid-generator")
	for msg := range bad {
		p := run.ViolationNamed("msgid-generator", map[string]any{"Generator": true}, msg)
		t.Errorf("violation (replay %s): %s", p, msg)
		return
	}
}
