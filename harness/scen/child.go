package scen

import (
	"bytes"
	"crypto/rsa"
	"encoding/base64"
	"encoding/binary"
	"encoding/json"
	"errors"
	"fmt"
	"math/big"
	"os"
	"path/filepath"
	"runtime"
	"strings"
	"sync"
	"sync/atomic"
	"time"

	"github.com/xelaj/mtproto"
	"github.com/xelaj/mtproto/internal/encoding/tl"
	imath "github.com/xelaj/mtproto/internal/math"
	"github.com/xelaj/mtproto/internal/session"
	"github.com/xelaj/mtproto/telegram/verifh/ref"
	"github.com/xelaj/mtproto/telegram/verifh/refsrv"
)

// Env is the child's world: reference servers sharing one key store and one event sequence, a temp dir with the
// session file, and the client under test.
type Env struct {
	Sc      *Scenario
	Dir     string
	Hub     *refsrv.Hub
	Store   *refsrv.Store
	Key     *refsrv.RSAKey
	Srv     *refsrv.Server            // primary
	Servers map[string]*refsrv.Server // by name
	Client  *mtproto.MTProto
	Res     *Result
	outMu   sync.Mutex
	warnMu  sync.Mutex
	// StoreFaults: how many of the next session stores fail; StoreFailed: how many did
	StoreFaults, StoreFailed int32
}

func NewEnv(sc *Scenario) (*Env, error) {
	dir, err := os.MkdirTemp("", "verif-child-")
	if err != nil {
		return nil, err
	}
	e := &Env{Sc: sc, Dir: dir, Hub: &refsrv.Hub{}, Store: refsrv.NewStore(), Key: sc.RSA.Key(), Servers: map[string]*refsrv.Server{}, Res: &Result{Addrs: map[string]string{}}}
	e.Srv, err = e.AddServer("dc-main")
	return e, err
}

func (e *Env) AddServer(name string) (*refsrv.Server, error) {
	return e.AddServerWithKey(name, e.Key)
}

func (e *Env) AddServerWithKey(name string, key *refsrv.RSAKey) (*refsrv.Server, error) {
	s, err := refsrv.NewServer(name, key, e.Store, e.Hub)
	if err != nil {
		return nil, err
	}
	s.OnEvent = e.printEvent
	e.Servers[name] = s
	e.Res.Addrs[name] = s.Addr()
	if hs := e.Sc.HS; hs != nil {
		s.NextHS = func() refsrv.HSParams {
			return refsrv.HSParams{ServerNonce: hs.ServerNonce, P: hs.P, Q: hs.Q, PQPad8: hs.PQPad8, G: hs.G, A: hs.A, ServerTime: hs.ServerTime, PadSeed: hs.PadSeed, ExtraFingerprints: hs.ExtraFP, FingerprintsAfter: hs.ExtraFPAfter, Splits: hs.Splits, RetryFirst: hs.RetryFirst}
		}
	}
	s.Fault = e.Sc.Fault
	s.ClockOffset = e.Sc.ServerClockOffset
	return s, nil
}

func (e *Env) printEvent(ev refsrv.Event) {
	b, _ := json.Marshal(ev)
	e.outMu.Lock()
	os.Stdout.Write(append(append([]byte("EV "), b...), '\n'))
	e.outMu.Unlock()
}

func (e *Env) SessionPath() string { return filepath.Join(e.Dir, "session.json") }

func (e *Env) PublicKey() *rsa.PublicKey { return &rsa.PublicKey{N: e.Key.N, E: e.Key.E} }

// WriteSession stores a session file in the format the store documents (base64 fields, salt as 8 little-endian bytes).
func (e *Env) WriteSession(authKey []byte, salt int64, host string) error {
	sb := make([]byte, 8)
	binary.LittleEndian.PutUint64(sb, uint64(salt))
	doc := map[string]string{"key": base64.StdEncoding.EncodeToString(authKey), "hash": base64.StdEncoding.EncodeToString(ref.AuthKeyID(authKey)),
		"salt": base64.StdEncoding.EncodeToString(sb), "hostname": host}
	if e.Sc.Resume != nil && e.Sc.Resume.NoHash {
		doc["hash"] = ""
	}
	b, _ := json.Marshal(doc)
	return os.WriteFile(e.SessionPath(), b, 0o600)
}

// ReadSession parses the session file independently of the store's code. The store rewrites the file in place
// (truncate, then write), so a read that races with a rewrite sees a torn file: such a read is repeated.
func (e *Env) ReadSession() *SessionFile {
	var sf *SessionFile
	for i := 0; i < 200; i++ {
		sf = e.readSessionOnce()
		if !sf.Exists || sf.SaltOK {
			return sf
		}
		time.Sleep(time.Millisecond)
	}
	return sf
}

func (e *Env) readSessionOnce() *SessionFile {
	b, err := os.ReadFile(e.SessionPath())
	if err != nil {
		return &SessionFile{Exists: false}
	}
	sf := &SessionFile{Exists: true, Raw: string(b)}
	var doc map[string]string
	if json.Unmarshal(b, &doc) != nil {
		return sf
	}
	sf.Key, _ = base64.StdEncoding.DecodeString(doc["key"])
	sf.Hash, _ = base64.StdEncoding.DecodeString(doc["hash"])
	if s, err := base64.StdEncoding.DecodeString(doc["salt"]); err == nil && len(s) == 8 {
		sf.Salt, sf.SaltOK = int64(binary.LittleEndian.Uint64(s)), true
	}
	sf.Hostname = doc["hostname"]
	return sf
}

// InstallDraws routes the client's random draws through the tag-guarded hooks when the scenario fixes them.
func (e *Env) InstallDraws() {
	d := e.Sc.Draws
	if d == nil {
		return
	}
	var mu sync.Mutex
	n128, n256 := 0, 0
	tl.VerifRandomHook = func(size int) []byte {
		mu.Lock()
		defer mu.Unlock()
		switch size {
		case 16:
			n128++
			if n128 == 1 && d.Nonce != nil {
				return d.Nonce
			}
		case 32:
			n256++
			if n256 == 1 && d.NewNonce != nil {
				return d.NewNonce
			}
		}
		return nil
	}
	if d.B != nil {
		used := false
		imath.VerifExponentHook = func() *big.Int {
			mu.Lock()
			defer mu.Unlock()
			if used {
				return nil
			}
			used = true
			return new(big.Int).SetBytes(d.B)
		}
	}
}

// NewClient creates the client under test on the session file, pointed at the primary server.
// faultyStore is the file store of the client with a switch: the next StoreFaults calls of Store fail the way a full
// disk does (nothing is written). Load is untouched.
type faultyStore struct {
	inner session.SessionLoader
	e     *Env
}

func (f faultyStore) Load() (*session.Session, error) { return f.inner.Load() }

func (f faultyStore) Store(s *session.Session) error {
	if atomic.LoadInt32(&f.e.StoreFaults) > 0 {
		atomic.AddInt32(&f.e.StoreFaults, -1)
		atomic.AddInt32(&f.e.StoreFailed, 1)
		return errors.New("write session: no space left on device")
	}
	return f.inner.Store(s)
}

func (e *Env) NewClient(host string) error {
	var callersLoader session.SessionLoader
	cfg := mtproto.Config{AuthKeyFile: e.SessionPath(), ServerHost: host, PublicKey: e.PublicKey()}
	if r := e.Sc.Resume; r != nil && r.Via != "" {
		callersLoader = session.NewFromFile(e.SessionPath())
		cfg = mtproto.Config{SessionStorage: callersLoader, ServerHost: host, PublicKey: e.PublicKey()}
		other := filepath.Join(e.Dir, "legacy-session.json")
		switch r.Via {
		case "both-absent":
			cfg.AuthKeyFile = other
		case "both-other":
			cfg.AuthKeyFile = other
			ok := append([]byte{}, r.AuthKey...)
			for i := range ok {
				ok[i] ^= 0x3c
			}
			sb := make([]byte, 8)
			binary.LittleEndian.PutUint64(sb, uint64(r.Salt+1))
			b, _ := json.Marshal(map[string]string{"key": base64.StdEncoding.EncodeToString(ok), "hash": base64.StdEncoding.EncodeToString(ref.AuthKeyID(ok)),
				"salt": base64.StdEncoding.EncodeToString(sb), "hostname": "127.0.0.1:9"})
			if err := os.WriteFile(other, b, 0o600); err != nil {
				return err
			}
		}
	}
	if e.Sc.RPC != nil {
		for _, st := range e.Sc.RPC.Steps {
			if st.Op == "store-fault" {
				// only histories that plan a store failure run on the wrapped store
				cfg = mtproto.Config{SessionStorage: faultyStore{session.NewFromFile(e.SessionPath()), e}, ServerHost: host, PublicKey: e.PublicKey()}
			}
		}
	}
	m, err := mtproto.NewMTProto(cfg)
	if err != nil {
		return err
	}
	if r := e.Sc.Resume; callersLoader != nil && r != nil && cfg.SessionStorage == callersLoader {
		// the loader is the caller's object: it goes on using it (a second client on the same store, its own bookkeeping),
		// and what it reads through it is still what the store holds
		if got, lerr := callersLoader.Load(); lerr != nil {
			e.Res.Notes = append(e.Res.Notes, "loader-after-client: Load on the caller's loader fails once a client was made on it: "+lerr.Error())
		} else if !bytes.Equal(got.Key, r.AuthKey) || got.Salt != r.Salt {
			e.Res.Notes = append(e.Res.Notes, fmt.Sprintf("loader-after-client: the caller's loader returns key %x... salt %d after a client was made on it; the store holds key %x... salt %d", head(got.Key), got.Salt, head(r.AuthKey), r.Salt))
		}
	}
	m.Warnings = make(chan error, 1000)
	go func() {
		for w := range m.Warnings {
			e.warnMu.Lock()
			if len(e.Res.Warnings) < 200 {
				e.Res.Warnings = append(e.Res.Warnings, w.Error())
			}
			e.warnMu.Unlock()
		}
	}()
	e.Client = m
	return nil
}

// Connect runs CreateConnection with a patience; a panic that propagates out of it is recorded as such.
func (e *Env) Connect(patience time.Duration, abort <-chan struct{}) {
	type outcome struct {
		err error
		pan any
	}
	ch := make(chan outcome, 1)
	go func() {
		var o outcome
		defer func() {
			if r := recover(); r != nil {
				o.pan = r
			}
			ch <- o
		}()
		o.err = e.Client.CreateConnection()
	}()
	select {
	case o := <-ch:
		switch {
		case o.pan != nil:
			e.Res.ConnectPanic = fmt.Sprint(o.pan)
		case o.err != nil:
			e.Res.ConnectErr = o.err.Error()
		default:
			e.Res.Connected = true
		}
	case <-abort:
		e.Res.ConnectHung = true
		e.Res.Notes = append(e.Res.Notes, "connect abandoned: the server could not continue the exchange")
	case <-time.After(patience):
		// still computing? the factorisation of pq is the only long computation of the exchange: give it 8 times the
		// patience before the state (two dumps inside SplitPQ) is reported
		if strings.Contains(Goroutines(), "math.SplitPQ") {
			select {
			case o := <-ch:
				switch {
				case o.pan != nil:
					e.Res.ConnectPanic = fmt.Sprint(o.pan)
				case o.err != nil:
					e.Res.ConnectErr = o.err.Error()
				default:
					e.Res.Connected = true
				}
				return
			case <-time.After(7 * patience):
			}
			if strings.Contains(Goroutines(), "math.SplitPQ") {
				e.Res.ConnectHung = true
				e.Res.Notes = append(e.Res.Notes, fmt.Sprintf("STUCK-IN-SPLITPQ after %v", 8*patience))
				return
			}
		}
		e.Res.ConnectHung = true
		// did the server answer everything it received, long ago, while the client waits for an answer? Then the client
		// has all it needs and does not continue: its state, not the machine's load
		if n, age := e.answeredAll(); n > 0 && age >= patience/2 && strings.Contains(Goroutines(), "makeRequest") {
			time.Sleep(time.Second)
			if n2, _ := e.answeredAll(); n2 == n && strings.Contains(Goroutines(), "makeRequest") && !strings.Contains(Goroutines(), "math.SplitPQ") {
				e.Res.Notes = append(e.Res.Notes, fmt.Sprintf("CLIENT-IDLE-AFTER-REPLY: the server answered all %d messages it received, the last answer %v ago; the client still waits for an answer", n, age.Round(time.Millisecond)))
			}
		}
		e.Res.Notes = append(e.Res.Notes, "connect did not return within the patience; goroutines:\n"+Goroutines())
	}
}

// answeredAll: the main server has written a reply to every message of the (single) key exchange it received; returns
// how many and how long ago the last one was. 0 if that is not the state.
func (e *Env) answeredAll() (int, time.Duration) {
	hs := e.Srv.Handshakes()
	if len(hs) != 1 {
		return 0, 0
	}
	got, sent, last := atomic.LoadInt32(&hs[0].Got), atomic.LoadInt32(&hs[0].Sent), atomic.LoadInt64(&hs[0].LastSentMs)
	if got == 0 || got != sent {
		return 0, 0
	}
	return int(sent), time.Since(time.UnixMilli(last))
}

// Call performs one request with a patience and renders the outcome.
func (e *Env) Call(req tl.Object, patience time.Duration, hints ...any) CallResult {
	type outcome struct {
		v   any
		err error
		pan any
	}
	ch := make(chan outcome, 1)
	go func() {
		var o outcome
		defer func() {
			if r := recover(); r != nil {
				o.pan = r
			}
			ch <- o
		}()
		o.v, o.err = e.Client.MakeRequest(req)
	}()
	select {
	case o := <-ch:
		return render(o.v, o.err, o.pan)
	case <-time.After(patience):
		return CallResult{Hung: true}
	}
}

func render(v any, err error, pan any) CallResult {
	var cr CallResult
	switch {
	case pan != nil:
		cr.Panic = fmt.Sprint(pan)
	case err != nil:
		cr.Err = err.Error()
		if ec, ok := err.(*mtproto.ErrResponseCode); ok {
			cr.Code = ec.Code
		}
	default:
		cr.OK = true
		cr.GoType = fmt.Sprintf("%T", v)
		b, jerr := json.Marshal(v)
		if jerr == nil {
			cr.Value = string(b)
		} else {
			cr.Value = fmt.Sprintf("%+v", v)
		}
	}
	return cr
}

// Goroutines returns a full goroutine dump, reduced to goroutines inside the client or blocked in calls.
func Goroutines() string {
	buf := make([]byte, 1<<20)
	n := runtime.Stack(buf, true)
	var keep []string
	for _, g := range strings.Split(string(buf[:n]), "\n\n") {
		if strings.Contains(g, "github.com/xelaj/mtproto.") || strings.Contains(g, "xelaj/mtproto/internal") {
			lines := strings.Split(g, "\n")
			if len(lines) > 9 {
				lines = lines[:9]
			}
			keep = append(keep, strings.Join(lines, "\n"))
		}
	}
	return strings.Join(keep, "\n\n")
}

// Finish prints the result and ends the process without disconnecting the client (closing the connection while the
// receive loop still owes an acknowledgement would make it panic, which is not what a scenario is about).
func (e *Env) Finish() {
	e.Res.Done = true
	e.Hub.Events = nil // events were streamed
	for _, s := range e.Servers {
		e.Res.HS = append(e.Res.HS, s.HS...)
	}
	e.warnMu.Lock()
	b, _ := json.Marshal(e.Res)
	e.warnMu.Unlock()
	e.outMu.Lock()
	os.Stdout.Write(append(append([]byte("RESULT "), b...), '\n'))
	os.Stdout.Sync()
	e.outMu.Unlock()
	os.RemoveAll(e.Dir)
	os.Exit(0)
}

func head(b []byte) []byte {
	if len(b) > 6 {
		return b[:6]
	}
	return b
}
