package scen

import (
	"encoding/binary"
	"errors"
	"fmt"
	"hash/crc32"
	"path/filepath"
	"reflect"
	"regexp"
	"runtime"
	"strings"
	"sync"
	"sync/atomic"
	"time"

	"github.com/xelaj/mtproto"
	"github.com/xelaj/mtproto/internal/encoding/tl"
	"github.com/xelaj/mtproto/internal/mtproto/objects"
	"github.com/xelaj/mtproto/telegram"
	"github.com/xelaj/mtproto/telegram/verifh/refsrv"
)

// ---------- tagged requests ----------

// BuildTagged returns the request whose argument carries the tag, and the decoder hint the generated method of that
// function passes (nil when it passes none).
func BuildTagged(r ReqSpec) (tl.Object, reflect.Type) {
	switch r.Kind {
	case "object":
		return &telegram.MessagesGetDhConfigParams{Version: int32(r.Tag), RandomLength: 0}, nil
	case "bool":
		return &telegram.AccountCheckUsernameParams{Username: fmt.Sprintf("t%d", r.Tag)}, nil
	case "vecint":
		return &telegram.ContactsGetContactIDsParams{Hash: int32(r.Tag)}, reflect.TypeOf([]int32{})
	case "veclong":
		return &telegram.MessagesReceivedQueueParams{MaxQts: int32(r.Tag)}, reflect.TypeOf([]int64{})
	case "vecobj":
		return &telegram.UsersGetUsersParams{ID: []telegram.InputUser{&telegram.InputUserObj{UserID: int32(r.Tag), AccessHash: 7}}}, reflect.TypeOf([]telegram.User{})
	}
	panic("unknown request kind " + r.Kind)
}

// Expected renders the value a call with this tag must return (same rendering as renderTagged).
// bigResult: one tag in five gets a large answer (tens of kilobytes: many TCP segments, many reads of a gzip stream)
func bigResult(tag int) bool { return tag%5 == 2 || hugeResult(tag) }

// hugeResult: one tag in thirteen gets, if it asks for an object, more than a mebibyte (the largest file part a
// server hands out, plus its envelope)
func hugeResult(tag int) bool { return tag%13 == 12 }

func bigObjectTail(tag int) []byte {
	n := 20000 + (tag%13)*1000
	if hugeResult(tag) {
		n = 1<<20 + 4*(tag%997)
	}
	b := make([]byte, n)
	x := uint32(tag)*2654435761 + 1
	for i := range b {
		x = x*1664525 + 1013904223
		b[i] = byte(x >> 24)
	}
	return b
}

func bigVecLen(tag int) int { return 1500 + (tag%7)*997 }

// emptyVector: one vector answer in eleven has no items at all (a contact list of nobody)
func emptyVector(tag int) bool { return tag%11 == 0 && !bigResult(tag) }

func Expected(r ReqSpec) string {
	t := int64(r.Tag)
	if emptyVector(r.Tag) && strings.HasPrefix(r.Kind, "vec") {
		return r.Kind + ":[]"
	}
	switch r.Kind {
	case "object":
		if bigResult(r.Tag) {
			tail := bigObjectTail(r.Tag)
			return fmt.Sprintf("object:%d+%d bytes crc %08x", t, len(tail), crc32.ChecksumIEEE(tail))
		}
		return fmt.Sprintf("object:%d", t)
	case "bool":
		return fmt.Sprintf("bool:%v", t%2 == 0)
	case "vecint":
		return fmt.Sprintf("vecint:[%d %d %d]", t, t+1, t+2)
	case "veclong":
		if bigResult(r.Tag) {
			n := bigVecLen(r.Tag)
			var sum int64
			for i := 0; i < n; i++ {
				sum += t<<20 + int64(i)*int64(i)
			}
			return fmt.Sprintf("veclong:%d items, sum %d", n, sum)
		}
		return fmt.Sprintf("veclong:[%d %d]", t, t<<32|1)
	case "vecobj":
		return fmt.Sprintf("vecobj:[%d %d]", t, t+1)
	}
	return "?"
}

// renderTagged applies the type assertion the generated method would and renders the value.
func renderTagged(kind string, v any) string {
	switch kind {
	case "object":
		if o, ok := v.(*telegram.MessagesDhConfigNotModified); ok && len(o.Random) == 4 {
			return fmt.Sprintf("object:%d", binary.LittleEndian.Uint32(o.Random))
		}
		if o, ok := v.(*telegram.MessagesDhConfigNotModified); ok && len(o.Random) > 4 {
			return fmt.Sprintf("object:%d+%d bytes crc %08x", binary.LittleEndian.Uint32(o.Random), len(o.Random)-4, crc32.ChecksumIEEE(o.Random[4:]))
		}
	case "bool":
		if b, ok := v.(bool); ok {
			return fmt.Sprintf("bool:%v", b)
		}
	case "vecint":
		if s, ok := v.([]int32); ok {
			return "vecint:" + fmt.Sprint(s)
		}
	case "veclong":
		if s, ok := v.([]int64); ok && len(s) > 8 {
			var sum int64
			for _, x := range s {
				sum += x
			}
			return fmt.Sprintf("veclong:%d items, sum %d", len(s), sum)
		}
		if s, ok := v.([]int64); ok {
			return "veclong:" + fmt.Sprint(s)
		}
	case "vecobj":
		if s, ok := v.([]telegram.User); ok {
			var ids []int32
			for _, u := range s {
				if e, ok := u.(*telegram.UserEmpty); ok {
					ids = append(ids, e.ID)
				} else {
					return fmt.Sprintf("vecobj:unexpected element %T", u)
				}
			}
			return "vecobj:" + fmt.Sprint(ids)
		}
	}
	return fmt.Sprintf("wrong-go-type:%T", v)
}

var usernameTag = regexp.MustCompile(`^t(-?\d+)$`)

// parseTagged recognises a tagged request on the server side (by the constructor ids of the schema).
func parseTagged(body []byte) (tag int, kind string, ok bool) {
	r := &refsrv.R{B: body}
	switch r.U32() {
	case 0x26cf8950: // messages.getDhConfig version:int random_length:int
		return int(r.I32()), "object", r.Err == nil
	case 0x2714d86c: // account.checkUsername username:string
		m := usernameTag.FindStringSubmatch(string(r.Str()))
		if m == nil {
			return 0, "", false
		}
		fmt.Sscanf(m[1], "%d", &tag)
		return tag, "bool", true
	case 0x2caa4a42: // contacts.getContactIDs hash:int
		return int(r.I32()), "vecint", r.Err == nil
	case 0x55a5bb66: // messages.receivedQueue max_qts:int
		return int(r.I32()), "veclong", r.Err == nil
	case 0x0d91a548: // users.getUsers id:Vector<InputUser>
		if r.U32() != refsrv.IDVector || r.U32() < 1 || r.U32() != 0xd8292816 {
			return 0, "", false
		}
		return int(r.I32()), "vecobj", r.Err == nil
	}
	return 0, "", false
}

func resultBody(kind string, tag int) []byte {
	w := &refsrv.W{}
	t := int64(tag)
	if emptyVector(tag) && strings.HasPrefix(kind, "vec") {
		return w.U32(refsrv.IDVector).U32(0).B
	}
	switch kind {
	case "object":
		if bigResult(tag) {
			w.U32(0xc0e24635).Str(append(binary.LittleEndian.AppendUint32(nil, uint32(tag)), bigObjectTail(tag)...))
			break
		}
		w.U32(0xc0e24635).Str(binary.LittleEndian.AppendUint32(nil, uint32(tag)))
	case "bool":
		if t%2 == 0 {
			return refsrv.BoolTrue()
		}
		return refsrv.BoolFalse()
	case "vecint":
		w.U32(refsrv.IDVector).U32(3).I32(int32(t)).I32(int32(t + 1)).I32(int32(t + 2))
	case "veclong":
		if bigResult(tag) {
			n := bigVecLen(tag)
			w.U32(refsrv.IDVector).U32(uint32(n))
			for i := 0; i < n; i++ {
				w.I64(t<<20 + int64(i)*int64(i))
			}
			break
		}
		w.U32(refsrv.IDVector).U32(2).I64(t).I64(t<<32 | 1)
	case "vecobj":
		w.U32(refsrv.IDVector).U32(2).U32(0x200250ba).I32(int32(t)).U32(0x200250ba).I32(int32(t + 1))
	}
	return w.B
}

// ---------- director (named yield points) ----------

type director struct {
	mu         sync.Mutex
	seq        int
	log        []HookEvent
	tags       map[tl.Object]int        // request object -> tag
	holds      map[string]chan struct{} // "point/tag" -> release
	manual     map[string]func()        // manual holds: "point/tag" -> release
	arrived    map[int]bool             // tags the server has received (for Until)
	waitArrive map[int][]chan struct{}
}

func newDirector() *director {
	return &director{tags: map[tl.Object]int{}, holds: map[string]chan struct{}{}, manual: map[string]func(){}, arrived: map[int]bool{}, waitArrive: map[int][]chan struct{}{}}
}

func goid() int64 {
	var buf [64]byte
	n := runtime.Stack(buf[:], false)
	var id int64
	fmt.Sscanf(strings.TrimPrefix(string(buf[:n]), "goroutine "), "%d", &id)
	return id
}

func (d *director) hook(name string, args ...any) {
	ev := HookEvent{Point: name, G: goid()}
	tag, hasTag := 0, false
	for _, a := range args {
		switch v := a.(type) {
		case int64:
			switch {
			case name == "salt.adopted" && ev.Salt == 0 && ev.MsgID == 0:
				ev.Salt = v // first argument: the new salt; second: the rejected msg_id
			case name == "salt.adopted":
				ev.MsgID = v
			case ev.MsgID == 0:
				ev.MsgID = v
			default:
				ev.Salt = v
			}
		case tl.Object:
			d.mu.Lock()
			if t, ok := d.tags[v]; ok {
				tag, hasTag = t, true
			}
			d.mu.Unlock()
			if ev.Note == "" {
				ev.Note = fmt.Sprintf("%T", v)
			}
		}
	}
	if hasTag {
		ev.Note += fmt.Sprintf(" tag=%d", tag)
	}
	d.mu.Lock()
	d.seq++
	ev.Seq = d.seq
	d.log = append(d.log, ev)
	var ch chan struct{}
	if hasTag {
		ch = d.holds[fmt.Sprintf("%s/%d", name, tag)]
	}
	d.mu.Unlock()
	if ch != nil {
		<-ch
	}
}

// hold registers a hold; it is released when tag `until` has arrived at the server or after the patience.
func (d *director) hold(h *HoldSpec) {
	ch := make(chan struct{})
	key := fmt.Sprintf("%s/%d", h.Point, h.Tag)
	d.mu.Lock()
	d.holds[key] = ch
	d.mu.Unlock()
	release := func() {
		d.mu.Lock()
		if d.holds[key] == ch {
			delete(d.holds, key)
			close(ch)
		}
		d.mu.Unlock()
	}
	ms := h.Ms
	if ms <= 0 {
		ms = 150
	}
	if h.Manual {
		d.mu.Lock()
		d.manual[key] = release
		d.mu.Unlock()
		go func() {
			time.Sleep(time.Duration(ms) * time.Millisecond) // patience only makes the schedule less adversarial
			release()
		}()
		return
	}
	go func() {
		arrive := make(chan struct{})
		d.mu.Lock()
		if d.arrived[h.Until] {
			close(arrive)
		} else {
			d.waitArrive[h.Until] = append(d.waitArrive[h.Until], arrive)
		}
		d.mu.Unlock()
		select {
		case <-arrive:
		case <-time.After(time.Duration(ms) * time.Millisecond): // patience only makes the schedule less adversarial
		}
		release()
	}()
}

func (d *director) tagArrived(tag int) {
	d.mu.Lock()
	d.arrived[tag] = true
	for _, ch := range d.waitArrive[tag] {
		close(ch)
	}
	delete(d.waitArrive, tag)
	d.mu.Unlock()
}

// ---------- the script interpreter ----------

type pendingReq struct {
	req      *refsrv.Request
	conn     *refsrv.Conn
	kind     string
	answered bool
}

type rpcState struct {
	e        *Env
	dir      *director
	mu       sync.Mutex
	pending  map[int][]*pendingReq // tag -> arrivals (in order)
	calls    sync.WaitGroup
	inFlight atomic.Int64
	results  []CallResult
	probeN   int
}

func (st *rpcState) onRequest(c *refsrv.Conn, r *refsrv.Request) {
	if tag, kind, ok := parseTagged(r.Body); ok {
		st.mu.Lock()
		st.pending[tag] = append(st.pending[tag], &pendingReq{req: r, conn: c, kind: kind})
		n := len(st.pending[tag])
		st.mu.Unlock()
		c.S.LogNote("req", c, r.MsgID, fmt.Sprintf("tag=%d kind=%s arrival=%d", tag, kind, n))
		st.dir.tagArrived(tag)
		return
	}
	// anything else (probes, wrappers) is answered at once
	c.Send(refsrv.RpcResult(r.MsgID, refsrv.BoolTrue()), true)
}

func (st *rpcState) unanswered() int {
	st.mu.Lock()
	defer st.mu.Unlock()
	n := 0
	for _, l := range st.pending {
		for _, p := range l {
			if !p.answered {
				n++
			}
		}
	}
	return n
}

func (st *rpcState) startCalls(calls []CallSpec) {
	for _, cs := range calls {
		cs := cs
		st.calls.Add(1)
		st.inFlight.Add(1)
		go func() {
			defer st.calls.Done()
			defer st.inFlight.Add(-1)
			for _, r := range cs.Reqs {
				req, hint := BuildTagged(r)
				st.dir.mu.Lock()
				st.dir.tags[req] = r.Tag
				st.dir.mu.Unlock()
				cr := CallResult{Tag: r.Tag, Caller: cs.Caller, Kind: r.Kind}
				func() {
					defer func() {
						if p := recover(); p != nil {
							cr.Panic = fmt.Sprint(p)
						}
					}()
					var v any
					var err error
					if hint != nil {
						v, err = st.e.Client.MakeRequestWithHintToDecoder(req, hint)
					} else {
						v, err = st.e.Client.MakeRequest(req)
					}
					cr.Returns++
					if err != nil {
						cr.Err = err.Error()
						var ec *mtproto.ErrResponseCode
						if errors.As(err, &ec) {
							cr.Code = ec.Code
							cr.Value = ec.Message
							cr.Desc = ec.Description
							if ec.AdditionalInfo != nil {
								cr.Info = fmt.Sprintf("%T:%v", ec.AdditionalInfo, ec.AdditionalInfo)
							}
						}
						return
					}
					cr.OK = true
					cr.GoType = fmt.Sprintf("%T", v)
					cr.Value = renderTagged(r.Kind, v)
				}()
				st.mu.Lock()
				st.results = append(st.results, cr)
				st.mu.Unlock()
			}
		}()
	}
}

func (st *rpcState) conn(name string) *refsrv.Conn {
	s := st.e.Srv
	if name != "" && st.e.Servers[name] != nil {
		s = st.e.Servers[name]
	}
	cs := s.Conns()
	for i := len(cs) - 1; i >= 0; i-- {
		if cs[i].HasSession() && !cs[i].Closed() {
			return cs[i]
		}
	}
	return nil
}

// PushBody builds the body of a server-initiated message.
func PushBody(p *PushSpec) []byte {
	w := &refsrv.W{}
	switch p.Kind {
	case "pong":
		w.U32(refsrv.IDPong).I64(p.Arg).I64(p.Arg)
	case "ack":
		w.U32(refsrv.IDMsgsAck).VecI64([]int64{p.Arg})
	case "bad-msg":
		// error_code: the documented ones and any other number (the field is an int; a newer server may know more codes)
		codes := []int32{16, 17, 18, 19, 20, 32, 33, 34, 35, 48, 64, 0, 1, 21, 63, 65, 100, 255, 256, 321, -1, 2147483647, -2147483648}
		w.U32(refsrv.IDBadMsgNotify).I64(p.Arg).I32(1).I32(codes[int(uint64(p.Arg)>>2)%len(codes)])
	case "state-info":
		w.U32(refsrv.IDMsgsStateInfo).I64(p.Arg).Str([]byte{1, 4})
	case "all-info":
		w.U32(refsrv.IDMsgsAllInfo).VecI64([]int64{p.Arg, p.Arg + 4}).Str([]byte{4, 4})
	case "detailed-info":
		w.U32(refsrv.IDMsgDetailedInfo).I64(p.Arg).I64(p.Arg + 1).I32(24).I32(0)
	case "new-detailed-info":
		w.U32(refsrv.IDMsgNewDetailed).I64(p.Arg + 1).I32(24).I32(0)
	case "future-salts":
		w.U32(refsrv.IDFutureSalts).I64(p.Arg).I32(int32(time.Now().Unix())).U32(1).I32(1).I32(2).I64(99)
	case "result-unknown":
		return refsrv.RpcResult(p.Arg|1<<40, refsrv.BoolTrue())
	case "update":
		// updateShort{ update: updateUserTyping{user_id, sendMessageTypingAction}, date }
		w.U32(0x78d4dec1).U32(0x5c486927).I32(int32(p.Arg)).U32(0x16bf744e).I32(int32(time.Now().Unix()))
	case "updates-too-long":
		w.U32(0xe317af7e)
	case "unknown-ctor":
		w.U32(0xdeadbeef).I64(p.Arg).I64(p.Arg)
	case "truncated":
		b := refsrv.RpcError(400, "SOME_LONG_ERROR_TEXT_FOR_TRUNCATION")
		return b[:len(b)-8]
	case "empty-body":
		return []byte{}
	case "empty-container":
		w.U32(refsrv.IDMsgContainer).U32(0)
	case "nested-container":
		inner := (&refsrv.W{}).U32(refsrv.IDMsgContainer).U32(1).I64(p.Arg | 1).I32(0).U32(20).Raw((&refsrv.W{}).U32(refsrv.IDPong).I64(p.Arg).I64(p.Arg).B).B
		w.U32(refsrv.IDMsgContainer).U32(1).I64(p.Arg | 1).I32(0).U32(uint32(len(inner))).Raw(inner)
	case "gzip-damaged":
		// Arg: low bits choose the damage, the rest the position; the packed object is an unsolicited rpc_result
		return refsrv.GzipDamaged(refsrv.RpcResult(p.Arg|1<<40, refsrv.RpcError(400, "SOME_ERROR_TEXT_LONG_ENOUGH_TO_COMPRESS_SOME_ERROR_TEXT_LONG_ENOUGH_TO_COMPRESS")), int(p.Arg>>2)%6, int(p.Arg>>5))
	case "raw":
		return p.Body
	}
	return w.B
}

func (e *Env) runRPC() error {
	spec := e.Sc.RPC
	st := &rpcState{e: e, dir: newDirector(), pending: map[int][]*pendingReq{}}
	mtproto.VerifPointHook = st.dir.hook
	for _, s := range e.Servers {
		s.OnRequest = st.onRequest
		s.SeqStart = spec.ServerSeqStart
	}
	if !spec.Fresh {
		if e.Sc.Resume == nil {
			return fmt.Errorf("rpc scenario without key exchange needs a stored session")
		}
		e.Store.Put(e.Sc.Resume.AuthKey, e.Sc.Resume.Salt)
		if err := e.WriteSession(e.Sc.Resume.AuthKey, e.Sc.Resume.Salt, e.Srv.Addr()); err != nil {
			return err
		}
	} else {
		e.InstallDraws()
	}
	clientHost := e.Srv.Addr()
	if spec.Decoy {
		d, err := e.AddServer("decoy")
		if err != nil {
			return err
		}
		clientHost = d.Addr()
	}
	dcs := map[int]string{}
	for _, id := range spec.DCs {
		s, err := e.AddServer(fmt.Sprintf("dc-%d", id))
		if err != nil {
			return err
		}
		s.OnRequest = st.onRequest
		dcs[id] = s.Addr()
	}
	if len(spec.OtherClientDCs) > 0 {
		// what one client of a process is told about data centres is its own business
		other := map[int]string{}
		for _, id := range spec.OtherClientDCs {
			s, err := e.AddServer(fmt.Sprintf("dc-%d", id))
			if err != nil {
				return err
			}
			s.OnRequest = st.onRequest
			other[id] = s.Addr()
		}
		oc, err := mtproto.NewMTProto(mtproto.Config{AuthKeyFile: filepath.Join(e.Dir, "other-client-session.json"), ServerHost: clientHost, PublicKey: e.PublicKey()})
		if err != nil {
			return err
		}
		oc.SetDCList(other)
	}
	if err := e.NewClient(clientHost); err != nil {
		return err
	}
	if len(dcs) > 0 {
		e.Client.SetDCList(dcs)
		// the map is the caller's: it goes on using it for something else (the list of another client, a cleared map)
		for id := range dcs {
			dcs[id] = "127.0.0.1:9"
		}
		dcs[8], dcs[9] = "127.0.0.1:9", "127.0.0.1:9"
	}
	// one registered handler, as the examples do: it takes updateShort, everything else goes to the warning channel
	var second sync.Once
	e.Client.AddCustomServerRequestHandler(func(i any) bool {
		_, ok := i.(*telegram.UpdateShort)
		if ok {
			e.Srv.LogNote("handler-call", nil, 0, fmt.Sprintf("%T", i))
		}
		// an application installs its working handler when the first server message arrives: from inside the callback
		second.Do(func() {
			e.Client.AddCustomServerRequestHandler(func(any) bool { return false })
			e.Srv.LogNote("handler-registered-from-handler", nil, 0, fmt.Sprintf("%T", i))
		})
		return ok
	})
	e.Connect(e.patience(), nil)
	if !e.Res.Connected {
		e.Res.Session = e.ReadSession()
		e.Finish()
	}
	// the server learns which key and session a connection belongs to from the client's first message
	{
		cr := e.Call(&telegram.AccountCheckUsernameParams{Username: "probe0"}, e.stepPatience())
		cr.Tag, cr.Kind = 0, "probe"
		st.results = append(st.results, cr)
		if !cr.OK {
			e.Res.Notes = append(e.Res.Notes, fmt.Sprintf("warm-up request failed: %+v", cr))
			if cr.Hung {
				e.Res.Stall = inspectStall(1)
			}
			e.Res.Calls = st.snapshot()
			e.Res.Hooks = st.dir.snapshot()
			e.Res.Session = e.ReadSession()
			e.Finish()
		}
	}
	for i, step := range spec.Steps {
		switch step.Op {
		case "call":
			st.startCalls(step.Calls)
		case "await-requests":
			deadline := time.Now().Add(e.stepPatience())
			for st.unanswered() < step.N && time.Now().Before(deadline) {
				time.Sleep(200 * time.Microsecond)
			}
			if st.unanswered() < step.N {
				e.Res.Notes = append(e.Res.Notes, fmt.Sprintf("step %d: only %d of %d requests arrived", i, st.unanswered(), step.N))
			}
		case "answer":
			c := st.conn(step.Server)
			if c == nil {
				e.Res.Notes = append(e.Res.Notes, fmt.Sprintf("step %d: no connection to answer on", i))
				continue
			}
			var items []*refsrv.Item
			var stamped []*refsrv.Prepared
			for _, it := range step.Items {
				st.mu.Lock()
				var p *pendingReq
				l := st.pending[it.Tag]
				for k := len(l) - 1; k >= 0; k-- {
					if !l[k].answered || it.Again {
						p = l[k]
						break
					}
				}
				if p != nil {
					p.answered = true
				}
				st.mu.Unlock()
				if p == nil {
					e.Res.Notes = append(e.Res.Notes, fmt.Sprintf("step %d: tag %d is not pending", i, it.Tag))
					continue
				}
				var result []byte
				if it.ErrCode != 0 || it.ErrText != "" {
					result = refsrv.RpcError(it.ErrCode, it.ErrText)
				} else {
					result = resultBody(p.kind, it.Tag)
				}
				if it.Gzip {
					result = refsrv.GzipPackedStyle(result, it.GzipStyle)
				}
				body := refsrv.RpcResult(p.req.MsgID, result)
				e.Srv.LogNote("answer", c, p.req.MsgID, fmt.Sprintf("tag=%d gzip=%v container=%v err=%d", it.Tag, it.Gzip, step.Container, it.ErrCode))
				if step.Container {
					items = append(items, &refsrv.Item{Body: body, ContentRelated: true})
				} else if step.ReverseWire {
					pc := c
					if step.Server == "" && p.conn != nil && !p.conn.Closed() {
						pc = p.conn
					}
					stamped = append(stamped, pc.Prepare(body, true))
				} else if step.Server == "" && p.conn != nil && !p.conn.Closed() {
					p.conn.Send(body, true) // where the request arrived
				} else {
					c.Send(body, true)
				}
			}
			for k := len(stamped) - 1; k >= 0; k-- {
				stamped[k].Write()
			}
			if step.Container && len(items) > 0 && step.Push != nil {
				// a service message of the server's own travels in the same container as the answers (behind them, or - odd
				// argument - in front of them)
				it := &refsrv.Item{Body: PushBody(step.Push), ContentRelated: step.Push.ContentRelated}
				if step.Push.Arg>>2&1 == 1 {
					items = append([]*refsrv.Item{it}, items...)
				} else {
					items = append(items, it)
				}
			}
			if step.Container && len(items) > 0 {
				if step.Nested {
					c.SendNested(items)
				} else {
					c.SendContainer(items)
				}
			}
		case "push":
			c := st.conn(step.Server)
			if c == nil {
				e.Res.Notes = append(e.Res.Notes, fmt.Sprintf("step %d: no connection to push on", i))
				continue
			}
			if step.Push.Kind == "forged-plain-result" || step.Push.Kind == "corrupted-result" || strings.HasPrefix(step.Push.Kind, "mangled:") {
				// an attacker on the path: a result for the pending request Arg that the key holder never sealed
				st.mu.Lock()
				var p *pendingReq
				if l := st.pending[int(step.Push.Arg)]; len(l) > 0 {
					p = l[len(l)-1]
				}
				st.mu.Unlock()
				if p == nil {
					e.Res.Notes = append(e.Res.Notes, fmt.Sprintf("step %d: tag %d is not pending", i, step.Push.Arg))
					continue
				}
				forged := refsrv.RpcResult(p.req.MsgID, resultBody(p.kind, int(step.Push.Arg)+1)) // the value of another tag
				e.Srv.LogNote("push", c, 0, step.Push.Kind)
				if op, ok := strings.CutPrefix(step.Push.Kind, "mangled:"); ok {
					// Body: two 16-bit parameters, then the noise seed
					b := append(append([]byte{}, step.Push.Body...), 0, 0, 0, 0)
					if f := c.MangledFrame(forged, op, int(b[0])<<8|int(b[1]), int(b[2])<<8|int(b[3]), b[4:]); f != nil {
						c.WriteFrame(f)
					} else {
						e.Res.Notes = append(e.Res.Notes, fmt.Sprintf("step %d: no connection to push on (mangled frame)", i))
					}
				} else if step.Push.Kind == "forged-plain-result" {
					w := &refsrv.W{}
					w.I64(0).I64(time.Now().Unix()<<32 | 1).U32(uint32(len(forged))).Raw(forged)
					c.WriteFrame(w.B)
				} else {
					f := c.SealFrame(forged, true)
					bit := 0
					if len(step.Push.Body) >= 2 {
						bit = int(step.Push.Body[0])<<8 | int(step.Push.Body[1])
					}
					bit %= len(f) * 8
					f[bit/8] ^= 1 << (bit % 8)
					c.WriteFrame(f)
				}
				continue
			}
			if step.Push.Split > 0 {
				c.SplitNext = step.Push.Split
			}
			if op, ok := strings.CutPrefix(step.Push.Kind, "envelope:"); ok {
				// a well-formed pong in an envelope that breaks the rules of the envelope itself (declared length, msg_id
				// parity, damaged or foreign ciphertext): nothing the client may die of
				a, b := int(step.Push.Arg>>8)&0xffff, int(step.Push.Arg>>2)&0x3f
				f := c.MangledFrame(PushBody(&PushSpec{Kind: "pong", Arg: step.Push.Arg}), op, a, b, []byte{byte(step.Push.Arg >> 3), byte(step.Push.Arg >> 11), byte(i)})
				if f == nil {
					e.Res.Notes = append(e.Res.Notes, fmt.Sprintf("step %d: no connection to push on (envelope)", i))
					continue
				}
				e.Srv.LogNote("push", c, 0, step.Push.Kind)
				c.WriteFrame(f)
				continue
			}
			if step.Push.Kind == "redeliver" {
				// the acknowledgement of the last content-related message got lost: the server sends the message again
				if id := c.Redeliver(); id == 0 {
					e.Res.Notes = append(e.Res.Notes, fmt.Sprintf("step %d: nothing to redeliver", i))
				}
				continue
			}
			if step.Push.Kind == "bad-msg-clock" {
				// a server whose clock differs from the client's by Arg seconds tells it so: bad_msg_notification 16 / 17
				// for the client's latest message, in an envelope whose msg_id carries the server's time
				var last int64
				for _, ev := range e.Hub.Snapshot() {
					if ev.Kind == "enc" {
						last = ev.MsgID
					}
				}
				code := int32(17) // msg_id too high: the client's clock is ahead
				if step.Push.Arg > 0 {
					code = 16
				}
				e.Srv.LogNote("push", c, 0, fmt.Sprintf("bad-msg-clock skew=%ds", step.Push.Arg))
				c.SendRawEncrypted((time.Now().Unix()+step.Push.Arg)<<32|1, 0, (&refsrv.W{}).U32(refsrv.IDBadMsgNotify).I64(last).I32(1).I32(code).B)
				continue
			}
			body := PushBody(step.Push)
			if step.Push.Gzip {
				body = refsrv.GzipPacked(body)
			}
			e.Srv.LogNote("push", c, 0, step.Push.Kind)
			switch {
			case step.Push.Kind == "plain":
				c.WriteFrame(step.Push.Body)
			case step.Push.InContainer:
				c.SendContainer([]*refsrv.Item{{Body: body, ContentRelated: step.Push.ContentRelated}})
			default:
				c.Send(body, step.Push.ContentRelated)
			}
		case "rotate":
			c := st.conn(step.Server)
			if c != nil {
				c.SetSalt(step.Salt)
				e.Srv.LogNote("rotate", c, 0, fmt.Sprintf("salt=%d", step.Salt))
			} else {
				e.Res.Notes = append(e.Res.Notes, fmt.Sprintf("step %d: no connection to rotate on", i))
			}
		case "rotate-rolling":
			// each of the next N content-related messages finds the salt it carries just retired
			srv := e.Srv
			if step.Server != "" && e.Servers[step.Server] != nil {
				srv = e.Servers[step.Server]
			}
			atomic.StoreInt32(&srv.RollingSalts, int32(step.N))
		case "bad-salt":
			// salt rotation announced for a message nobody waits for: an unknown id (Push.Kind "unknown") or the id of
			// an already answered request (Push.Kind "answered", tag in Push.Arg)
			c := st.conn(step.Server)
			if c == nil {
				e.Res.Notes = append(e.Res.Notes, fmt.Sprintf("step %d: no connection to push on", i))
				continue
			}
			id := step.Push.Arg
			if step.Push.Kind == "last-ack" {
				// the rejected message is the client's latest acknowledgement: what a server does to an ack that arrives
				// under a salt it has just retired
				for _, ev := range e.Hub.Snapshot() {
					if ev.Kind == "ack" {
						id = ev.MsgID
					}
				}
			}
			if step.Push.Kind == "answered" {
				st.mu.Lock()
				if l := st.pending[int(step.Push.Arg)]; len(l) > 0 {
					id = l[len(l)-1].req.MsgID
				}
				st.mu.Unlock()
			}
			c.SetSalt(step.Salt)
			e.Srv.LogNote("bad-salt", c, id, fmt.Sprintf("salt=%d for=%s burst=%d", step.Salt, step.Push.Kind, step.N))
			body := (&refsrv.W{}).U32(refsrv.IDBadServerSalt).I64(id).I32(1).I32(48).I64(step.Salt).B
			if step.N > 1 {
				// the server has gone through several salts in a row: one container, the notifications in order, the
				// current salt last
				var items []*refsrv.Item
				for k := step.N - 1; k >= 0; k-- {
					items = append(items, &refsrv.Item{Body: (&refsrv.W{}).U32(refsrv.IDBadServerSalt).I64(id + int64(4*k)).I32(1).I32(48).I64(step.Salt - int64(k)).B})
				}
				c.SendContainer(items)
			} else if step.Push.InContainer {
				c.SendContainer([]*refsrv.Item{{Body: body}})
			} else {
				c.Send(body, false)
			}
		case "new-session":
			c := st.conn(step.Server)
			if c != nil {
				c.SetSalt(step.Salt)
				e.Srv.LogNote("new-session", c, 0, fmt.Sprintf("salt=%d", step.Salt))
				uid := int64(i) + 1
				switch spec.NewSessionUID {
				case "zero":
					uid = 0
				case "same":
					uid = 0x5e55107
				}
				c.Send((&refsrv.W{}).U32(refsrv.IDNewSession).I64(time.Now().Unix()<<32).I64(uid).I64(step.Salt).B, true)
			}
		case "close":
			if c := st.conn(step.Server); c != nil {
				e.Srv.LogNote("close", c, 0, "")
				c.Close()
			}
		case "close-latest":
			// the server closes the newest connection whether or not the client has said anything on it yet
			srv := e.Srv
			if step.Server != "" && e.Servers[step.Server] != nil {
				srv = e.Servers[step.Server]
			}
			if cs := srv.Conns(); len(cs) > 0 && !cs[len(cs)-1].Closed() {
				e.Srv.LogNote("close", cs[len(cs)-1], 0, "before the client spoke")
				cs[len(cs)-1].Close()
			}
		case "await-calls":
			if !st.awaitCalls() {
				e.Res.Calls = st.snapshot()
				e.Res.Hooks = st.dir.snapshot()
				e.Res.Session = e.ReadSession()
				e.Finish()
			}
		case "probe":
			st.probeN++
			pat := e.stepPatience()
			if step.Retry {
				pat = 400 * time.Millisecond
			}
			cr := e.Call(&telegram.AccountCheckUsernameParams{Username: fmt.Sprintf("probe%d", st.probeN)}, pat)
			for try := 0; step.Retry && try < 12 && !cr.OK && cr.Panic == ""; try++ {
				// the client is between two connections: a request made right now may fail with a write error or go out on
				// the connection the server has already closed (and be lost); "later requests complete" is about requests
				// made after the reconnection, so the probe is repeated
				time.Sleep(5 * time.Millisecond)
				e.Res.Notes = append(e.Res.Notes, fmt.Sprintf("probe repeated (hung=%v err=%s)", cr.Hung, cr.Err))
				if try == 11 {
					pat = e.stepPatience()
				}
				cr = e.Call(&telegram.AccountCheckUsernameParams{Username: fmt.Sprintf("probe%d", st.probeN)}, pat)
			}
			cr.Tag, cr.Kind = -st.probeN, "probe"
			if cr.Hung {
				e.Res.Stall = inspectStall(int(st.inFlight.Load()) + 1)
			}
			st.mu.Lock()
			st.results = append(st.results, cr)
			st.mu.Unlock()
			if cr.Hung {
				e.Res.Calls = st.snapshot()
				e.Res.Hooks = st.dir.snapshot()
				e.Res.Session = e.ReadSession()
				e.Finish()
			}
		case "await-reconnect":
			// after the server closed the connection: wait until the client has opened a new one (state, not time, decides:
			// if none appears within the patience the goroutine dump tells whether the client is idle)
			deadline := time.Now().Add(e.stepPatience())
			for len(e.Srv.Conns()) < step.N && time.Now().Before(deadline) {
				time.Sleep(500 * time.Microsecond)
			}
			if len(e.Srv.Conns()) < step.N {
				e.Res.Notes = append(e.Res.Notes, fmt.Sprintf("step %d: no reconnection (have %d connections, want %d)", i, len(e.Srv.Conns()), step.N))
				e.Res.Stall = inspectStall(0)
				e.Res.Calls = st.snapshot()
				e.Res.Hooks = st.dir.snapshot()
				e.Res.Session = e.ReadSession()
				e.Finish()
			}
		case "await-acks":
			// wait until every content-related message the server sent has been acknowledged (or the patience is over;
			// then the state is inspected and the parent judges)
			deadline := time.Now().Add(e.stepPatience())
			var missing []int64
			for {
				missing = e.unacked()
				if len(missing) == 0 || time.Now().After(deadline) {
					break
				}
				time.Sleep(500 * time.Microsecond)
			}
			if len(missing) > 0 {
				e.Res.Stall = inspectStall(0)
				e.Res.Notes = append(e.Res.Notes, fmt.Sprintf("unacked:%v state=%s", missing, e.Res.Stall.Verdict))
			}
		case "hold":
			st.dir.hold(step.Hold)
		case "release":
			st.dir.mu.Lock()
			rel := st.dir.manual[fmt.Sprintf("%s/%d", step.Hold.Point, step.Hold.Tag)]
			st.dir.mu.Unlock()
			if rel != nil {
				rel()
			}
		case "ping":
			// the keep-alive message the client sends on its own once a minute, sent now: the call is not awaited (the
			// server answers a ping with a bare pong, which no caller is handed)
			before := st.e.countCtor("7abe77ec")
			go func(id int64) {
				defer func() { recover() }()
				e.Client.MakeRequest(&objects.PingParams{PingID: id})
			}(int64(i) + 0x7001)
			for deadline := time.Now().Add(e.stepPatience()); st.e.countCtor("7abe77ec") == before && time.Now().Before(deadline); {
				time.Sleep(200 * time.Microsecond)
			}
			if st.e.countCtor("7abe77ec") == before {
				e.Res.Notes = append(e.Res.Notes, fmt.Sprintf("step %d: the ping did not arrive", i))
			}
		case "store-fault":
			// the next N stores of the session fail (disk full); with N = 0: wait until the announced failures have happened
			if step.N > 0 {
				atomic.StoreInt32(&e.StoreFaults, int32(step.N))
				e.Srv.LogNote("store-fault", nil, 0, fmt.Sprintf("next=%d", step.N))
			} else {
				for deadline := time.Now().Add(e.stepPatience()); atomic.LoadInt32(&e.StoreFaults) > 0 && time.Now().Before(deadline); {
					time.Sleep(time.Millisecond)
				}
				if atomic.LoadInt32(&e.StoreFaults) > 0 {
					e.Res.Notes = append(e.Res.Notes, fmt.Sprintf("step %d: the client did not try to store the session (requests arrived: none judged)", i))
					atomic.StoreInt32(&e.StoreFaults, 0)
				}
			}
		case "sleep":
			time.Sleep(time.Duration(step.Ms) * time.Millisecond)
		case "session-snapshot":
			sf := e.ReadSession()
			// the store follows the adoption, and the adoption follows the server's rejection: on a busy machine the
			// script can get here first. Only a salt that never arrives within the patience is a finding.
			for deadline := time.Now().Add(e.stepPatience()); step.Salt != 0 && (!sf.Exists || sf.Salt != step.Salt) && time.Now().Before(deadline); {
				time.Sleep(2 * time.Millisecond)
				sf = e.ReadSession()
			}
			e.Srv.LogNote("session-file", nil, 0, fmt.Sprintf("exists=%v salt=%d salt_ok=%v", sf.Exists, sf.Salt, sf.SaltOK))
		default:
			return fmt.Errorf("unknown step op %q", step.Op)
		}
	}
	e.Res.Calls = st.snapshot()
	e.Res.Hooks = st.dir.snapshot()
	e.Res.Session = e.ReadSession()
	e.Res.ClientSalt = e.Client.GetServerSalt()
	e.Res.ClientAuthKey = e.Client.GetAuthKey()
	// let trailing acknowledgements reach the server before the process ends
	time.Sleep(30 * time.Millisecond)
	e.Finish()
	return nil
}

func (e *Env) stepPatience() time.Duration {
	if e.Sc.PatienceMs > 0 {
		return time.Duration(e.Sc.PatienceMs) * time.Millisecond
	}
	return 3 * time.Second
}

func (st *rpcState) snapshot() []CallResult {
	st.mu.Lock()
	defer st.mu.Unlock()
	return append([]CallResult{}, st.results...)
}

func (d *director) snapshot() []HookEvent {
	d.mu.Lock()
	defer d.mu.Unlock()
	return append([]HookEvent{}, d.log...)
}

// awaitCalls waits for all started calls; after the patience it inspects the state instead of judging by time.
func (st *rpcState) awaitCalls() bool {
	done := make(chan struct{})
	go func() { st.calls.Wait(); close(done) }()
	select {
	case <-done:
		return true
	case <-time.After(st.e.stepPatience()):
		st.e.Res.Stall = inspectStall(int(st.inFlight.Load()))
		return false
	}
}

// inspectStall takes two goroutine dumps 300 ms apart. STALL only if, in both, the receive loop is blocked sending
// on a channel inside the response processing and the callers are blocked receiving: a quiescent deadlocked state.
func inspectStall(blockedCallers int) *Stall {
	look := func() (loopAt string, callers int, dump string) {
		buf := make([]byte, 1<<20)
		n := runtime.Stack(buf, true)
		for _, g := range strings.Split(string(buf[:n]), "\n\n") {
			if !strings.Contains(g, "github.com/xelaj/mtproto.") {
				continue
			}
			head := strings.SplitN(g, "\n", 2)[0]
			if strings.Contains(g, "startReadingResponses") || strings.Contains(g, ".readMsg") {
				if strings.Contains(head, "chan send") {
					loopAt = firstFrame(g)
				} else if strings.Contains(head, "[running") || strings.Contains(head, "[runnable") {
					// computing, not waiting: if it is still in the same function seconds later it will not come back
					loopAt = firstFrame(g) + " [busy]"
				} else if st := lockState(head); st != "" {
					// waiting for a lock that nobody releases is as final as a send nobody receives
					loopAt = firstFrame(g) + " [" + st + "]"
				} else {
					loopAt = "not-blocked-in-send: " + head
				}
				dump += g + "\n\n"
			}
			if strings.Contains(g, ".makeRequest") && strings.Contains(head, "chan receive") && !strings.Contains(g, "startReadingResponses") {
				callers++
			}
		}
		return
	}
	a1, c1, dump := look()
	time.Sleep(300 * time.Millisecond)
	a2, c2, _ := look()
	if strings.Contains(a1, " [") && a1 == a2 {
		// a lock can be contended for a moment: it has to stay that way for another second
		time.Sleep(time.Second)
		a2, c2, _ = look()
	}
	if strings.HasSuffix(a1, " [busy]") && a1 == a2 {
		// a busy loop and a goroutine starved by a loaded machine look alike for a while: two more seconds in the same
		// function of the client (3.3 s in all, after the step's patience has already run out)
		time.Sleep(2 * time.Second)
		a2, c2, _ = look()
	}
	if a1 == "" && a2 == "" && c1 > 0 && c1 == c2 {
		// no receive loop at all while callers wait: between two connections that lasts for the time of a dial; if it is
		// still so after another second and a half, nobody will ever read an answer for them
		time.Sleep(1500 * time.Millisecond)
		if a3, c3, _ := look(); a3 == "" && c3 == c1 {
			return &Stall{LoopAt: "no receive loop exists (the client has stopped reading) while callers wait", Blocked: c1, Verdict: "STALL"}
		}
	}
	s := &Stall{LoopAt: a1, Blocked: c1, Dump: dump}
	idle := func(a string) bool {
		return strings.HasPrefix(a, "not-blocked") && (strings.Contains(a, "[select") || strings.Contains(a, "[IO wait") || strings.Contains(a, "[chan receive"))
	}
	switch {
	case a1 != "" && a1 == a2 && !strings.HasPrefix(a1, "not-blocked") && c1 > 0 && c1 == c2:
		s.Verdict = "STALL" // the receive loop is blocked handing something over and will never read again
	case idle(a1) && idle(a2) && c1 == c2 && (c1 > 0 || blockedCallers == 0):
		s.Verdict = "IDLE" // the receive loop waits for input while callers wait for answers: whatever was sent to them is lost
	default:
		s.Verdict = "INCONCLUSIVE"
	}
	return s
}

func lockState(head string) string {
	for _, st := range []string{"sync.Mutex.Lock", "sync.RWMutex.Lock", "sync.RWMutex.RLock", "semacquire", "sync.Cond.Wait", "sync.WaitGroup.Wait"} {
		if strings.Contains(head, "["+st) {
			return st
		}
	}
	return ""
}

func firstFrame(g string) string {
	for _, l := range strings.Split(g, "\n") {
		if strings.HasPrefix(l, "github.com/xelaj/mtproto.") {
			return strings.TrimSpace(strings.SplitN(l, "(0x", 2)[0])
		}
	}
	return "?"
}

// countCtor counts the encrypted client messages with that constructor the servers have seen.
func (e *Env) countCtor(ctor string) int {
	n := 0
	for _, ev := range e.Hub.Snapshot() {
		if (ev.Kind == "enc" || ev.Kind == "item") && ev.Ctor == ctor {
			n++
		}
	}
	return n
}

// unacked lists the content-related messages the servers sent that no received msgs_ack names yet.
func (e *Env) unacked() []int64 {
	evs := e.Hub.Snapshot()
	// every delivery wants an acknowledgement that arrives after it: a message delivered again after its first
	// acknowledgement is acknowledged again
	lastAck := map[int64]int{}
	for _, ev := range evs {
		if ev.Kind == "ack" {
			for _, id := range ev.IDs {
				lastAck[id] = ev.Seq
			}
		}
	}
	var out []int64
	for _, ev := range evs {
		if ev.Kind == "sent" && ev.SeqNo&1 == 1 && ev.Note != "raw" && lastAck[ev.MsgID] < ev.Seq {
			out = append(out, ev.MsgID)
		}
	}
	return out
}
