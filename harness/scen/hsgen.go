package scen

import (
	"encoding/binary"
	"encoding/json"
	"fmt"
	"math/big"
	"os"
	"path/filepath"
	"time"

	"github.com/xelaj/mtproto/telegram/verifh/ref"
	"github.com/xelaj/mtproto/telegram/verifh/refsrv"
)

// Source of generator choices (rapid-backed or deterministic).
type Source interface {
	Bytes(label string, n int) []byte
	Int(label string, n int) int // [0,n)
}

// KeyPool loads the committed RSA key pool (/verif/corpus/rsa/keys.json).
func KeyPool() ([]refsrv.RSAKeyJSON, error) {
	root := os.Getenv("VERIF_ROOT")
	if root == "" {
		root = "/verif"
	}
	b, err := os.ReadFile(filepath.Join(root, "corpus", "rsa", "keys.json"))
	if err != nil {
		return nil, err
	}
	var keys []refsrv.RSAKeyJSON
	return keys, json.Unmarshal(b, &keys)
}

func nextPrime(v uint64) uint64 {
	if v < 2 {
		return 2
	}
	for ; ; v++ {
		if new(big.Int).SetUint64(v).ProbablyPrime(8) {
			return v
		}
	}
}

// drawPrime: primes from three size classes [2,2^16), [2^16,2^28), [2^28,2^32), weighted 2:5:3 (the client's
// factorisation is slow for big ones; all of them terminate).
func drawPrime(s Source, label string) uint64 {
	var lo, hi uint64
	switch c := s.Int(label+".class", 10); {
	case c < 2:
		lo, hi = 2, 1<<16
	case c < 7:
		lo, hi = 1<<16, 1<<28
	default:
		lo, hi = 1<<28, 1<<32-1000
	}
	v := lo + binary.LittleEndian.Uint64(s.Bytes(label, 8))%(hi-lo)
	p := nextPrime(v)
	if p >= 1<<32 {
		p = nextPrime(lo)
	}
	return p
}

func lz(b []byte) int {
	n := 0
	for n < len(b) && b[n] == 0 {
		n++
	}
	return n
}

func zeroLead(b []byte, z int) []byte {
	o := append([]byte{}, b...)
	for i := 0; i < z && i < len(o); i++ {
		o[i] = 0
	}
	if z < len(o) && o[z] == 0 {
		o[z] = 0x5a
	}
	return o
}

// Corner names the field forced to start with Zeros zero bytes.
type Corner struct {
	Field string // "", nonce, server_nonce, new_nonce, new_nonce_hash1, rsa_ciphertext, g_a, g_b, g_ab
	Zeros int
}

var CornerFields = []string{"nonce", "server_nonce", "new_nonce", "new_nonce_hash1", "rsa_ciphertext", "g_a", "g_b", "g_ab"}

// BuildHandshake draws a conformant key exchange; with a corner, inputs are searched so that the field starts with
// zero bytes. inject: fix the client's draws through the hooks (needed for most corners).
func BuildHandshake(s Source, keys []refsrv.RSAKeyJSON, corner Corner, inject bool) (*Scenario, error) {
	sc := &Scenario{Kind: "handshake", Probe: true}
	sc.RSA = keys[s.Int("key", len(keys))]
	hs := &HSSpec{G: []int{3, 4, 7}[s.Int("g", 3)], ServerTime: int32(time.Now().Unix()), PadSeed: binary.LittleEndian.Uint64(s.Bytes("padseed", 8))}
	hs.ServerNonce = s.Bytes("server_nonce", 16)
	p, q := drawPrime(s, "p"), drawPrime(s, "q")
	for p == q {
		q = nextPrime(q + 1)
	}
	if p > q {
		p, q = q, p
	}
	hs.P, hs.Q = p, q
	hs.PQPad8 = s.Int("pqpad", 2) == 1
	hs.A = s.Bytes("a", 256)
	hs.A[0] |= 0x40
	// a server may offer several RSA keys: the one the client knows first, last or in the middle
	for i, n := 0, s.Int("fp_before", 3); i < n; i++ {
		hs.ExtraFP = append(hs.ExtraFP, int64(binary.LittleEndian.Uint64(s.Bytes("fp", 8))))
	}
	for i, n := 0, s.Int("fp_after", 3); i < n; i++ {
		hs.ExtraFPAfter = append(hs.ExtraFPAfter, int64(binary.LittleEndian.Uint64(s.Bytes("fp", 8))))
	}
	// the network may deliver a reply in two segments (cut inside the length prefix, the header or the body)
	if s.Int("segmented", 3) == 0 {
		for i := 0; i < 3; i++ {
			hs.Splits = append(hs.Splits, []int{0, 1, 2, 3, 4, 5, 12, 24, 40, 41, 100, 1 << 20}[s.Int("split", 12)])
		}
	}
	sc.ServerClockOffset = DrawClockOffset(s)
	sc.HS = hs
	needInject := inject || corner.Field == "nonce" || corner.Field == "new_nonce" || corner.Field == "new_nonce_hash1" || corner.Field == "rsa_ciphertext" || corner.Field == "g_b" || corner.Field == "g_ab"
	if needInject {
		sc.Draws = &ClientDraws{Nonce: s.Bytes("nonce", 16), NewNonce: s.Bytes("new_nonce", 32), B: s.Bytes("b", 256)}
		sc.Draws.B[0] &= 0x7f
	}
	z := corner.Zeros
	prime := ref.DHPrime
	g := big.NewInt(int64(hs.G))
	switch corner.Field {
	case "":
	case "nonce":
		sc.Draws.Nonce = zeroLead(sc.Draws.Nonce, z)
	case "server_nonce":
		hs.ServerNonce = zeroLead(hs.ServerNonce, z)
	case "new_nonce":
		sc.Draws.NewNonce = zeroLead(sc.Draws.NewNonce, z)
	case "g_a":
		a := new(big.Int).SetBytes(hs.A)
		ga := new(big.Int).Exp(g, a, prime)
		for i := 0; lz(ref.LeftPad(ga.Bytes(), 256)) < z; i++ {
			a.Add(a, big.NewInt(1))
			ga.Mul(ga, g).Mod(ga, prime)
			if i > 1<<22 {
				return nil, fmt.Errorf("corner search exhausted")
			}
		}
		hs.A = a.Bytes()
	case "g_b":
		b := new(big.Int).SetBytes(sc.Draws.B)
		gb := new(big.Int).Exp(g, b, prime)
		for i := 0; lz(ref.LeftPad(gb.Bytes(), 256)) < z; i++ {
			b.Add(b, big.NewInt(1))
			gb.Mul(gb, g).Mod(gb, prime)
			if i > 1<<22 {
				return nil, fmt.Errorf("corner search exhausted")
			}
		}
		sc.Draws.B = b.Bytes()
	case "g_ab":
		a, b := new(big.Int).SetBytes(hs.A), new(big.Int).SetBytes(sc.Draws.B)
		ga := new(big.Int).Exp(g, a, prime)
		gab := new(big.Int).Exp(ga, b, prime)
		for i := 0; lz(ref.LeftPad(gab.Bytes(), 256)) < z; i++ {
			b.Add(b, big.NewInt(1))
			gab.Mul(gab, ga).Mod(gab, prime)
			if i > 1<<22 {
				return nil, fmt.Errorf("corner search exhausted")
			}
		}
		sc.Draws.B = b.Bytes()
	case "new_nonce_hash1":
		a, b := new(big.Int).SetBytes(hs.A), new(big.Int).SetBytes(sc.Draws.B)
		ga := new(big.Int).Exp(g, a, prime)
		authKey := ref.LeftPad(new(big.Int).Exp(ga, b, prime).Bytes(), 256)
		aux := ref.SHA1(authKey)[:8]
		nn := append([]byte{}, sc.Draws.NewNonce...)
		for i := uint32(0); ; i++ {
			binary.LittleEndian.PutUint32(nn[28:], i)
			if lz(ref.SHA1(nn, []byte{1}, aux)[4:20]) >= z {
				break
			}
			if i > 1<<26 {
				return nil, fmt.Errorf("corner search exhausted")
			}
		}
		sc.Draws.NewNonce = nn
	case "rsa_ciphertext":
		// predict the client's RSA plaintext block: SHA1(p_q_inner_data) | p_q_inner_data | zero fill to 255 bytes
		key := sc.RSA.Key()
		pq := new(big.Int).Mul(new(big.Int).SetUint64(p), new(big.Int).SetUint64(q)).Bytes()
		if hs.PQPad8 {
			pq = ref.LeftPad(pq, 8)
		}
		nn := append([]byte{}, sc.Draws.NewNonce...)
		for i := uint32(0); ; i++ {
			binary.LittleEndian.PutUint32(nn[28:], i)
			w := &refsrv.W{}
			w.U32(refsrv.IDPQInnerData).Str(pq).Str(new(big.Int).SetUint64(p).Bytes()).Str(new(big.Int).SetUint64(q).Bytes()).Raw(sc.Draws.Nonce).Raw(hs.ServerNonce).Raw(nn)
			block := make([]byte, 255)
			copy(block, append(ref.SHA1(w.B), w.B...))
			if lz(ref.RSAPublic(block, key.N, key.E)) >= z {
				break
			}
			if i > 1<<22 {
				return nil, fmt.Errorf("corner search exhausted")
			}
		}
		sc.Draws.NewNonce = nn
	default:
		return nil, fmt.Errorf("unknown corner %q", corner.Field)
	}
	return sc, nil
}

// ObservedCorners classifies a completed or attempted exchange by the leading zero bytes the server actually saw.
func ObservedCorners(h *refsrv.HSObs) map[string]int {
	out := map[string]int{}
	add := func(name string, b []byte, width int) {
		if b == nil {
			return
		}
		if z := lz(ref.LeftPad(b, width)); z > 0 && len(b) <= width {
			out[name] = z
		}
	}
	add("nonce", h.Nonce, 16)
	add("server_nonce", h.ServerNonce, 16)
	add("new_nonce", h.NewNonce, 32)
	add("new_nonce_hash1", h.Hash1, 16)
	if h.RSACiphertext != nil && len(h.RSACiphertext) == 256 {
		add("rsa_ciphertext", h.RSACiphertext, 256)
	}
	add("g_a", h.GA, 256)
	add("g_b", h.GB, 256)
	add("g_ab", h.AuthKey, 256)
	return out
}
