package scen

import (
	"encoding/binary"
	"fmt"
	"strings"
	"time"
)

var ReqKinds = []string{"object", "bool", "vecint", "veclong", "vecobj"}

// NewResumed returns an rpc scenario on a stored session with a drawn key and salt.
func NewResumed(s Source) *Scenario {
	sc := &Scenario{Kind: "rpc", RPC: &RPCSpec{}}
	key := s.Bytes("authkey", 256)
	sc.ServerClockOffset = DrawClockOffset(s)
	sc.Resume = &Resume{AuthKey: key, Salt: int64(binary.LittleEndian.Uint64(s.Bytes("salt", 8))), NoHash: s.Int("stored-without-key-id", 4) == 0,
		Via: []string{"", "", "", "storage", "both-absent", "both-other"}[s.Int("session-configured-via", 6)]}
	return sc
}

// DrawClockOffset: one scenario in four is served by a clock beyond 2038-01-19 (msg_id seconds >= 2^31)
func DrawClockOffset(s Source) int64 {
	if s.Int("server-clock-after-2038", 4) != 0 {
		return 0
	}
	return (1 << 31) - time.Now().Unix() + int64(s.Int("days-after", 3000))*86400
}

// NewSession is NewResumed, or - one time in four - a client without a stored session: it goes through the key
// exchange in this process first (small factors: the exchange itself is C06's business), and the calls follow.
func NewSession(s Source) *Scenario {
	if s.Int("fresh-session", 4) != 0 {
		return NewResumed(s)
	}
	keys, err := KeyPool()
	if err != nil {
		return NewResumed(s)
	}
	hs, err := BuildHandshake(s, keys, Corner{}, false)
	if err != nil {
		return NewResumed(s)
	}
	hs.HS.P, hs.HS.Q = 1000003, 1000033
	hs.HS.Splits = nil
	return &Scenario{Kind: "rpc", RSA: hs.RSA, HS: hs.HS, RPC: &RPCSpec{Fresh: true}, ServerClockOffset: hs.ServerClockOffset}
}

// Callers draws n caller goroutines with 1..maxReqs requests each; tags are unique and start at base.
func Callers(s Source, n, maxReqs, base int) []CallSpec {
	var out []CallSpec
	tag := base
	for c := 0; c < n; c++ {
		cs := CallSpec{Caller: c}
		k := 1 + s.Int("nreqs", maxReqs)
		for i := 0; i < k; i++ {
			cs.Reqs = append(cs.Reqs, ReqSpec{Tag: tag, Kind: ReqKinds[s.Int("kind", len(ReqKinds))]})
			tag += 1 + s.Int("taggap", 3)
		}
		out = append(out, cs)
	}
	return out
}

// Permute returns a drawn permutation of v.
func Permute(s Source, v []int) []int {
	o := append([]int{}, v...)
	for i := len(o) - 1; i > 0; i-- {
		j := s.Int("perm", i+1)
		o[i], o[j] = o[j], o[i]
	}
	return o
}

// AnswerRounds appends, for callers that issue their requests one after the other, the rounds of
// await-requests / answer steps: in each round the pending request of every caller is answered in a drawn order,
// partitioned into plain messages and containers, any subset gzip-packed. errEvery > 0: roughly one answer in
// errEvery is an rpc_error.
func AnswerRounds(s Source, steps []Step, callers []CallSpec, errEvery int) ([]Step, map[string]int) {
	feats := map[string]int{}
	maxLen := 0
	for _, c := range callers {
		if len(c.Reqs) > maxLen {
			maxLen = len(c.Reqs)
		}
	}
	type errSeen struct {
		text string
		code int32
	}
	var errTexts []errSeen
	var answered []int // tags answered in earlier steps: the server may send such a result once more
	for r := 0; r < maxLen; r++ {
		var tags []int
		kinds := map[int]string{}
		for _, c := range callers {
			if r < len(c.Reqs) {
				tags = append(tags, c.Reqs[r].Tag)
				kinds[c.Reqs[r].Tag] = c.Reqs[r].Kind
			}
		}
		steps = append(steps, Step{Op: "await-requests", N: len(tags)})
		order := Permute(s, tags)
		if len(order) > 1 {
			sorted := true
			for i := 1; i < len(order); i++ {
				if order[i] < order[i-1] {
					sorted = false
				}
			}
			if !sorted {
				feats["answered-out-of-order"]++
			}
		}
		for len(order) > 0 {
			n := 1 + s.Int("group", len(order))
			group := order[:n]
			order = order[n:]
			st := Step{Op: "answer", Container: s.Int("container", 2) == 1}
			if !st.Container && n >= 2 && s.Int("reverse-wire", 2) == 0 {
				st.ReverseWire = true
				feats["older-msg_id-arrives-after-newer"]++
			}
			if st.Container && s.Int("nested", 4) == 0 {
				st.Nested = true
				feats["nested-container"]++
			}
			for _, tg := range group {
				it := AnsItem{Tag: tg, Gzip: s.Int("gzip", 3) == 0}
				if errEvery > 0 && s.Int("err", errEvery) == 0 {
					it.ErrCode = int32(400 + s.Int("errcode", 100))
					it.ErrText = fmt.Sprintf("GENERATED_ERROR_%d", tg)
					if len(errTexts) > 0 && s.Int("err-text-again", 2) == 0 {
						// the text of an error says what is wrong, the code how: servers give the same text under several
						// codes (CHAT_WRITE_FORBIDDEN is both a 400 and a 403)
						prev := errTexts[s.Int("err-text-of", len(errTexts))]
						it.ErrText = prev.text
						if it.ErrCode == prev.code {
							it.ErrCode++
						}
						feats["same-error-text-under-another-code"]++
					}
					errTexts = append(errTexts, errSeen{it.ErrText, it.ErrCode})
					feats["rpc-error"]++
				}
				form := "plain"
				if st.Container {
					form = "container"
					feats["container"]++
				}
				if it.Gzip {
					feats["gzip"]++
					feats[kinds[tg]+":gzip"]++
					if it.GzipStyle = s.Int("gzip-style", 6); it.GzipStyle == 5 {
						it.GzipStyle = 1
					}
					feats[[]string{"gzip:default", "gzip:flushed-in-between", "gzip:stored", "gzip:huffman-only", "gzip:best"}[it.GzipStyle]]++
				}
				feats[kinds[tg]+":"+form]++
				if EmptyVector(tg) && strings.HasPrefix(kinds[tg], "vec") && it.ErrCode == 0 {
					feats["vector-result-without-items"]++
					if !it.Gzip {
						feats["vector-result-without-items:not-packed"]++
					}
				}
				if bigResult(tg) && (kinds[tg] == "object" || kinds[tg] == "veclong") && it.ErrCode == 0 {
					feats["big-result"]++
					if hugeResult(tg) && kinds[tg] == "object" {
						feats["result-longer-than-1MiB"]++
					}
					if it.Gzip {
						feats["big-result:gzip"]++
					}
				}
				st.Items = append(st.Items, it)
			}
			if len(answered) > 0 && s.Int("repeat", 4) == 0 {
				// a result the client has already been given arrives again (its acknowledgement got lost), somewhere among
				// the new ones
				dup := AnsItem{Tag: answered[s.Int("repeat-tag", len(answered))], Again: true, Gzip: s.Int("repeat-gzip", 3) == 0}
				at := s.Int("repeat-at", len(st.Items)+1)
				st.Items = append(st.Items[:at], append([]AnsItem{dup}, st.Items[at:]...)...)
				feats["repeated-result"]++
				if st.Container && at < len(st.Items)-1 {
					feats["repeated-result-before-others-in-container"]++
				}
			}
			answered = append(answered, group...)
			steps = append(steps, st)
		}
	}
	return steps, feats
}

// FindReq returns the request spec with the tag.
func FindReq(callers []CallSpec, tag int) (ReqSpec, bool) {
	for _, c := range callers {
		for _, r := range c.Reqs {
			if r.Tag == tag {
				return r, true
			}
		}
	}
	return ReqSpec{}, false
}

// EmptyVector: the answer to a vector-declaring request with this tag has no items.
func EmptyVector(tag int) bool { return emptyVector(tag) }
