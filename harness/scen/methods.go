package scen

import (
	"bytes"
	"crypto/x509"
	"encoding/pem"
	"fmt"
	"os"
	"path/filepath"
	"reflect"
	"runtime"
	"strings"
	"sync"
	"sync/atomic"
	"time"

	"github.com/xelaj/mtproto/telegram"
	"github.com/xelaj/mtproto/telegram/verifh/refsrv"
	"github.com/xelaj/mtproto/telegram/verifh/tls"
	"github.com/xelaj/mtproto/telegram/verifh/tlx"
)

// MethodResult is the outcome of one end-to-end call of a generated client method.
type MethodResult struct {
	Method   string `json:"method"`
	Function string `json:"function"`
	OK       bool   `json:"ok"`
	Msg      string `json:"msg,omitempty"`
	Args     int    `json:"args"`
	Result   string `json:"result_kind,omitempty"`
	Pass     int    `json:"pass,omitempty"` // 1: the second call of the method on the same client
	// AfterRefused: the call followed, in the same goroutine, a call that the library refused to serialise
	AfterRefused bool `json:"after_refused,omitempty"`
}

// MethodsSpec: call every generated client method once with schema-generated arguments.
type MethodsSpec struct {
	Seed   uint64 `json:"seed"`
	Invert bool   `json:"invert,omitempty"` // use the inverse presence pattern for true-flags / Bool arguments
	Only   string `json:"only,omitempty"`   // restrict to one function (replay)
}

type seedSrc struct{ x uint64 }

func (s *seedSrc) U64() uint64 {
	if s.x == 0 {
		s.x = 0x9e3779b97f4a7c15
	}
	s.x ^= s.x << 13
	s.x ^= s.x >> 7
	s.x ^= s.x << 17
	if s.x&3 == 0 {
		return (s.x >> 8) & 31
	}
	return s.x >> 5
}

// alternate gives the true-flags and Bool parameters of a request an alternating pattern, so that two bool
// arguments of one method never carry the same value (a swap would otherwise go unnoticed).
func alternate(v *tls.Val, invert bool) {
	k := 0
	if invert {
		k = 1
	}
	shared := map[int]bool{}
	for _, p := range v.Def.Params {
		if p.Type.Optional && p.Type.Kind != "true" {
			shared[p.Type.Bit] = true // a bit that also carries a value field keeps its generated presence
		}
	}
	for i, p := range v.Def.Params {
		switch {
		case p.Type.Kind == "true" && !shared[p.Type.Bit]:
			if k%2 == 0 {
				v.Fields[i] = true
			} else {
				v.Fields[i] = nil
			}
			k++
		case p.Type.Kind == "Bool" && !p.Type.Optional:
			v.Fields[i] = k%2 == 0
			k++
		}
	}
}

func (e *Env) runMethods() error {
	spec := e.Sc.Methods
	sch, err := tls.Load()
	if err != nil {
		return err
	}
	reg := tlx.LoadRegistry()
	// stored session + public key file, as telegram.NewClient wants them
	if e.Sc.Resume == nil {
		return fmt.Errorf("methods scenario needs a stored session")
	}
	e.Store.Put(e.Sc.Resume.AuthKey, e.Sc.Resume.Salt)
	if err := e.WriteSession(e.Sc.Resume.AuthKey, e.Sc.Resume.Salt, e.Srv.Addr()); err != nil {
		return err
	}
	pemPath := filepath.Join(e.Dir, "keys.pem")
	os.WriteFile(pemPath, pem.EncodeToMemory(&pem.Block{Type: "RSA PUBLIC KEY", Bytes: x509.MarshalPKCS1PublicKey(e.PublicKey())}), 0o600)

	var mu sync.Mutex
	var expectBody, answer []byte
	var gotBody []byte
	var gotBodies [][]byte // every request body since the last reset (concurrent pass)
	arrived := make(chan struct{}, 64)
	gen := func(seed uint64) *tlx.AGen { return &tlx.AGen{Sch: sch, S: &seedSrc{x: seed}, MaxDepth: 2} }
	e.Srv.OnRequest = func(c *refsrv.Conn, r *refsrv.Request) {
		// the client's start-up request: invokeWithLayer(layer, initConnection(..., help.getConfig)) -> config
		if r.Ctor == 0xda9b0d0d {
			cfgDef := sch.ByName["api_latest.tl:config"]
			g := gen(spec.Seed + 17)
			g.ForceBits = map[int]bool{}
			v, err := g.Val(cfgDef, 1)
			if err == nil {
				// as a real server fills them: issued now, valid for an hour (a client may be tempted to remember it)
				for i, p := range cfgDef.Params {
					switch p.Name {
					case "date":
						v.Fields[i] = int32(time.Now().Unix())
					case "expires":
						v.Fields[i] = int32(time.Now().Unix() + 3600)
					}
				}
				if b, err := tls.Encode(v); err == nil {
					c.Send(refsrv.RpcResult(r.MsgID, b), true)
					return
				}
			}
			c.Send(refsrv.RpcResult(r.MsgID, refsrv.RpcError(500, "CONFIG_GENERATION_FAILED")), true)
			return
		}
		mu.Lock()
		gotBody = append([]byte{}, r.Body...)
		gotBodies = append(gotBodies, gotBody)
		ans := answer
		mu.Unlock()
		if ans != nil {
			c.Send(refsrv.RpcResult(r.MsgID, ans), true)
		}
		select {
		case arrived <- struct{}{}:
		default: // nobody counts arrivals beyond the buffer; the handler never waits
		}
	}
	client, err := telegram.NewClient(telegram.ClientConfig{SessionFile: e.SessionPath(), ServerHost: e.Srv.Addr(), PublicKeysFile: pemPath, AppID: 94575, AppHash: "a3406de8d171bb422bb6ddf3bbd800e2", InitWarnChannel: true})
	if err != nil {
		e.Res.ConnectErr = err.Error()
		e.Finish()
	}
	e.Res.Connected = true
	go func() {
		for w := range client.Warnings {
			e.warnMu.Lock()
			if len(e.Res.Warnings) < 50 {
				e.Res.Warnings = append(e.Res.Warnings, w.Error())
			}
			e.warnMu.Unlock()
		}
	}()
	cv := reflect.ValueOf(client)
	// three passes over all methods on the same client: what a method learnt from its first answer must not replace the
	// second request or its answer
	for pass := uint64(0); pass < 3; pass++ {
		n := uint64(0)
		for _, d := range sch.API(false) {
			if !d.Function || d.Generic || (spec.Only != "" && spec.Only != d.Name) {
				continue
			}
			n++
			mr := MethodResult{Function: d.Name, Pass: int(pass)}
			pt, ok := reg.ByID[d.ID]
			if !ok || pt.Kind() != reflect.Ptr {
				mr.Msg = "no registered request type"
				e.Res.Methods = append(e.Res.Methods, mr)
				continue
			}
			mr.Method = strings.TrimSuffix(pt.Elem().Name(), "Params")
			m := cv.MethodByName(mr.Method)
			if !m.IsValid() {
				mr.Msg = "the client has no method " + mr.Method
				e.Res.Methods = append(e.Res.Methods, mr)
				continue
			}
			// request value from the schema line, bridged into the request struct by position
			seed := spec.Seed*1000003 + n*7919 + pass*104729
			req, err := gen(seed).Val(d, 2)
			if err != nil {
				mr.Msg = "INFRA: request generation: " + err.Error()
				e.Res.Methods = append(e.Res.Methods, mr)
				continue
			}
			alternate(req, spec.Invert)
			if pass == 2 {
				// third pass: every required scalar argument is the zero value of its type (0, "", no bytes): the request
				// carries exactly that, whatever the client knows from its own configuration
				for i, p := range d.Params {
					if p.Type.Optional {
						continue
					}
					switch p.Type.Kind {
					case "int":
						req.Fields[i] = int32(0)
					case "long":
						req.Fields[i] = int64(0)
					case "double":
						req.Fields[i] = float64(0)
					case "string", "bytes":
						req.Fields[i] = []byte{}
					}
				}
			}
			if pass == 1 {
				// second pass: vector arguments with many items (129..328), as a caller asking about a whole chat does
				for i, p := range d.Params {
					if items, ok := req.Fields[i].([]any); ok && p.Type.Kind == "vector" && len(items) > 0 {
						k := 129 + int(n*37%200)
						wide := make([]any, 0, k)
						for j := 0; j < k; j++ {
							wide = append(wide, items[j%len(items)])
						}
						req.Fields[i] = wide
					}
				}
			}
			want, err := tls.Encode(req)
			if err != nil {
				mr.Msg = "INFRA: request encoding: " + err.Error()
				e.Res.Methods = append(e.Res.Methods, mr)
				continue
			}
			gv, err := tlx.Bridge(reg, req)
			if err != nil {
				mr.Msg = "INFRA: request bridge: " + err.Error()
				e.Res.Methods = append(e.Res.Methods, mr)
				continue
			}
			// arguments: the request struct itself, or its fields in declaration order
			mt := m.Type()
			var args []reflect.Value
			switch {
			case mt.NumIn() == 1 && mt.In(0) == pt && gv.Elem().NumField() != 1:
				args = []reflect.Value{gv}
			case mt.NumIn() == 1 && mt.In(0) == pt:
				args = []reflect.Value{gv}
			default:
				if mt.NumIn() != gv.Elem().NumField() {
					mr.Msg = fmt.Sprintf("method takes %d arguments, the function has %d parameters", mt.NumIn(), gv.Elem().NumField())
					e.Res.Methods = append(e.Res.Methods, mr)
					continue
				}
				bad := false
				for i := 0; i < mt.NumIn(); i++ {
					f := gv.Elem().Field(i)
					if !f.Type().AssignableTo(mt.In(i)) {
						mr.Msg = fmt.Sprintf("argument %d has type %v, schema parameter %d is %v", i, mt.In(i), i, f.Type())
						bad = true
						break
					}
					args = append(args, f)
				}
				if bad {
					e.Res.Methods = append(e.Res.Methods, mr)
					continue
				}
			}
			mr.Args = len(args)
			// a value of the declared result type
			var ans []byte
			var wantRes reflect.Value
			resKind := "object"
			g := gen(seed + 1)
			rt := strings.TrimSpace(d.Result)
			switch {
			case rt == "Bool":
				resKind = "Bool"
				b := n%2 == 0
				if b {
					ans = refsrv.BoolTrue()
				} else {
					ans = refsrv.BoolFalse()
				}
				wantRes = reflect.ValueOf(b)
			case strings.HasPrefix(rt, "Vector<"):
				resKind = "vector"
				elem := strings.TrimSuffix(strings.TrimPrefix(rt, "Vector<"), ">")
				w := &refsrv.W{}
				cnt := 1 + int(n%3)
				w.U32(refsrv.IDVector).U32(uint32(cnt))
				sliceT := mt.Out(0)
				ws := reflect.MakeSlice(sliceT, 0, cnt)
				okv := true
				for i := 0; i < cnt && okv; i++ {
					switch elem {
					case "int":
						x := int32(seed) + int32(i)
						w.I32(x)
						ws = reflect.Append(ws, reflect.ValueOf(x).Convert(sliceT.Elem()))
					case "long":
						x := int64(seed)<<20 + int64(i)
						w.I64(x)
						ws = reflect.Append(ws, reflect.ValueOf(x).Convert(sliceT.Elem()))
					default:
						c, err := g.Ctor("api_latest.tl", elem, 1)
						if err != nil {
							okv = false
							break
						}
						v, err := g.Val(c, 1)
						if err != nil {
							okv = false
							break
						}
						b, err1 := tls.Encode(v)
						ev, err2 := tlx.Bridge(reg, v)
						if err1 != nil || err2 != nil || !ev.Type().AssignableTo(sliceT.Elem()) {
							okv = false
							break
						}
						w.Raw(b)
						ws = reflect.Append(ws, ev)
					}
				}
				if !okv {
					mr.Msg = "INFRA: result generation for " + rt
					e.Res.Methods = append(e.Res.Methods, mr)
					continue
				}
				ans, wantRes = w.B, ws
			default:
				c, err := g.Ctor("api_latest.tl", rt, 1)
				if err != nil {
					mr.Msg = "INFRA: result type: " + err.Error()
					e.Res.Methods = append(e.Res.Methods, mr)
					continue
				}
				v, err := g.Val(c, 1)
				if err == nil {
					ans, err = tls.Encode(v)
				}
				if err == nil {
					wantRes, err = tlx.Bridge(reg, v)
				}
				if err != nil {
					mr.Msg = "INFRA: result generation: " + err.Error()
					e.Res.Methods = append(e.Res.Methods, mr)
					continue
				}
			}
			mr.Result = resKind
			mu.Lock()
			expectBody, answer, gotBody = want, ans, nil
			mu.Unlock()
			for len(arrived) > 0 {
				<-arrived
			}
			type outcome struct {
				out []reflect.Value
				pan any
			}
			ch := make(chan outcome, 1)
			refusedMsg := ""
			go func() {
				var o outcome
				defer func() {
					if r := recover(); r != nil {
						o.pan = r
					}
					ch <- o
				}()
				if pass == 1 && n%6 == 0 {
					// the application's previous call, from the same goroutine, was one the library has to refuse before
					// anything is sent: a mandatory object left nil, or (now and then) a string of 2^24 bytes
					refusedMsg = refusedCall(client, n%96 == 0)
				}
				o.out = m.Call(args)
			}()
			var o outcome
			select {
			case o = <-ch:
			case <-time.After(e.stepPatience()):
				mr.Msg = "the method did not return (no answer delivered?)"
				mu.Lock()
				if gotBody != nil && !bytes.Equal(gotBody, expectBody) {
					mr.Msg = describeDiff(gotBody, expectBody)
				}
				mu.Unlock()
				e.Res.Methods = append(e.Res.Methods, mr)
				continue
			}
			mu.Lock()
			got := gotBody
			mu.Unlock()
			if refusedMsg != "" {
				mr.AfterRefused = true
			}
			switch {
			case refusedMsg != "" && refusedMsg != "refused":
				mr.Msg = refusedMsg
			case got == nil && pass > 0:
				mr.Msg = "the second call of the method on this client returned without sending a request"
			case got == nil:
				mr.Msg = "the method returned without sending a request"
			case !bytes.Equal(got, expectBody):
				mr.Msg = describeDiff(got, expectBody)
			case o.pan != nil:
				mr.Msg = fmt.Sprintf("the method panicked on an answer of the declared result type %s: %v", rt, o.pan)
			case len(o.out) != 2:
				mr.Msg = "method does not return (value, error)"
			case !o.out[1].IsNil():
				mr.Msg = fmt.Sprintf("the method returned an error for an answer of the declared result type %s: %v", rt, o.out[1].Interface())
			default:
				gotV := o.out[0]
				if gotV.Kind() == reflect.Interface && !gotV.IsNil() {
					gotV = gotV.Elem()
				}
				if d := tlx.Equal(wantRes, gotV); d != "" {
					mr.Msg = fmt.Sprintf("the method returned a value different from the server's answer (%s) at %s", rt, d)
				} else {
					mr.OK = true
				}
			}
			e.Res.Methods = append(e.Res.Methods, mr)
		}
	}
	// concurrent pass: the same method from four goroutines at once, each with its own arguments (parts of one upload,
	// several chats). The server refuses every call with an rpc_error: only the requests are looked at - each of them
	// carries the arguments of exactly one of the calls.
	n := uint64(0)
	for _, d := range sch.API(false) {
		if !d.Function || d.Generic || (spec.Only != "" && spec.Only != d.Name) {
			continue
		}
		n++
		pt, ok := reg.ByID[d.ID]
		if !ok || pt.Kind() != reflect.Ptr || len(d.Params) == 0 {
			continue
		}
		mr := MethodResult{Function: d.Name, Pass: 3, Method: strings.TrimSuffix(pt.Elem().Name(), "Params"), Result: "requests-only"}
		m := cv.MethodByName(mr.Method)
		if !m.IsValid() {
			continue // reported by the first pass
		}
		const K = 8 // goroutines (four until round 9: under load the overlap was missed once)
		var wants [][]byte
		var calls [][]reflect.Value
		for k := uint64(0); k < K; k++ {
			req, err := gen(spec.Seed*1000003+n*7919+3*104729+k*15485863).Val(d, 2)
			if err != nil {
				break
			}
			alternate(req, spec.Invert != (k%2 == 1))
			want, err := tls.Encode(req)
			if err != nil {
				break
			}
			gv, err := tlx.Bridge(reg, req)
			if err != nil {
				break
			}
			mt := m.Type()
			var args []reflect.Value
			if mt.NumIn() == 1 && mt.In(0) == pt {
				args = []reflect.Value{gv}
			} else {
				if mt.NumIn() != gv.Elem().NumField() {
					break
				}
				for i := 0; i < mt.NumIn(); i++ {
					if !gv.Elem().Field(i).Type().AssignableTo(mt.In(i)) {
						args = nil
						break
					}
					args = append(args, gv.Elem().Field(i))
				}
				if args == nil {
					break
				}
			}
			wants = append(wants, want)
			calls = append(calls, args)
		}
		if len(calls) != K {
			continue // generation or bridging failed: counted in the first pass
		}
		mr.Args = len(calls[0])
		mu.Lock()
		expectBody, answer, gotBody, gotBodies = nil, refsrv.RpcError(400, "CONCURRENT_PASS"), nil, nil
		mu.Unlock()
		for len(arrived) > 0 {
			<-arrived
		}
		// every goroutine calls three times in a row, all released by a flag they poll: two dozen calls overlapping, also
		// on a machine that is busy with other things
		const R = 3
		var wg sync.WaitGroup
		var start atomic.Bool
		for k := range calls {
			wg.Add(1)
			go func(args []reflect.Value) {
				defer wg.Done()
				defer func() { recover() }()
				for !start.Load() {
					runtime.Gosched()
				}
				for r := 0; r < R; r++ {
					m.Call(args)
				}
			}(calls[k])
		}
		start.Store(true)
		done := make(chan struct{})
		go func() { wg.Wait(); close(done) }()
		select {
		case <-done:
		case <-time.After(e.stepPatience()):
			mr.Msg = "INFRA: concurrent calls did not return"
			e.Res.Methods = append(e.Res.Methods, mr)
			continue
		}
		mu.Lock()
		got := append([][]byte{}, gotBodies...)
		mu.Unlock()
		left := map[string]int{}
		for _, w := range wants {
			left[string(w)] += R
		}
		mr.OK = true
		for _, g := range got {
			if left[string(g)] > 0 {
				left[string(g)]--
				continue
			}
			mr.OK = false
			mr.Msg = fmt.Sprintf("%d calls of the method at the same time, each with its own arguments: the server received a request (%d bytes) that is the schema serialisation of none of the calls' arguments (nearest: %s)", K, len(g), describeDiff(g, nearest(g, wants)))
			break
		}
		if mr.OK && len(got) != K*R {
			mr.OK = false
			mr.Msg = fmt.Sprintf("%d calls of the method at the same time: the server received %d requests", K, len(got))
		}
		e.Res.Methods = append(e.Res.Methods, mr)
	}
	e.Finish()
	return nil
}

// nearest returns the candidate sharing the longest prefix with g.
func nearest(g []byte, cands [][]byte) []byte {
	best, bl := cands[0], -1
	for _, c := range cands {
		l := 0
		for l < len(g) && l < len(c) && g[l] == c[l] {
			l++
		}
		if l > bl {
			best, bl = c, l
		}
	}
	return best
}

func describeDiff(got, want []byte) string {
	d := 0
	for d < len(got) && d < len(want) && got[d] == want[d] {
		d++
	}
	if d < 4 {
		return fmt.Sprintf("the request carries constructor %x, the function's id is %x", got[:min(4, len(got))], want[:4])
	}
	return fmt.Sprintf("the request differs from the schema serialisation of the arguments in their schema positions at byte %d (got %d bytes …%x, want %d bytes …%x)",
		d, len(got), got[d:min(d+8, len(got))], len(want), want[d:min(d+8, len(want))])
}

// refusedCall makes a request the library cannot serialise and therefore must refuse with an error, sending nothing.
// Returns "refused", or a description of what happened instead.
func refusedCall(client *telegram.Client, long bool) (msg string) {
	defer func() {
		if r := recover(); r != nil {
			msg = fmt.Sprintf("a request that cannot be serialised made the call panic: %v", r)
		}
	}()
	var err error
	if long {
		_, err = client.MakeRequest(&telegram.AccountCheckUsernameParams{Username: strings.Repeat("a", 1<<24)})
	} else {
		_, err = client.MakeRequest(&telegram.UsersGetFullUserParams{ID: nil})
	}
	if err == nil {
		return "a request that cannot be serialised (nil mandatory object / 2^24-byte string) was not refused"
	}
	return "refused"
}
