package scen

import (
	"crypto/rsa"
	"fmt"
	mathrand "math/rand"
	"path/filepath"
	"time"

	"github.com/xelaj/mtproto"

	"github.com/xelaj/mtproto/telegram"
	"github.com/xelaj/mtproto/telegram/verifh/refsrv"
)

// Execute runs one scenario in this (child) process. It ends the process through Env.Finish.
func Execute(sc *Scenario) error {
	e, err := NewEnv(sc)
	if err != nil {
		return err
	}
	switch sc.Kind {
	case "handshake":
		return e.runHandshake()
	case "rpc":
		return e.runRPC()
	case "methods":
		return e.runMethods()
	}
	return fmt.Errorf("unknown scenario kind %q", sc.Kind)
}

func (e *Env) patience() time.Duration {
	if e.Sc.PatienceMs > 0 {
		return time.Duration(e.Sc.PatienceMs) * time.Millisecond
	}
	return 20 * time.Second
}

// defaultAPI answers every API request with rpc_result(boolTrue).
func defaultAPI(c *refsrv.Conn, r *refsrv.Request) {
	c.Send(refsrv.RpcResult(r.MsgID, refsrv.BoolTrue()), true)
}

// runHandshake: connect without a stored session against the scripted server (C06, C07, C19).
func (e *Env) runHandshake() error {
	e.Srv.OnRequest = defaultAPI
	// the exchange cannot continue once the server had to give up: do not wait out the patience then
	abort := make(chan struct{})
	closed := false
	prev := e.Srv.OnEvent
	e.Srv.OnEvent = func(ev refsrv.Event) {
		prev(ev)
		if ev.Kind == "hs-fail" && !closed {
			closed = true
			go func() { time.Sleep(300 * time.Millisecond); close(abort) }()
		}
	}
	if pk := e.Sc.PreludeKey; pk != nil {
		// another client of this process, with another key, has been through a key exchange of its own
		key := pk.Key()
		ps, err := e.AddServerWithKey("prelude", key)
		if err != nil {
			return err
		}
		ps.Fault = nil
		ps.OnRequest = defaultAPI
		oc, err := mtproto.NewMTProto(mtproto.Config{AuthKeyFile: filepath.Join(e.Dir, "prelude-session.json"), ServerHost: ps.Addr(), PublicKey: &rsa.PublicKey{N: key.N, E: key.E}})
		if err != nil {
			return err
		}
		done := make(chan error, 1)
		go func() {
			defer func() {
				if r := recover(); r != nil {
					done <- fmt.Errorf("panic: %v", r)
				}
			}()
			done <- oc.CreateConnection()
		}()
		select {
		case err := <-done:
			if err != nil {
				e.Res.Notes = append(e.Res.Notes, "prelude exchange failed: "+err.Error())
			} else {
				e.Res.Notes = append(e.Res.Notes, "prelude exchange done")
			}
		case <-time.After(e.patience()):
			e.Res.Notes = append(e.Res.Notes, "prelude exchange failed: timeout")
		}
	}
	e.InstallDraws()
	if err := e.NewClient(e.Srv.Addr()); err != nil {
		return err
	}
	if len(e.Sc.HSDCs) > 0 {
		dcs := map[int]string{}
		for _, id := range e.Sc.HSDCs {
			ds, err := e.AddServer(fmt.Sprintf("dc-%d", id))
			if err != nil {
				return err
			}
			ds.Fault = nil
			ds.OnRequest = defaultAPI
			dcs[id] = ds.Addr()
		}
		e.Client.SetDCList(dcs)
		for id := range dcs {
			dcs[id] = "127.0.0.1:9" // the caller's map, reused after the call
		}
	}
	if e.Sc.ReseedGlobal != nil {
		mathrand.Seed(*e.Sc.ReseedGlobal) //nolint:staticcheck // the point is to control the global generator
	}
	var companions chan string
	if k := e.Sc.Companions; k > 0 {
		companions = make(chan string, k)
		bar := refsrv.NewBarrier(k + 1)
		e.Srv.DHBarrier = bar
		start := make(chan struct{})
		for i := 0; i < k; i++ {
			cs, err := e.AddServer(fmt.Sprintf("companion-%d", i))
			if err != nil {
				return err
			}
			cs.Fault = nil
			cs.DHBarrier = bar
			cs.OnRequest = defaultAPI
			oc, err := mtproto.NewMTProto(mtproto.Config{AuthKeyFile: filepath.Join(e.Dir, fmt.Sprintf("companion-%d.json", i)), ServerHost: cs.Addr(), PublicKey: e.PublicKey()})
			if err != nil {
				return err
			}
			go func(i int, oc *mtproto.MTProto) {
				res := fmt.Sprintf("companion %d: ok", i)
				defer func() {
					if r := recover(); r != nil {
						res = fmt.Sprintf("companion %d failed: panic: %v", i, r)
					}
					companions <- res
				}()
				<-start
				if err := oc.CreateConnection(); err != nil {
					res = fmt.Sprintf("companion %d failed: %v", i, err)
				}
			}(i, oc)
		}
		close(start)
	}
	if e.Sc.FirstDialRefused {
		e.Srv.Suspend()
		func() {
			defer func() {
				if r := recover(); r != nil {
					e.Res.Notes = append(e.Res.Notes, fmt.Sprintf("first attempt (server down) panicked: %v", r))
				}
			}()
			if err := e.Client.CreateConnection(); err == nil {
				e.Res.Notes = append(e.Res.Notes, "first attempt (server down) returned nil")
			} else {
				e.Res.Notes = append(e.Res.Notes, "first attempt (server down): "+err.Error())
			}
		}()
		if err := e.Srv.Resume(); err != nil {
			return err
		}
	}
	e.Connect(e.patience(), abort)
	for i := 0; i < e.Sc.Companions; i++ {
		select {
		case r := <-companions:
			e.Res.Notes = append(e.Res.Notes, r)
		case <-time.After(e.patience()):
			e.Res.Notes = append(e.Res.Notes, fmt.Sprintf("companion unfinished after %v", e.patience()))
		}
	}
	if e.Res.Connected {
		e.Res.ClientAuthKey = e.Client.GetAuthKey()
		e.Res.ClientSalt = e.Client.GetServerSalt()
		if e.Sc.Probe {
			cr := e.Call(&telegram.AccountCheckUsernameParams{Username: "probe"}, e.patience())
			e.Res.Probe = &cr
		}
	} else {
		switch {
		case e.Sc.Aftermath == "close" && !e.Res.ConnectHung:
			// the server hangs up after the reply the client refused; the client's reader sees the end of the stream
			for _, c := range e.Srv.Conns() {
				if !c.Closed() {
					c.Close()
				}
			}
			e.Res.Notes = append(e.Res.Notes, "aftermath sent: close")
			time.Sleep(100 * time.Millisecond)
		case e.Sc.Aftermath == "app-reconnect" && !e.Res.ConnectHung:
			// the application tries again on the same object
			func() {
				defer func() { recover() }()
				done := make(chan struct{})
				go func() {
					defer func() { recover(); close(done) }()
					e.Client.Reconnect()
				}()
				select {
				case <-done:
				case <-time.After(e.patience()):
				}
			}()
			e.Res.Notes = append(e.Res.Notes, "aftermath sent: app-reconnect")
		}
		if e.Sc.Aftermath != "" && e.Sc.Aftermath != "close" && e.Sc.Aftermath != "app-reconnect" && !e.Res.ConnectHung {
			for _, c := range e.Srv.Conns() {
				if c.Closed() || !c.AdoptHandshakeKey() {
					continue
				}
				w := &refsrv.W{}
				switch e.Sc.Aftermath {
				case "new-session":
					c.Send(w.U32(refsrv.IDNewSession).I64(time.Now().Unix()<<32).I64(77).I64(0x0123456789abcdef).B, true)
				case "bad-salt":
					c.Send(w.U32(refsrv.IDBadServerSalt).I64(time.Now().Unix()<<32).I32(1).I32(48).I64(0x0123456789abcdef).B, false)
				case "update":
					c.Send(w.U32(0xe317af7e).B, true)
				}
				e.Res.Notes = append(e.Res.Notes, "aftermath sent: "+e.Sc.Aftermath)
			}
		}
		// give a client that wrongly carries on a moment to send something
		time.Sleep(150 * time.Millisecond)
	}
	e.Res.Session = e.ReadSession()
	e.Finish()
	return nil
}
