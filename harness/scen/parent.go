package scen

import (
	"bufio"
	"bytes"
	"encoding/json"
	"fmt"
	"os"
	"os/exec"
	"path/filepath"
	"strings"
	"time"

	"github.com/xelaj/mtproto/telegram/verifh/refsrv"
)

// DriverPath locates the child driver binary built by bin/check (VERIF_BIN) or by `go build` for ad-hoc runs.
func DriverPath() string {
	if d := os.Getenv("VERIF_BIN"); d != "" {
		return filepath.Join(d, "vdriver")
	}
	return filepath.Join(os.TempDir(), "verif-vdriver")
}

// RunChild executes one scenario in a fresh process and collects what it reported. A child that dies still
// yields the events printed before its death.
func RunChild(sc *Scenario, timeout time.Duration) (*Result, error) {
	in, err := json.Marshal(sc)
	if err != nil {
		return nil, err
	}
	cmd := exec.Command(DriverPath())
	cmd.Stdin = bytes.NewReader(in)
	var stderr bytes.Buffer
	cmd.Stderr = &stderr
	stdout, err := cmd.StdoutPipe()
	if err != nil {
		return nil, err
	}
	if sc.GoMaxProcs > 0 {
		cmd.Env = append(os.Environ(), fmt.Sprintf("GOMAXPROCS=%d", sc.GoMaxProcs))
	}
	start := time.Now()
	if err := cmd.Start(); err != nil {
		return nil, fmt.Errorf("starting the child driver %s: %w", DriverPath(), err)
	}
	res := &Result{}
	var streamed []refsrv.Event
	done := make(chan struct{})
	go func() {
		defer close(done)
		r := bufio.NewReaderSize(stdout, 1<<20)
		for {
			line, err := r.ReadString('\n')
			if strings.HasPrefix(line, "EV ") {
				var e refsrv.Event
				if json.Unmarshal([]byte(line[3:]), &e) == nil {
					streamed = append(streamed, e)
				}
			} else if strings.HasPrefix(line, "RESULT ") {
				json.Unmarshal([]byte(line[7:]), res)
			}
			if err != nil {
				return
			}
		}
	}()
	timedOut := false
	select {
	case <-done:
	case <-time.After(timeout):
		timedOut = true
		cmd.Process.Kill()
		<-done
	}
	werr := cmd.Wait()
	res.ElapsedMs = time.Since(start).Milliseconds()
	if len(res.Events) == 0 {
		res.Events = streamed
	}
	res.Stderr = tail(stderr.String(), 3000)
	if werr != nil {
		res.ExitCode = -1
		if ee, ok := werr.(*exec.ExitError); ok {
			res.ExitCode = ee.ExitCode()
		}
	}
	if timedOut {
		return res, fmt.Errorf("child driver exceeded %v", timeout)
	}
	if res.ExitCode == 4 {
		// the driver itself could not set the scenario up (no free port, temp dir, unreadable scenario): infrastructure
		return res, fmt.Errorf("child driver could not run the scenario: %s", tail(res.Stderr, 300))
	}
	if !res.Done {
		res.Died = true
	}
	return res, nil
}

func tail(s string, n int) string {
	if len(s) > n {
		return s[len(s)-n:]
	}
	return s
}

// PanicSite extracts the panic message and the first frames inside the code under test from a dead child's stderr.
func PanicSite(stderr string) string {
	i := strings.Index(stderr, "panic: ")
	if i < 0 {
		i = strings.Index(stderr, "fatal error: ")
	}
	if i < 0 {
		return tail(stderr, 300)
	}
	lines := strings.Split(stderr[i:], "\n")
	out := []string{lines[0]}
	for _, l := range lines[1:] {
		if strings.Contains(l, "github.com/xelaj/mtproto") && !strings.Contains(l, "verifh") && strings.Contains(l, "(") {
			out = append(out, strings.TrimSpace(l))
			if len(out) > 5 {
				break
			}
		}
	}
	return strings.Join(out, " | ")
}
