// Package scen defines the scenarios the parent checks generate, the child driver (cmd/vdriver) that executes one
// scenario against the real client in a fresh process, and the result it reports.
package scen

import (
	"github.com/xelaj/mtproto/telegram/verifh/refsrv"
)

// Scenario is the replayable unit of every scenario check: plain data, executed by the child driver.
type Scenario struct {
	Kind string            `json:"kind"` // handshake | rpc | ...
	RSA  refsrv.RSAKeyJSON `json:"rsa"`
	// key exchange parameters (fresh session) ...
	HS    *HSSpec       `json:"hs,omitempty"`
	Fault *refsrv.Fault `json:"fault,omitempty"`
	Draws *ClientDraws  `json:"draws,omitempty"`
	// ... or a stored session to resume
	Resume *Resume `json:"resume,omitempty"`
	// what to do after the connection is up
	Probe bool `json:"probe,omitempty"`
	// Companions: that many other client objects of the same process run their own key exchange (each with its own
	// reference server) at the same time as the one under test
	Companions int `json:"companions,omitempty"`
	// PreludeKey: before the exchange under test, another client object of the same process - configured with this
	// other RSA key - completes a key exchange with a server that holds it
	PreludeKey *refsrv.RSAKeyJSON `json:"prelude_key,omitempty"`
	// Aftermath: what the server, which considers the key established, sends after a key exchange the client aborted at
	// its last step: "new-session", "bad-salt", "update" ("" = nothing)
	Aftermath string `json:"aftermath,omitempty"`
	// Baseline: documentation of what is special about the otherwise conformant exchange ("zero-server_nonce", "zero-nonce")
	Baseline string `json:"baseline,omitempty"`
	// ServerClockOffset: every reference server of the scenario stamps its msg_ids with a clock that many seconds ahead
	// (beyond 2038-01-19 the id, read as a signed 64-bit number, is negative)
	ServerClockOffset int64 `json:"server_clock_offset,omitempty"`
	// FirstDialRefused (handshake): the server is not listening when the client connects for the first time; the
	// application tries again on the same client object once the server is up
	FirstDialRefused bool `json:"first_dial_refused,omitempty"`
	// HSDCs (handshake): conformant reference servers registered in the client's data-centre list under these ids
	HSDCs   []int        `json:"hs_dcs,omitempty"`
	RPC     *RPCSpec     `json:"rpc,omitempty"`
	Methods *MethodsSpec `json:"methods,omitempty"`
	// C19: seed the process-global math/rand right before connecting (after the client object exists)
	ReseedGlobal *int64 `json:"reseed_global,omitempty"`
	// scheduling
	GoMaxProcs int    `json:"gomaxprocs,omitempty"`
	PatienceMs int    `json:"patience_ms,omitempty"`
	Note       string `json:"note,omitempty"`
}

type HSSpec struct {
	ServerNonce []byte  `json:"server_nonce"`
	P           uint64  `json:"p"`
	Q           uint64  `json:"q"`
	PQPad8      bool    `json:"pq_pad8"`
	G           int     `json:"g"`
	A           []byte  `json:"a"`
	ServerTime  int32   `json:"server_time"`
	PadSeed     uint64  `json:"pad_seed"`
	ExtraFP     []int64 `json:"extra_fp,omitempty"`
	// ExtraFPAfter: fingerprints offered after the real one
	ExtraFPAfter []int64 `json:"extra_fp_after,omitempty"`
	// RetryFirst: the server answers that many set_client_DH_params with dh_gen_retry before accepting one
	RetryFirst int `json:"retry_first,omitempty"`
	// Splits: reply i of the exchange arrives in two TCP segments, cut after Splits[i] bytes (0: in one)
	Splits []int `json:"splits,omitempty"`
}

// ClientDraws overrides the client's own random draws through the tag-guarded hooks (nil field = client draws itself).
type ClientDraws struct {
	Nonce    []byte `json:"nonce,omitempty"`     // 16
	NewNonce []byte `json:"new_nonce,omitempty"` // 32
	B        []byte `json:"b,omitempty"`         // DH exponent
}

type Resume struct {
	AuthKey []byte `json:"auth_key"`
	Salt    int64  `json:"salt"`
	// NoHash: the stored session carries no key id (a store that does not keep what can be derived from the key)
	NoHash bool `json:"no_hash,omitempty"`
	// Via: how the client is pointed at the stored session: "" = Config.AuthKeyFile; "storage" = Config.SessionStorage
	// (a file store on the same file); "both-absent" / "both-other" = SessionStorage as before and, as well, an
	// AuthKeyFile naming a file that does not exist / that holds another session (the documentation says it is ignored)
	Via string `json:"via,omitempty"`
}

// CallResult is the outcome of one client call.
type CallResult struct {
	Tag     int    `json:"tag"`
	Caller  int    `json:"caller"`
	Kind    string `json:"kind,omitempty"`
	OK      bool   `json:"ok"`
	Value   string `json:"value,omitempty"` // rendered result
	GoType  string `json:"go_type,omitempty"`
	Err     string `json:"err,omitempty"`
	Code    int    `json:"code,omitempty"`
	Panic   string `json:"panic,omitempty"`
	Hung    bool   `json:"hung,omitempty"`
	Returns int    `json:"returns,omitempty"`
	Info    string `json:"info,omitempty"` // AdditionalInfo of a structured error
	Desc    string `json:"desc,omitempty"` // Description of a structured error
}

type SessionFile struct {
	Exists   bool   `json:"exists"`
	Key      []byte `json:"key,omitempty"`
	Hash     []byte `json:"hash,omitempty"`
	Salt     int64  `json:"salt"`
	SaltOK   bool   `json:"salt_ok"`
	Hostname string `json:"hostname,omitempty"`
	Raw      string `json:"raw,omitempty"`
}

// Result is what the child reports (RESULT line); Events also arrive one by one as EV lines so that they survive a crash.
type Result struct {
	Events        []refsrv.Event    `json:"events,omitempty"`
	HS            []*refsrv.HSObs   `json:"hs,omitempty"`
	ConnectErr    string            `json:"connect_err,omitempty"`
	ConnectPanic  string            `json:"connect_panic,omitempty"`
	ConnectHung   bool              `json:"connect_hung,omitempty"`
	Connected     bool              `json:"connected"`
	ClientAuthKey []byte            `json:"client_auth_key,omitempty"`
	ClientSalt    int64             `json:"client_salt"`
	Session       *SessionFile      `json:"session,omitempty"`
	Calls         []CallResult      `json:"calls,omitempty"`
	Probe         *CallResult       `json:"probe,omitempty"`
	Warnings      []string          `json:"warnings,omitempty"`
	Hooks         []HookEvent       `json:"hooks,omitempty"`
	Stall         *Stall            `json:"stall,omitempty"`
	Methods       []MethodResult    `json:"methods,omitempty"`
	Notes         []string          `json:"notes,omitempty"`
	Addrs         map[string]string `json:"addrs,omitempty"`
	Done          bool              `json:"done"`
	// filled by the parent
	ExitCode  int    `json:"exit_code"`
	Stderr    string `json:"stderr,omitempty"`
	Died      bool   `json:"died,omitempty"`
	ElapsedMs int64  `json:"elapsed_ms,omitempty"`
}

// HookEvent is one pass through a named yield point of the client (tag-guarded hook), in mutex order.
type HookEvent struct {
	Seq   int    `json:"seq"`
	Point string `json:"point"`
	MsgID int64  `json:"msg_id,omitempty"`
	Salt  int64  `json:"salt,omitempty"`
	Note  string `json:"note,omitempty"`
	G     int64  `json:"g,omitempty"`
}

// Stall is the state inspection taken when calls have not finished after the patience.
type Stall struct {
	Verdict string `json:"verdict"` // STALL | INCONCLUSIVE
	LoopAt  string `json:"loop_at,omitempty"`
	Blocked int    `json:"blocked_callers"`
	Dump    string `json:"dump,omitempty"`
}

// RPCSpec is the script of an "rpc" scenario: client-side and server-side operations executed in order by the child.
type RPCSpec struct {
	Fresh bool   `json:"fresh,omitempty"` // run a key exchange first (Scenario.HS) instead of resuming Scenario.Resume
	Steps []Step `json:"steps"`
	// DCs: extra reference servers (sharing the key store) registered in the client's data-centre list under these ids
	DCs []int `json:"dcs,omitempty"`
	// OtherClientDCs: a second client object in the same process (never connected) is configured with reference servers
	// under these data-centre ids; the client under test is not
	OtherClientDCs []int `json:"other_client_dcs,omitempty"`
	// Decoy: the client is configured with the address of a second listener that must stay silent; the stored session
	// names the real server (C12: a stored session decides where the client connects)
	Decoy bool `json:"decoy,omitempty"`
	// ServerSeqStart: the reference servers start their seq_no counters there (even; e.g. 2^31-6: the counter wraps)
	ServerSeqStart int32 `json:"server_seq_start,omitempty"`
	// NewSessionUID: the unique_id field of the new_session_created notifications: "" = a different number each time,
	// "zero" = 0 (as good a random number as any other), "same" = one number for the whole scenario (the server session
	// is the same one; the notification is repeated with the salt valid by then)
	NewSessionUID string `json:"new_session_uid,omitempty"`
}

// Step ops:
//
//	call            start one goroutine per CallSpec; each issues its requests one after the other
//	await-requests  wait until the server holds N unanswered tagged requests
//	answer          answer the listed tags (order = list order); Container: all in one msg_container
//	push            send an unsolicited / service / malformed message
//	rotate          the server switches to a new salt: messages under another salt are rejected with bad_server_salt
//	new-session     the server announces new_session_created with a salt (and adopts it)
//	close           the server closes the connection (orderly)
//	await-calls     wait until every started call has returned (patience, then state inspection)
//	probe           one more request that must complete
//	hold / release  schedule director: hold the goroutine of a tagged request at a named yield point
//	sleep           let in-flight work settle (milliseconds; never decides anything)
type Step struct {
	Op        string     `json:"op"`
	Calls     []CallSpec `json:"calls,omitempty"`
	N         int        `json:"n,omitempty"`
	Items     []AnsItem  `json:"items,omitempty"`
	Container bool       `json:"container,omitempty"`
	Nested    bool       `json:"nested,omitempty"` // answer: the container is itself wrapped into an outer container
	// ReverseWire (answer, not in a container): the answers are stamped (msg_id, seq_no) in the listed order and leave
	// in the opposite one - a message with an older msg_id arrives after one with a newer msg_id
	ReverseWire bool      `json:"reverse_wire,omitempty"`
	Push        *PushSpec `json:"push,omitempty"`
	Salt        int64     `json:"salt,omitempty"`
	Hold        *HoldSpec `json:"hold,omitempty"`
	Server      string    `json:"server,omitempty"`
	Ms          int       `json:"ms,omitempty"`
	Tag         int       `json:"tag,omitempty"`
	Retry       bool      `json:"retry,omitempty"` // probe: a call that fails with an error (not a hang) while the client swaps connections is repeated
}

type CallSpec struct {
	Caller int       `json:"caller"`
	Reqs   []ReqSpec `json:"reqs"`
}

// ReqSpec: a request whose argument carries Tag; Kind selects the result kind: object | bool | vecint | veclong | vecobj.
type ReqSpec struct {
	Tag  int    `json:"tag"`
	Kind string `json:"kind"`
}

type AnsItem struct {
	Tag  int  `json:"tag"`
	Gzip bool `json:"gzip,omitempty"`
	// GzipStyle: how the server produced the stream (refsrv.GzipPackedStyle): 1 flushed in between, 2 stored, 3 Huffman only, 4 best
	GzipStyle int    `json:"gzip_style,omitempty"`
	ErrCode   int32  `json:"err_code,omitempty"` // answer with rpc_error(code, text) instead of the result
	ErrText   string `json:"err_text,omitempty"`
	Again     bool   `json:"again,omitempty"` // answer a request that was already answered (repeated result)
}

// PushSpec: a message the server sends on its own.
type PushSpec struct {
	Kind           string `json:"kind"` // pong ack new-session bad-msg state-info all-info detailed-info new-detailed-info future-salts result-unknown update unknown-ctor truncated empty-container nested-container raw plain
	Gzip           bool   `json:"gzip,omitempty"`
	InContainer    bool   `json:"in_container,omitempty"`
	ContentRelated bool   `json:"content_related,omitempty"`
	Arg            int64  `json:"arg,omitempty"`
	Body           []byte `json:"body,omitempty"`
	// Split > 0: the frame carrying this message reaches the client in two pieces, cut after Split bytes (modulo its length)
	Split int `json:"split,omitempty"`
}

type HoldSpec struct {
	Point string `json:"point"`           // yield point name, e.g. send.msgid
	Tag   int    `json:"tag"`             // request whose goroutine is held
	Until int    `json:"until,omitempty"` // released when the server has received the request with this tag (or patience)
	Ms    int    `json:"ms,omitempty"`    // patience of the hold
	// Manual: released by a later "release" step (or the patience), not by the arrival of another request
	Manual bool `json:"manual,omitempty"`
}
