package c16

import (
	"encoding/json"
	"fmt"
	"strings"
	"testing"
	"time"

	"github.com/xelaj/mtproto/telegram/verifh/hx"
	"github.com/xelaj/mtproto/telegram/verifh/scen"
	"github.com/xelaj/mtproto/telegram/verifh/tlx"
	"pgregory.net/rapid"
	"verif/evid"
)

var run = evid.New("C16")

func TestMain(m *testing.M) { hx.Main(m, run) }

type rapidSource struct{ t *rapid.T }

func (r rapidSource) Bytes(label string, n int) []byte { return hx.FixedBytes(r.t, label, n) }
func (r rapidSource) Int(label string, n int) int      { return rapid.IntRange(0, n-1).Draw(r.t, label) }

// the events a server can send on its own
var eventKinds = []string{"pong", "ack", "new-session", "bad-msg", "state-info", "all-info", "detailed-info", "new-detailed-info", "future-salts",
	"bad-salt-unknown", "bad-salt-answered", "rotate",
	"result-unknown", "result-again", "error-unknown", "update", "updates-too-long", "unknown-ctor", "truncated", "empty-body", "empty-container", "nested-container", "raw-soup", "gzip-damaged", "close", "close-pending",
	"schema-object", "schema-object", "schema-object",
	"envelope:badlen", "envelope:evenid", "envelope:flip", "envelope:garbage", "envelope:truncate", "envelope:append", "envelope:rekey", "envelope:reflect",
	"cut:result-unknown", "cut:pong", "cut:ack", "cut:bad-msg", "cut:state-info", "cut:update", "cut:nested-container", "cut:future-salts"}

var wellFormedService = map[string]bool{"pong": true, "ack": true, "new-session": true, "update": true, "updates-too-long": true, "state-info": true, "all-info": true,
	"detailed-info": true, "new-detailed-info": true, "bad-salt-unknown": true, "bad-salt-answered": true, "rotate": true}

// schema-object: a well-formed value of any constructor or function of mtproto.tl, or any constructor of the API layer,
// generated from the schema text and serialised by the reference codec (Def names it, Body carries the bytes)
var (
	sch     *tlx.Schema
	objDefs []*tlx.Def // everything the generator can build
	nMT     int        // the first nMT of them are mtproto.tl
)

type u64Source struct{ s scen.Source }

func (u u64Source) U64() uint64 {
	b := u.s.Bytes("obj", 8)
	var x uint64
	for i := 0; i < 8; i++ {
		x |= uint64(b[i]) << (8 * i)
	}
	return x
}

func setupSchema(t *testing.T) {
	if sch != nil {
		return
	}
	var err error
	if sch, err = tlx.Load(); err != nil {
		t.Fatalf("INFRA: %v", err)
	}
	try := func(d *tlx.Def) bool {
		// definitions the reference codec cannot always serialise (items of msg_container are not boxed) stay out
		for seed := uint64(1); seed <= 12; seed++ {
			g := &tlx.AGen{Sch: sch, S: u64Source{&detSource{seed: seed}}, MaxDepth: 2}
			v, err := g.Val(d, 2)
			if err != nil {
				return false
			}
			if _, err = tlx.Encode(v); err != nil {
				return false
			}
		}
		return true
	}
	for _, d := range sch.Defs {
		if d.File == "mtproto.tl" && !d.Generic && try(d) {
			objDefs = append(objDefs, d)
		}
	}
	nMT = len(objDefs)
	for _, d := range sch.API(false) {
		if !d.Function && !d.Generic && try(d) {
			objDefs = append(objDefs, d)
		}
	}
}

func schemaObject(src scen.Source, d *tlx.Def) ([]byte, error) {
	g := &tlx.AGen{Sch: sch, S: u64Source{src}, MaxDepth: 2}
	v, err := g.Val(d, 2)
	if err != nil {
		return nil, err
	}
	return tlx.Encode(v)
}

type Event struct {
	Def            string `json:",omitempty"`
	Kind           string
	Gzip           bool
	InContainer    bool
	ContentRelated bool
	Arg            int64
	Body           []byte `json:",omitempty"`
	Cut            int    `json:",omitempty"` // cut:<kind>: number of 4-byte words kept
	Run            int    `json:",omitempty"` // close-run: number of connections closed in a row
	Split          int    `json:",omitempty"` // > 0: the frame reaches the client in two TCP segments, cut after that many bytes (mod length)
}

func build(s scen.Source, events []Event) *scen.Scenario {
	sc := scen.NewResumed(s)
	steps := []scen.Step{
		// one ordinary call first, so that there is an "already answered" request to repeat a result for
		{Op: "call", Calls: []scen.CallSpec{{Caller: 0, Reqs: []scen.ReqSpec{{Tag: 7, Kind: "vecint"}}}}},
		{Op: "await-requests", N: 1},
		{Op: "answer", Items: []scen.AnsItem{{Tag: 7}}},
		{Op: "await-calls"},
	}
	conns := 1
	pendTag := 100
	salt := int64(0x0102030405060000)
	for _, ev := range events {
		switch ev.Kind {
		case "close":
			conns++
			steps = append(steps, scen.Step{Op: "close"}, scen.Step{Op: "await-reconnect", N: conns})
		case "close-run":
			// the server (restarting, or a balancer without backends) closes Run connections in a row, each as soon as the
			// client has opened it; then it stays up
			conns++
			steps = append(steps, scen.Step{Op: "close"}, scen.Step{Op: "await-reconnect", N: conns})
			for k := 1; k < ev.Run; k++ {
				conns++
				steps = append(steps, scen.Step{Op: "close-latest"}, scen.Step{Op: "await-reconnect", N: conns})
			}
		case "close-pending":
			// the connection is closed while a request the server has received is still unanswered; answers belong to the
			// session, so the server gives it on a later connection: right after the client is back (variant 0), or after it
			// has closed that connection too (variant 1), or after a close and an answered probe and another close (variant 2)
			pendTag++
			steps = append(steps, scen.Step{Op: "call", Calls: []scen.CallSpec{{Caller: pendTag, Reqs: []scen.ReqSpec{{Tag: pendTag, Kind: []string{"object", "vecint", "bool"}[int(ev.Arg>>2)%3]}}}}},
				scen.Step{Op: "await-requests", N: 1})
			conns++
			steps = append(steps, scen.Step{Op: "close"}, scen.Step{Op: "await-reconnect", N: conns}, scen.Step{Op: "probe", Retry: true})
			for k := int(ev.Arg>>4) % 3; k > 0; k-- {
				conns++
				steps = append(steps, scen.Step{Op: "close"}, scen.Step{Op: "await-reconnect", N: conns})
				if k == 2 {
					steps = append(steps, scen.Step{Op: "probe", Retry: true})
				}
			}
			steps = append(steps, scen.Step{Op: "probe", Retry: true}, scen.Step{Op: "answer", Container: ev.InContainer, Items: []scen.AnsItem{{Tag: pendTag, Gzip: ev.Gzip}}}, scen.Step{Op: "await-calls"})
		case "new-session":
			salt++
			steps = append(steps, scen.Step{Op: "new-session", Salt: salt})
		case "bad-salt-unknown", "bad-salt-answered":
			salt++
			p := &scen.PushSpec{Kind: strings.TrimPrefix(ev.Kind, "bad-salt-"), Arg: ev.Arg, InContainer: ev.InContainer}
			if ev.Kind == "bad-salt-answered" {
				p.Arg = 7
			}
			steps = append(steps, scen.Step{Op: "bad-salt", Salt: salt, Push: p})
		case "rotate":
			// silent rotation: the probe that follows is rejected with bad_server_salt and has to be repeated by the client
			salt++
			steps = append(steps, scen.Step{Op: "rotate", Salt: salt})
		case "result-again":
			steps = append(steps, scen.Step{Op: "answer", Container: ev.InContainer, Items: []scen.AnsItem{{Tag: 7, Again: true, Gzip: ev.Gzip}}})
		default:
			p := &scen.PushSpec{Kind: ev.Kind, Gzip: ev.Gzip, InContainer: ev.InContainer, ContentRelated: ev.ContentRelated, Arg: ev.Arg, Body: ev.Body, Split: ev.Split}
			if strings.HasPrefix(ev.Kind, "cut:") {
				// a well-formed message of that kind cut short at a word boundary
				whole := scen.PushBody(&scen.PushSpec{Kind: strings.TrimPrefix(ev.Kind, "cut:"), Arg: ev.Arg})
				n := int(ev.Cut) * 4
				if n > len(whole) {
					n = len(whole) / 4 * 4
				}
				p = &scen.PushSpec{Kind: "raw", Body: whole[:n], InContainer: ev.InContainer, ContentRelated: ev.ContentRelated, Split: ev.Split}
			}
			switch ev.Kind {
			case "schema-object":
				p.Kind = "raw"
			case "error-unknown":
				p.Kind = "raw"
				// rpc_result{req_msg_id = unknown, rpc_error{420, FLOOD_WAIT_3}}
				p.Body = append([]byte{0x01, 0x6d, 0x5c, 0xf3, 0, 0, 0, 0, 1, 0, 0, 0, 0x19, 0xca, 0x44, 0x21, 0xa4, 0x01, 0, 0, 12}, append([]byte("FLOOD_WAIT_3"), 0, 0, 0)...)
				p.ContentRelated = true
			case "raw-soup":
				p.Kind = "raw"
			case "update", "updates-too-long", "result-unknown":
				p.ContentRelated = true
			}
			steps = append(steps, scen.Step{Op: "push", Push: p})
		}
		steps = append(steps, scen.Step{Op: "probe", Retry: ev.Kind == "close" || ev.Kind == "close-run" || ev.Kind == "close-pending"})
	}
	sc.RPC.Steps = steps
	return sc
}

func judge(sc *scen.Scenario, events []Event, res *scen.Result, runErr error) (string, error) {
	if runErr != nil {
		return "inconclusive", fmt.Errorf("INFRA: %v", runErr)
	}
	if res.Died {
		return "violation", fmt.Errorf("a server message terminated the client process: %s", scen.PanicSite(res.Stderr))
	}
	if !res.Connected {
		return "inconclusive", fmt.Errorf("INFRA: resumed session did not connect: %s %s", res.ConnectErr, res.ConnectPanic)
	}
	if res.Stall != nil {
		for _, n := range res.Notes {
			if strings.Contains(n, "no reconnection") && (res.Stall.Verdict == "IDLE" || res.Stall.Verdict == "STALL") {
				return "violation", fmt.Errorf("the server closed the connection and went on listening; the client did not reconnect within 3 s (%s; receive loop %s at %s)", n, res.Stall.Verdict, res.Stall.LoopAt)
			}
		}
		if res.Stall.Verdict == "STALL" {
			return "violation", fmt.Errorf("the receive loop stopped: blocked at %s", res.Stall.LoopAt)
		}
		if res.Stall.Verdict == "IDLE" {
			// which event preceded the request that never completed?
			nProbes := 0
			for _, c := range res.Calls {
				if c.Kind == "probe" && c.OK {
					nProbes++
				}
			}
			prev := "the initial call"
			if nProbes-1 >= 0 && nProbes-1 < len(events) {
				prev = "server event #" + fmt.Sprint(nProbes-1) + " (" + events[nProbes-1].Kind + ")"
			}
			return "violation", fmt.Errorf("a request issued after %s never completes: the client is idle and its caller waits (warnings: %v)", prev, lastN(res.Warnings, 2))
		}
		return "inconclusive", fmt.Errorf("INFRA: unfinished, state inspection inconclusive: %s", res.Stall.LoopAt)
	}
	want := map[int]string{}
	for _, st := range sc.RPC.Steps {
		for _, cs := range st.Calls {
			for _, r := range cs.Reqs {
				want[r.Tag] = scen.Expected(r)
			}
		}
	}
	for _, c := range res.Calls {
		if c.Panic != "" {
			return "violation", fmt.Errorf("a caller panicked: %s", c.Panic)
		}
		if !c.OK {
			return "violation", fmt.Errorf("a request did not complete: %+v", c)
		}
		if c.Kind == "probe" && c.Value != "true" {
			return "violation", fmt.Errorf("a probe returned %s instead of its own answer", c.Value)
		}
		if w, ok := want[c.Tag]; ok && c.Tag > 100 && c.Value != w {
			return "violation", fmt.Errorf("the request that was unanswered when the server closed the connection returned %s, its answer (given after the reconnection) was %s", c.Value, w)
		}
		if c.Tag == 7 && c.Value != "vecint:[7 8 9]" {
			return "violation", fmt.Errorf("the initial call returned %s", c.Value)
		}
	}
	// reconnection: same auth key, no new key exchange, no plain-text frame
	firstFrame := map[int]string{}
	for _, ev := range res.Events {
		switch ev.Kind {
		case "plain":
			return "violation", fmt.Errorf("the client sent a plain-text (key exchange) frame on connection %d of a session that has an auth key", ev.Conn)
		case "enc":
			if _, ok := firstFrame[ev.Conn]; !ok {
				firstFrame[ev.Conn] = "enc"
			}
		case "violation":
			return "violation", fmt.Errorf("server-side validation: %s", ev.Note)
		}
	}
	for _, n := range res.Notes {
		if strings.Contains(n, "no connection") || strings.Contains(n, "not pending") || strings.Contains(n, "warm-up") {
			return "inconclusive", fmt.Errorf("INFRA: script could not be played: %s", n)
		}
	}
	return "ok", nil
}

func lastN(v []string, n int) []string {
	if len(v) > n {
		return v[len(v)-n:]
	}
	return v
}

func genEvents(t *rapid.T) []Event {
	n := rapid.IntRange(1, 12).Draw(t, "nevents")
	var out []Event
	for i := 0; i < n; i++ {
		ev := Event{Kind: rapid.SampledFrom(eventKinds).Draw(t, "kind"), Arg: int64(rapid.IntRange(1, 1<<30).Draw(t, "arg")) << 2}
		ev.Gzip = rapid.IntRange(0, 4).Draw(t, "gzip") == 0
		ev.InContainer = rapid.IntRange(0, 3).Draw(t, "container") == 0
		ev.ContentRelated = rapid.Bool().Draw(t, "content")
		if rapid.IntRange(0, 3).Draw(t, "split") == 0 {
			ev.Split = rapid.IntRange(1, 400).Draw(t, "splitat")
		}
		if ev.Kind == "close" && rapid.IntRange(0, 2).Draw(t, "closerun") == 0 {
			ev.Kind, ev.Run = "close-run", rapid.SampledFrom([]int{2, 3, 6, 7, 8}).Draw(t, "run")
		}
		if ev.Kind == "schema-object" {
			var d *tlx.Def
			if rapid.Bool().Draw(t, "mtproto-def") {
				d = objDefs[rapid.IntRange(0, nMT-1).Draw(t, "def")]
			} else {
				d = objDefs[rapid.IntRange(nMT, len(objDefs)-1).Draw(t, "def")]
			}
			if b, err := schemaObject(rapidSource{t}, d); err == nil {
				ev.Def, ev.Body = d.File+":"+d.Name, b
			} else {
				ev.Kind = "pong" // the reference codec cannot serialise this value: not an event
			}
		}
		if ev.Kind == "raw-soup" {
			ev.Body = rapid.SliceOfN(rapid.Byte(), 0, 40).Draw(t, "soup")
			ev.Body = ev.Body[:len(ev.Body)/4*4]
		}
		if strings.HasPrefix(ev.Kind, "cut:") {
			ev.Cut = rapid.IntRange(1, 6).Draw(t, "cut")
			ev.Gzip = false
		}
		if ev.Kind == "empty-body" || ev.Kind == "truncated" || ev.Kind == "raw-soup" || ev.Kind == "gzip-damaged" || strings.HasPrefix(ev.Kind, "envelope:") {
			ev.Gzip = false // gzip_packed needs an object to pack
		}
		out = append(out, ev)
	}
	return out
}

func evaluate(sc *scen.Scenario, events []Event) error {
	res, runErr := scen.RunChild(sc, 180*time.Second)
	verdict, err := judge(sc, events, res, runErr)
	var cls []string
	nt := false
	if sc.ServerClockOffset > 0 {
		cls = append(cls, "server-clock-after-2038")
	}
	for _, ev := range events {
		cls = append(cls, "event:"+ev.Kind)
		if ev.Run >= 6 {
			cls = append(cls, "event:>=6-connections-closed-in-a-row")
		}
		if ev.Kind != "pong" && ev.Kind != "ack" {
			nt = true
		}
		if ev.Kind == "schema-object" {
			cls = append(cls, "schema-object:"+strings.SplitN(ev.Def, ":", 2)[0])
		}
		if ev.Gzip {
			cls = append(cls, "event-gzip-packed")
		}
		if ev.InContainer {
			cls = append(cls, "event-in-container")
		}
		if ev.Split > 0 {
			cls = append(cls, "event-frame-in-two-tcp-segments")
		}
		if wellFormedService[ev.Kind] {
			cls = append(cls, "well-formed-service-traffic")
		}
	}
	if res != nil {
		for _, ev := range res.Events {
			if ev.Kind == "handler-call" {
				cls = append(cls, "handler-called")
				break
			}
		}
		if len(res.Warnings) > 0 {
			cls = append(cls, "warning-surfaced")
		}
	}
	b, _ := json.Marshal(events)
	run.Case(verdict != "inconclusive" && nt, evid.Hash(b), append(cls, "verdict:"+verdict)...)
	if len(events) <= 5 {
		run.Sample(map[string]any{"server_events": events})
	}
	return err
}

type caseT struct {
	Events   []Event
	Scenario *scen.Scenario
}

func TestC16(t *testing.T) {
	setupSchema(t)
	if p := hx.ReplayPath(); p != "" {
		var c caseT
		if err := evid.LoadReplay(p, &c); err != nil {
			t.Fatal(err)
		}
		run.Case(true, 1)
		if err := evaluate(c.Scenario, c.Events); err != nil {
			if strings.HasPrefix(err.Error(), "INFRA:") {
				t.Fatalf("%v", err)
			}
			run.Violation(c, err.Error())
			t.Fatalf("replay fails: %v", err)
		}
		return
	}
	t.Run("each-event-once", func(t *testing.T) {
		nsh, idx := hx.NShards(), 0
		var n int64
		seenKind := map[string]bool{}
		for _, k := range append([]string{"close-run"}, eventKinds...) {
			if seenKind[k] || k == "schema-object" {
				continue
			}
			seenKind[k] = true
			variants := []Event{{}, {Gzip: true}, {InContainer: true}, {ContentRelated: true}, {Split: 3}, {Split: 37}}
			if k == "bad-msg" {
				// every error code of the list (documented and not), plain and in a container
				variants = nil
				for a := 0; a < 23; a++ {
					variants = append(variants, Event{Arg: int64(a) << 2, InContainer: a%3 == 1, Gzip: a%5 == 2})
				}
			}
			if k == "envelope:badlen" {
				// every declared length of the list, with the msg_key over everything and over the header only
				variants = nil
				for a := 0; a < 10; a++ {
					variants = append(variants, Event{Arg: int64(a)<<8 | 0<<2}, Event{Arg: int64(a)<<8 | 1<<2})
				}
			}
			if k == "close-pending" {
				// kind of the unanswered request x number of further closes before its answer, plain / gzip / in a container
				variants = nil
				for a := 0; a < 9; a++ {
					variants = append(variants, Event{Arg: int64(a%3)<<2 | int64(a/3)<<4, Gzip: a%4 == 1, InContainer: a%4 == 2})
				}
			}
			for _, variant := range variants {
				idx++
				if idx%nsh != run.Shard {
					continue
				}
				ev := variant
				ev.Kind, ev.Arg = k, int64(idx)<<8
				if k == "close-run" {
					ev.Run = 7
				}
				if strings.HasPrefix(k, "cut:") {
					ev.Gzip = false
					ev.Cut = 1 + (idx % 5) // together with the four wrappings every short prefix occurs
				}
				if k == "empty-body" || k == "truncated" || k == "raw-soup" || k == "gzip-damaged" || strings.HasPrefix(k, "envelope:") {
					ev.Gzip = false
				}
				if k == "envelope:badlen" || k == "close-pending" || k == "bad-msg" {
					ev.Arg = variant.Arg
				}
				if k == "raw-soup" {
					ev.Body = hx.Det(uint64(idx), 16)
				}
				events := []Event{ev}
				sc := build(&detSource{seed: run.Seed + uint64(idx)}, events)
				n++
				if err := evaluate(sc, events); err != nil {
					if strings.HasPrefix(err.Error(), "INFRA:") {
						t.Logf("inconclusive: %v", err)
						continue
					}
					p := run.ViolationNamed(fmt.Sprintf("single-%s-%d", k, idx), caseT{events, sc}, err.Error())
					t.Errorf("violation (replay %s): %v", p, err)
				}
			}
		}
		run.Exhaustive("every event kind alone x {plain, gzip, in container, content-related, frame split inside its length prefix, frame split inside its body} (this shard's share)", n)
	})
	if t.Failed() {
		return
	}
	t.Run("each-schema-object", func(t *testing.T) {
		// every definition of mtproto.tl once (constructors and functions: a server can send either), and a sample of the
		// API layer's constructors, each as the only event of a history
		nsh := hx.NShards()
		var n int64
		nAPI := run.Pick(48, 1200)
		for i, d := range objDefs {
			if i >= nMT {
				k := i - nMT
				total := len(objDefs) - nMT
				// an evenly spread, seed-dependent sample of the API constructors
				if nAPI < total && int((uint64(k)*2654435761+run.Seed*97)%uint64(total)) >= nAPI {
					continue
				}
			}
			if i%nsh != run.Shard%nsh {
				continue
			}
			src := &detSource{seed: run.Seed*31 + uint64(i)}
			b, err := schemaObject(src, d)
			if err != nil {
				continue
			}
			ev := Event{Kind: "schema-object", Def: d.File + ":" + d.Name, Body: b, ContentRelated: i%2 == 0, InContainer: i%5 == 0, Gzip: i%7 == 0}
			events := []Event{ev}
			sc := build(src, events)
			n++
			if err := evaluate(sc, events); err != nil {
				if strings.HasPrefix(err.Error(), "INFRA:") {
					t.Logf("inconclusive: %v", err)
					continue
				}
				p := run.ViolationNamed(fmt.Sprintf("object-%s", strings.ReplaceAll(d.Name, ".", "_")), caseT{events, sc}, err.Error())
				t.Errorf("violation (replay %s) [%s]: %v", p, ev.Def, err)
			}
		}
		run.Exhaustive("every mtproto.tl definition + a sample of API constructors as the only server event (this shard's share)", n)
	})
	if t.Failed() {
		return
	}
	t.Run("generated", func(t *testing.T) {
		rapid.Check(t, func(t *rapid.T) {
			events := genEvents(t)
			sc := build(rapidSource{t}, events)
			sc.GoMaxProcs = rapid.SampledFrom([]int{1, 2, 16}).Draw(t, "gomaxprocs")
			if err := evaluate(sc, events); err != nil {
				if strings.HasPrefix(err.Error(), "INFRA:") {
					t.Skipf("%v", err)
				}
				hx.Fail(t, run, caseT{events, sc}, err)
			}
		})
	})
}

type detSource struct{ seed uint64 }

func (d *detSource) Bytes(label string, n int) []byte {
	d.seed = d.seed*6364136223846793005 + 1442695040888963407
	return hx.Det(d.seed^evid.Hash(label), n)
}
func (d *detSource) Int(label string, n int) int {
	d.seed = d.seed*6364136223846793005 + 1442695040888963407
	return int(hx.DetU64(d.seed^evid.Hash(label)) % uint64(n))
}
