package c06

import (
	"bytes"
	"encoding/binary"
	"encoding/json"
	"fmt"
	"strings"
	"testing"
	"time"

	"github.com/xelaj/mtproto/telegram/verifh/hx"
	"github.com/xelaj/mtproto/telegram/verifh/ref"
	"github.com/xelaj/mtproto/telegram/verifh/refsrv"
	"github.com/xelaj/mtproto/telegram/verifh/scen"
	"pgregory.net/rapid"
	"verif/evid"
)

var run = evid.New("C06")

func TestMain(m *testing.M) { hx.Main(m, run) }

type rapidSource struct{ t *rapid.T }

func (r rapidSource) Bytes(label string, n int) []byte { return hx.FixedBytes(r.t, label, n) }
func (r rapidSource) Int(label string, n int) int      { return rapid.IntRange(0, n-1).Draw(r.t, label) }

type detSource struct{ seed uint64 }

func (d *detSource) Bytes(label string, n int) []byte {
	d.seed = d.seed*6364136223846793005 + 1442695040888963407
	return hx.Det(d.seed^evid.Hash(label), n)
}
func (d *detSource) Int(label string, n int) int {
	d.seed = d.seed*6364136223846793005 + 1442695040888963407
	return int(hx.DetU64(d.seed^evid.Hash(label)) % uint64(n))
}

// judge applies the C06 oracle to what the child reported.
func judge(sc *scen.Scenario, res *scen.Result, runErr error) (verdict string, err error) {
	if runErr != nil {
		return "inconclusive", fmt.Errorf("INFRA: %v", runErr)
	}
	if res.Died {
		return "violation", fmt.Errorf("client process died during a conformant key exchange: %s", scen.PanicSite(res.Stderr))
	}
	if res.ConnectPanic != "" {
		return "violation", fmt.Errorf("CreateConnection panicked: %s", res.ConnectPanic)
	}
	// the exchange under test is the one with the main server; companions (other clients of the process) have their own
	var mainHS []*refsrv.HSObs
	for _, h := range res.HS {
		if h.Server == "" || h.Server == "dc-main" {
			mainHS = append(mainHS, h)
		}
	}
	res.HS = mainHS
	for _, n := range res.Notes {
		if strings.HasPrefix(n, "companion") && strings.Contains(n, "failed") {
			return "violation", fmt.Errorf("a key exchange with a conformant server fails when %d other clients of the process exchange keys at the same time: %s", sc.Companions, n)
		}
	}
	var serverSide string
	for _, h := range res.HS {
		if h.Err != "" {
			serverSide = h.Err
		}
	}
	if res.ConnectErr != "" {
		return "violation", fmt.Errorf("CreateConnection failed against a conformant server: %s (server side: %s)", res.ConnectErr, serverSide)
	}
	if res.ConnectHung {
		for _, n := range res.Notes {
			if strings.HasPrefix(n, "STUCK-IN-SPLITPQ") {
				return "violation", fmt.Errorf("key exchange does not complete: the client is still factorising pq = %d * %d (%s; the factorisation usually takes at most a few seconds)", sc.HS.P, sc.HS.Q, n)
			}
		}
		for _, n := range res.Notes {
			if strings.HasPrefix(n, "CLIENT-IDLE-AFTER-REPLY") {
				return "violation", fmt.Errorf("key exchange does not complete (replies cut at %v): %s", sc.HS.Splits, n)
			}
		}
		if serverSide != "" {
			return "violation", fmt.Errorf("the conformant server cannot continue the exchange: %s", serverSide)
		}
		return "inconclusive", fmt.Errorf("INFRA: connect did not finish and the server reports no reason; %v", res.Notes)
	}
	if len(res.HS) != 1 || !res.HS[0].Completed {
		return "violation", fmt.Errorf("client reports a connection but the server did not complete exactly one key exchange (%d)", len(res.HS))
	}
	h := res.HS[0]
	if !bytes.Equal(res.ClientAuthKey, h.AuthKey) {
		return "violation", fmt.Errorf("auth keys differ: client holds %d bytes (id %x), server %d bytes (id %x)", len(res.ClientAuthKey), ref.AuthKeyID(res.ClientAuthKey), len(h.AuthKey), ref.AuthKeyID(h.AuthKey))
	}
	if res.ClientSalt != h.Salt {
		return "violation", fmt.Errorf("initial salts differ: client %d, server %d", res.ClientSalt, h.Salt)
	}
	sf := res.Session
	if sf == nil || !sf.Exists {
		return "violation", fmt.Errorf("no session was stored after a completed key exchange")
	}
	if !bytes.Equal(sf.Key, h.AuthKey) || !bytes.Equal(sf.Hash, ref.AuthKeyID(h.AuthKey)) || !sf.SaltOK || sf.Salt != h.Salt || sf.Hostname != res.Addrs["dc-main"] {
		return "violation", fmt.Errorf("stored session differs from the exchange: key ok=%v, key id ok=%v, salt %d (want %d), host %q (want %q)",
			bytes.Equal(sf.Key, h.AuthKey), bytes.Equal(sf.Hash, ref.AuthKeyID(h.AuthKey)), sf.Salt, h.Salt, sf.Hostname, res.Addrs["dc-main"])
	}
	if res.Probe == nil || !res.Probe.OK || res.Probe.Value != "true" {
		return "violation", fmt.Errorf("first encrypted request did not complete: %+v", res.Probe)
	}
	seenProbe := false
	for _, ev := range res.Events {
		if ev.Kind == "violation" {
			return "violation", fmt.Errorf("server-side validation: %s", ev.Note)
		}
		if ev.Kind == "enc" && ev.Ctor == "2714d86c" {
			seenProbe = true
			if ev.Salt != h.Salt {
				return "violation", fmt.Errorf("first encrypted request carries salt %d, server's initial salt is %d", ev.Salt, h.Salt)
			}
		}
	}
	if !seenProbe {
		return "violation", fmt.Errorf("the server never read the client's first encrypted request")
	}
	return "ok", nil
}

func classes(sc *scen.Scenario, res *scen.Result, intended scen.Corner) []string {
	var cls []string
	if sc.Draws != nil {
		cls = append(cls, "draws:injected")
	} else {
		cls = append(cls, "draws:client-own")
	}
	cls = append(cls, fmt.Sprintf("g=%d", sc.HS.G))
	eb := 0
	for e := sc.RSA.E; e > 0; e >>= 8 {
		eb++
	}
	cls = append(cls, fmt.Sprintf("rsa-public-exponent:%d-bytes", eb))
	if sc.Companions > 0 {
		cls = append(cls, "concurrent-exchanges-in-process")
	}
	switch nb, na := len(sc.HS.ExtraFP), len(sc.HS.ExtraFPAfter); {
	case nb == 0 && na == 0:
		cls = append(cls, "fingerprints:only-the-known-key")
	case nb == 0:
		cls = append(cls, "fingerprints:known-key-first")
	case na == 0:
		cls = append(cls, "fingerprints:known-key-last")
	default:
		cls = append(cls, "fingerprints:known-key-in-the-middle")
	}
	switch {
	case sc.HS.Q < 1<<16:
		cls = append(cls, "pq:small")
	case sc.HS.Q < 1<<28:
		cls = append(cls, "pq:medium")
	default:
		cls = append(cls, "pq:large")
	}
	if sc.HS.P > 3037000499 && sc.HS.Q > 3037000499 {
		cls = append(cls, "pq:above-2^63")
	}
	for _, k := range sc.HS.Splits {
		if k > 0 {
			cls = append(cls, "reply-in-two-tcp-segments")
			break
		}
	}
	if sc.FirstDialRefused {
		cls = append(cls, "second-attempt-after-refused-connection")
	}
	if sc.ServerClockOffset > 0 {
		cls = append(cls, "server-clock-after-2038")
	}
	if sc.HS.PQPad8 {
		cls = append(cls, "pq:padded-to-8")
	}
	if res != nil && len(res.HS) > 0 {
		for f, z := range scen.ObservedCorners(res.HS[0]) {
			cls = append(cls, fmt.Sprintf("corner:%s", f), fmt.Sprintf("corner:%s:%d", f, min(z, 2)))
		}
	}
	return cls
}

func evaluate(sc *scen.Scenario, intended scen.Corner) error {
	res, runErr := scen.RunChild(sc, 260*time.Second)
	verdict, err := judge(sc, res, runErr)
	b, _ := json.Marshal(sc)
	run.Case(verdict != "inconclusive", evid.Hash(b), append(classes(sc, res, intended), "verdict:"+verdict)...)
	run.Sample(map[string]any{"p": sc.HS.P, "q": sc.HS.Q, "g": sc.HS.G, "pq_pad8": sc.HS.PQPad8, "injected": sc.Draws != nil, "corner": intended, "elapsed_ms": resElapsed(res)})
	return err
}

func resElapsed(r *scen.Result) int64 {
	if r == nil {
		return 0
	}
	return r.ElapsedMs
}

func TestC06(t *testing.T) {
	keys, err := scen.KeyPool()
	if err != nil {
		t.Fatalf("INFRA: %v", err)
	}
	if p := hx.ReplayPath(); p != "" {
		var sc scen.Scenario
		if err := evid.LoadReplay(p, &sc); err != nil {
			t.Fatal(err)
		}
		run.Case(true, 1)
		if err := evaluate(&sc, scen.Corner{}); err != nil {
			if strings.HasPrefix(err.Error(), "INFRA:") {
				t.Fatalf("%v", err)
			}
			run.Violation(sc, err.Error())
			t.Fatalf("replay fails: %v", err)
		}
		return
	}
	nsh := hx.NShards()
	t.Run("corners", func(t *testing.T) {
		idx := 0
		var n int64
		zs := []int{1, 2}
		reps := run.Pick(1, 4)
		for rep := 0; rep < reps; rep++ {
			for _, f := range scen.CornerFields {
				for _, z := range zs {
					idx++
					if idx%nsh != run.Shard {
						continue
					}
					if z == 2 && (f == "rsa_ciphertext") && rep > 0 {
						continue // 65536 RSA operations per search: once is enough
					}
					if z == 2 && !run.Thorough() && f != "g_a" && f != "g_b" && f != "g_ab" {
						continue // quick tier: two zero bytes for the group elements only (found by walking the exponent: cheap)
					}
					src := &detSource{seed: run.Seed*977 + uint64(idx)}
					sc, err := scen.BuildHandshake(src, keys, scen.Corner{Field: f, Zeros: z}, true)
					if err != nil {
						t.Fatalf("INFRA: %v", err)
					}
					// keep the forced corners cheap: small factors
					n++
					if err := evaluate(sc, scen.Corner{Field: f, Zeros: z}); err != nil {
						if strings.HasPrefix(err.Error(), "INFRA:") {
							t.Fatalf("%v", err)
						}
						p := run.ViolationNamed(fmt.Sprintf("corner-%s-%d-%d", f, z, rep), sc, err.Error())
						t.Errorf("violation (replay %s): %v", p, err)
					}
				}
			}
		}
		// boundary products of two primes below 2^32
		for _, pq := range [][2]uint64{{2, 3}, {2, 4294967291}, {251, 257}, {65521, 65537}, {3037000493, 3037000507}, {3100000027, 3100000039}, {4294967279, 4294967291}} {
			idx++
			if idx%nsh != run.Shard {
				continue
			}
			sc, err := scen.BuildHandshake(&detSource{seed: run.Seed*977 + uint64(idx)}, keys, scen.Corner{}, false)
			if err != nil {
				t.Fatalf("INFRA: %v", err)
			}
			sc.HS.P, sc.HS.Q = pq[0], pq[1]
			sc.PatienceMs = 12000
			n++
			if err := evaluate(sc, scen.Corner{}); err != nil {
				if strings.HasPrefix(err.Error(), "INFRA:") {
					t.Fatalf("%v", err)
				}
				p := run.ViolationNamed(fmt.Sprintf("pq-%d-%d", pq[0], pq[1]), sc, err.Error())
				t.Errorf("violation (replay %s): %v", p, err)
			}
		}
		// other clients of the same process exchanging keys at the same moment: four runs with fifteen companions each, whatever
		// the generated part draws (the overlap is a matter of microseconds: the more attempts the better)
		for k := 0; k < 4; k++ {
			idx++
			if idx%nsh != run.Shard {
				continue
			}
			sc, err := scen.BuildHandshake(&detSource{seed: run.Seed*977 + uint64(idx)}, keys, scen.Corner{}, false)
			if err != nil {
				t.Fatalf("INFRA: %v", err)
			}
			sc.Companions, sc.HS.P, sc.HS.Q = 15, 1000003, 1000033
			n++
			if err := evaluate(sc, scen.Corner{}); err != nil {
				if strings.HasPrefix(err.Error(), "INFRA:") {
					t.Fatalf("%v", err)
				}
				p := run.ViolationNamed(fmt.Sprintf("companions-%d", k), sc, err.Error())
				t.Errorf("violation (replay %s): %v", p, err)
			}
		}
		// every key of the pool once: public exponents of one to four bytes (3, 17, 257, 49153, 65537, 2^24+43, 2^31-1)
		for ki := range keys {
			idx++
			if idx%nsh != run.Shard {
				continue
			}
			sc, err := scen.BuildHandshake(&detSource{seed: run.Seed*977 + uint64(idx)}, keys, scen.Corner{}, false)
			if err != nil {
				t.Fatalf("INFRA: %v", err)
			}
			sc.RSA = keys[ki]
			sc.HS.P, sc.HS.Q = 1000003, 1000033
			n++
			if err := evaluate(sc, scen.Corner{}); err != nil {
				if strings.HasPrefix(err.Error(), "INFRA:") {
					t.Fatalf("%v", err)
				}
				p := run.ViolationNamed(fmt.Sprintf("key-%d-e-%d", ki, keys[ki].E), sc, err.Error())
				t.Errorf("violation (replay %s): %v", p, err)
			}
		}
		run.Exhaustive("8 fields x leading-zero widths forced by search, 7 boundary pq products, every RSA key of the pool (this shard's share)", n)
	})
	if t.Failed() {
		return
	}
	t.Run("generated", func(t *testing.T) {
		rapid.Check(t, func(t *rapid.T) {
			inject := rapid.IntRange(0, 3).Draw(t, "inject") == 0
			sc, err := scen.BuildHandshake(rapidSource{t}, keys, scen.Corner{}, inject)
			if err != nil {
				t.Fatalf("INFRA: %v", err)
			}
			if sc.Draws == nil && rapid.IntRange(0, 2).Draw(t, "with-companions") > 0 {
				// other clients of the same process exchange keys at the same time (small factorisations: the point is the overlap)
				sc.Companions = rapid.SampledFrom([]int{3, 7, 15}).Draw(t, "companions")
				sc.HS.P, sc.HS.Q = 1000003, 1000033
			}
			if sc.Companions == 0 && rapid.IntRange(0, 3).Draw(t, "server-down-first") == 0 {
				sc.FirstDialRefused = true
			}
			if err := evaluate(sc, scen.Corner{}); err != nil {
				if strings.HasPrefix(err.Error(), "INFRA:") {
					t.Skipf("%v", err)
				}
				hx.Fail(t, run, sc, err)
			}
		})
	})
}

var _ = binary.LittleEndian
var _ = refsrv.IDReqPQ
