package c19

import (
	"bytes"
	cryptorand "crypto/rand"
	"encoding/hex"
	"errors"
	"fmt"
	"io"
	"math/big"
	mathrand "math/rand"
	"os"
	"path/filepath"
	"strings"
	"sync"
	"sync/atomic"
	"testing"
	"time"

	"github.com/xelaj/mtproto"
	"github.com/xelaj/mtproto/internal/encoding/tl"
	imath "github.com/xelaj/mtproto/internal/math"
	"github.com/xelaj/mtproto/telegram"
	"github.com/xelaj/mtproto/telegram/verifh/hx"
	"github.com/xelaj/mtproto/telegram/verifh/ref"
	"github.com/xelaj/mtproto/telegram/verifh/refsrv"
	"github.com/xelaj/mtproto/telegram/verifh/scen"
	"pgregory.net/rapid"
	"verif/evid"
)

var run = evid.New("C19")

func TestMain(m *testing.M) { hx.Main(m, run) }

// Case: which secret, under which environment of the draw.
type Case struct {
	Kind            string // reseed-nonces | reseed-exchange | reseed-srp | clock-nonce | clock-exponent | reseed-exponent-params
	Seed            int64  // value the process-global math/rand is seeded with (reseed kinds)
	G               int32
	Password        string
	Limit           int            `json:",omitempty"` // short-os-source: bytes the OS source delivers before it fails
	Draws           int            `json:",omitempty"` // many-draws: number of (nonce, new_nonce) pairs drawn in one process
	StallMs         int            `json:",omitempty"` // stalled-os-source: delay of every read of the OS source
	SecureRandomLen int            `json:",omitempty"` // srp-distinct: length of the server's secure_random
	Prime           string         `json:",omitempty"` // reseed-exponent-params: dh_prime (hex) as a server may send it; the client does not validate it
	GA              string         `json:",omitempty"`
	Scenario        *scen.Scenario `json:",omitempty"`
	Found           string         `json:",omitempty"` // how the secret was reproduced
}

type rapidSource struct{ t *rapid.T }

func (r rapidSource) Bytes(label string, n int) []byte { return hx.FixedBytes(r.t, label, n) }
func (r rapidSource) Int(label string, n int) int      { return rapid.IntRange(0, n-1).Draw(r.t, label) }

// seedCandidates: every nanosecond of the window and its coarser roundings, plus constants.
func seedWindow(t0, t1 int64) (lo, hi int64, extra []int64) {
	extra = []int64{0, 1, int64(os.Getpid()), t0 / 1e3, t0 / 1e6, t0 / 1e9, t1 / 1e3, t1 / 1e6, t1 / 1e9, (t0 / 1e3) * 1e3, (t0 / 1e6) * 1e6, (t0 / 1e9) * 1e9}
	return t0, t1, extra
}

// searchSeeds runs f over all candidates on all cores; returns the first seed for which f is true.
func searchSeeds(lo, hi int64, extra []int64, f func(seed int64) bool) (int64, bool) {
	var found int64
	var ok bool
	var mu sync.Mutex
	for _, s := range extra {
		if f(s) {
			return s, true
		}
	}
	workers := 16
	var wg sync.WaitGroup
	for w := 0; w < workers; w++ {
		wg.Add(1)
		go func(w int) {
			defer wg.Done()
			for s := lo + int64(w); s <= hi; s += int64(workers) {
				if f(s) {
					mu.Lock()
					found, ok = s, true
					mu.Unlock()
					return
				}
				if (s-lo)%4096 == int64(w) {
					mu.Lock()
					stop := ok
					mu.Unlock()
					if stop {
						return
					}
				}
			}
		}(w)
	}
	wg.Wait()
	return found, ok
}

func oracle(c *Case) error {
	return hx.Safely(func() error {
		switch c.Kind {
		case "reseed-nonces":
			// the values the key exchange draws first: nonce (RandomInt128) and new_nonce (RandomInt256)
			mathrand.Seed(c.Seed) //nolint:staticcheck
			a1, b1 := tl.RandomInt128(), tl.RandomInt256()
			mathrand.Seed(c.Seed) //nolint:staticcheck
			a2, b2 := tl.RandomInt128(), tl.RandomInt256()
			if a1.Cmp(a2.Int) == 0 {
				return fmt.Errorf("nonce is reproducible: seeding the process-global math/rand with %d yields the same 128-bit nonce %x twice", c.Seed, a1.Int)
			}
			if b1.Cmp(b2.Int) == 0 {
				return fmt.Errorf("new_nonce is reproducible: seeding the process-global math/rand with %d yields the same 256-bit value twice", c.Seed)
			}
		case "reseed-srp":
			pB := ref.LeftPad(ref.DHPrime.Bytes(), 256)
			ap := &telegram.AccountPassword{
				CurrentAlgo: &telegram.PasswordKdfAlgoSHA256SHA256PBKDF2HMACSHA512iter100000SHA256ModPow{Salt1: []byte{1, 2, 3}, Salt2: []byte{4, 5}, G: c.G, P: pB},
				SRPB:        ref.LeftPad(new(big.Int).Exp(big.NewInt(int64(c.G)), big.NewInt(c.Seed|1), ref.DHPrime).Bytes(), 256), SRPID: 1,
			}
			get := func() ([]byte, error) {
				mathrand.Seed(c.Seed) //nolint:staticcheck
				res, err := telegram.GetInputCheckPassword(c.Password, ap)
				if err != nil {
					return nil, err
				}
				return res.(*telegram.InputCheckPasswordSRPObj).A, nil
			}
			x1, err := get()
			if err != nil {
				return fmt.Errorf("INFRA: %v", err)
			}
			x2, _ := get()
			if bytes.Equal(x1, x2) {
				return fmt.Errorf("SRP ephemeral is reproducible: seeding the process-global math/rand with %d yields the same A = g^a twice", c.Seed)
			}
		case "stalled-os-source":
			// fault injection on the OS random source: every read stalls for c.StallMs before it is served. A client that
			// waits gets OS bytes; one that gives up and falls back to a generator of its own is reproducible again.
			real := cryptorand.Reader
			cryptorand.Reader = stallReader{real, time.Duration(c.StallMs) * time.Millisecond}
			defer func() { cryptorand.Reader = real }()
			draw := func() (string, error) {
				type out struct{ v string }
				ch := make(chan out, 1)
				go func() {
					mathrand.Seed(c.Seed) //nolint:staticcheck
					n1, n2 := tl.RandomInt128(), tl.RandomInt256()
					ga := new(big.Int).Exp(big.NewInt(int64(c.G)), big.NewInt(c.Seed|1), ref.DHPrime)
					b, _, _ := imath.MakeGAB(c.G, ga, ref.DHPrime)
					ch <- out{fmt.Sprintf("%x|%x|%x", n1.Int, n2.Int, b)}
				}()
				select {
				case o := <-ch:
					return o.v, nil
				case <-time.After(time.Duration(20*c.StallMs+5000) * time.Millisecond):
					return "", fmt.Errorf("INFRA: draws did not return under a stalled source")
				}
			}
			v1, err := draw()
			if err != nil {
				return err
			}
			v2, err := draw()
			if err != nil {
				return err
			}
			p1, p2 := strings.Split(v1, "|"), strings.Split(v2, "|")
			for i, name := range []string{"nonce", "new_nonce", "the DH exponent b"} {
				if p1[i] == p2[i] {
					return fmt.Errorf("%s is reproducible when the OS random source stalls for %d ms per read: reseeding the process-global math/rand with %d yields the same value twice (%s…)", name, c.StallMs, c.Seed, p1[i][:16])
				}
			}
		case "short-os-source":
			// fault injection: the OS source delivers c.Limit bytes and then fails. A secret of n bytes cannot be made of
			// fewer than n OS bytes: whoever asks is refused (error or panic), never handed a value
			real := cryptorand.Reader
			defer func() { cryptorand.Reader = real }()
			pB := ref.LeftPad(ref.DHPrime.Bytes(), 256)
			ga := new(big.Int).Exp(big.NewInt(3), big.NewInt(c.Seed|1), ref.DHPrime)
			draws := []struct {
				name string
				need int
				f    func() error
			}{
				{"nonce", 16, func() error { tl.RandomInt128(); return nil }},
				{"new_nonce", 32, func() error { tl.RandomInt256(); return nil }},
				{"the DH exponent b", 256, func() error { imath.MakeGAB(3, ga, ref.DHPrime); return nil }},
				{"the SRP ephemeral a", 256, func() error {
					_, err := telegram.GetInputCheckPassword("password", &telegram.AccountPassword{
						CurrentAlgo: &telegram.PasswordKdfAlgoSHA256SHA256PBKDF2HMACSHA512iter100000SHA256ModPow{Salt1: []byte{1}, Salt2: []byte{2}, G: 3, P: pB},
						SRPB:        ref.LeftPad(ga.Bytes(), 256), SRPID: 1})
					return err
				}},
			}
			for _, d := range draws {
				if c.Limit >= d.need {
					continue
				}
				cryptorand.Reader = &failingReader{r: real, left: c.Limit}
				refused := false
				func() {
					defer func() {
						if recover() != nil {
							refused = true
						}
					}()
					if err := d.f(); err != nil {
						refused = true
					}
				}()
				cryptorand.Reader = real
				if !refused {
					return fmt.Errorf("%s was produced although the OS random source delivered only %d of the %d bytes it takes and then failed: the rest comes from somewhere else", d.name, c.Limit, d.need)
				}
			}
		case "many-draws":
			// very many key exchanges in one process: nonce and new_nonce are drawn c.Draws times through a counting
			// reader. At every moment the OS source must have handed out at least as many bytes as the secrets drawn so
			// far contain, and no secret ends or begins in a run of zero bytes.
			real := cryptorand.Reader
			cr := &countingReader{r: real}
			cryptorand.Reader = cr
			defer func() { cryptorand.Reader = real }()
			secret := int64(0)
			for i := 0; i < c.Draws; i++ {
				n1, n2 := tl.RandomInt128(), tl.RandomInt256()
				secret += 16 + 32
				if got := atomic.LoadInt64(&cr.n); got < secret {
					return fmt.Errorf("after %d key exchanges' worth of nonces (%d bytes of secrets) the OS random source has handed out only %d bytes: some of those bytes do not come from it", i+1, secret, got)
				}
				for name, v := range map[string][]byte{"nonce": ref.LeftPad(n1.Bytes(), 16), "new_nonce": ref.LeftPad(n2.Bytes(), 32)} {
					if bytes.Equal(v[:8], make([]byte, 8)) || bytes.Equal(v[len(v)-8:], make([]byte, 8)) {
						return fmt.Errorf("%s number %d of a process is %x: eight zero bytes at an end (chance 2^-63 for OS randomness)", name, i+1, v)
					}
				}
			}
		case "srp-distinct":
			// everything the server supplies with the password parameters - in particular its secure_random bytes, of any
			// length - must leave the ephemeral a value of the OS source: repeated answers never repeat A = g^a
			pB := ref.LeftPad(ref.DHPrime.Bytes(), 256)
			sr := hx.Det(uint64(c.Seed), c.SecureRandomLen)
			ap := &telegram.AccountPassword{
				CurrentAlgo: &telegram.PasswordKdfAlgoSHA256SHA256PBKDF2HMACSHA512iter100000SHA256ModPow{Salt1: []byte{1, 2, 3}, Salt2: []byte{4, 5}, G: c.G, P: pB},
				SRPB:        ref.LeftPad(new(big.Int).Exp(big.NewInt(int64(c.G)), big.NewInt(c.Seed|1), ref.DHPrime).Bytes(), 256), SRPID: 1,
				SecureRandom: sr,
			}
			seen := map[string]int{}
			// one byte of entropy repeats among 24 draws only two times in three: 72 draws leave a chance of 5 in 100000
			reps := 24
			if c.SecureRandomLen == 1 {
				reps = 72
			}
			for i := 0; i < reps; i++ {
				res, err := telegram.GetInputCheckPassword(c.Password, ap)
				if err != nil {
					return fmt.Errorf("INFRA: %v", err)
				}
				a := string(res.(*telegram.InputCheckPasswordSRPObj).A)
				if j, dup := seen[a]; dup {
					return fmt.Errorf("SRP ephemeral repeats: answers %d and %d of the draws for the same parameters (secure_random of %d bytes) carry the same A = g^a - a is not 2048 bits of the OS source", j, i, c.SecureRandomLen)
				}
				seen[a] = i
			}
		case "reseed-exchange":
			// two complete key exchanges in two fresh processes, each seeding the global generator with the same value
			// after the client object was created
			obs := make([][3][]byte, 0, 2)
			for i := 0; i < 2; i++ {
				res, err := scen.RunChild(c.Scenario, 120*time.Second)
				if err != nil || res.Died || len(res.HS) == 0 || res.HS[0].GB == nil {
					return fmt.Errorf("INFRA: exchange %d did not complete: %v %v", i, err, res)
				}
				h := res.HS[0]
				obs = append(obs, [3][]byte{h.Nonce, h.NewNonce, h.GB})
			}
			for k, name := range []string{"nonce", "new_nonce", "g_b (the DH exponent b)"} {
				if bytes.Equal(obs[0][k], obs[1][k]) {
					return fmt.Errorf("%s is reproducible: two key exchanges after seeding the process-global math/rand with %d sent the same value %s…", name, c.Seed, hex.EncodeToString(obs[0][k][:8]))
				}
			}
		case "retry-exponents", "second-exchange":
			// the server asks for another exponent (dh_gen_retry, as the protocol allows) once or twice: a client that
			// obeys draws a fresh b from the OS source each time; one that gives up sends nothing more
			res, err := scen.RunChild(c.Scenario, 120*time.Second)
			if err != nil || res.Died || len(res.HS) == 0 || len(res.HS[0].GBs) == 0 {
				return fmt.Errorf("INFRA: the exchange did not get as far as set_client_DH_params: %v %v", err, res)
			}
			// second-exchange: the first exchange is refused at its last step (dh_gen_fail), the application connects again
			// on the same client object: every g_b of the process is looked at
			var gbs [][]byte
			for _, h := range res.HS {
				gbs = append(gbs, h.GBs...)
			}
			run.Class(fmt.Sprintf("%s:g_b-values-sent=%d", c.Kind, min(len(gbs), 3)), 1)
			if c.Kind == "second-exchange" && len(gbs) < 2 {
				return fmt.Errorf("INFRA: the second exchange did not get as far as set_client_DH_params (%d g_b values seen; notes %v)", len(gbs), res.Notes)
			}
			g := big.NewInt(int64(c.Scenario.HS.G))
			for i := 0; i < len(gbs); i++ {
				for j := i + 1; j < len(gbs); j++ {
					a, b := new(big.Int).SetBytes(gbs[i]), new(big.Int).SetBytes(gbs[j])
					inv := new(big.Int).ModInverse(a, ref.DHPrime)
					if inv == nil {
						continue
					}
					ratio := new(big.Int).Mod(new(big.Int).Mul(b, inv), ref.DHPrime) // g^(b_j - b_i)
					pw, ginv := big.NewInt(1), new(big.Int).ModInverse(g, ref.DHPrime)
					nw := big.NewInt(1)
					for k := 0; k <= 4096; k++ {
						if ratio.Cmp(pw) == 0 || ratio.Cmp(nw) == 0 {
							return fmt.Errorf("a DH exponent of this process is derived from an earlier one (%s): g_b #%d = g_b #%d * g^(+-%d) - it was not read from the OS source", c.Kind, j+1, i+1, k)
						}
						pw.Mod(pw.Mul(pw, g), ref.DHPrime)
						nw.Mod(nw.Mul(nw, ginv), ref.DHPrime)
					}
				}
			}
		case "clock-nonce":
			// is the first nonce after creating a client a function of the creation time?
			dir, err := os.MkdirTemp("", "verif-c19-")
			if err != nil {
				return fmt.Errorf("INFRA: %v", err)
			}
			defer os.RemoveAll(dir)
			t0 := time.Now().UnixNano()
			m, err := mtproto.NewMTProto(mtproto.Config{AuthKeyFile: filepath.Join(dir, "s.json"), ServerHost: "127.0.0.1:1"})
			t1 := time.Now().UnixNano()
			if err != nil {
				return fmt.Errorf("INFRA: %v", err)
			}
			nonce := ref.LeftPad(tl.RandomInt128().Bytes(), 16)
			session := m.GetSessionID()
			lo, hi, extra := seedWindow(t0-2000, t1+2000)
			run.Class("seed-candidates-tried", hi-lo+int64(len(extra)))
			seed, ok := searchSeeds(lo, hi, extra, func(s int64) bool {
				r := mathrand.New(mathrand.NewSource(s))
				first := r.Int63()
				buf := make([]byte, 16)
				// either the session id consumed the first draw (then the nonce follows), or the nonce comes first
				if first == session {
					r.Read(buf)
					return bytes.Equal(buf, nonce)
				}
				r2 := mathrand.New(mathrand.NewSource(s))
				r2.Read(buf)
				return bytes.Equal(buf, nonce)
			})
			if ok {
				c.Found = fmt.Sprintf("seed %d, %d ns after the start of the window", seed, seed-t0)
				return fmt.Errorf("nonce is derived from the clock: a math/rand source seeded with a nanosecond reading from the %d µs window around NewMTProto reproduces the first nonce", (t1-t0)/1000)
			}
		case "clock-exponent":
			ga := new(big.Int).Exp(big.NewInt(int64(c.G)), big.NewInt(c.Seed|1), ref.DHPrime)
			t0 := time.Now().UnixNano()
			b, _, _ := imath.MakeGAB(c.G, ga, ref.DHPrime)
			t1 := time.Now().UnixNano()
			max := new(big.Int).Lsh(big.NewInt(1), 2048)
			// the exponent is needed before the two modular exponentiations that dominate the call, so a clock reading
			// that seeds it is taken at the very beginning of the window
			end := t1 + 2000
			if end > t0+300000 {
				end = t0 + 300000
			}
			lo, hi, extra := seedWindow(t0-2000, end)
			run.Class("seed-candidates-tried", hi-lo+int64(len(extra)))
			seed, ok := searchSeeds(lo, hi, extra, func(s int64) bool {
				return new(big.Int).Rand(mathrand.New(mathrand.NewSource(s)), max).Cmp(b) == 0
			})
			if ok {
				c.Found = fmt.Sprintf("seed %d", seed)
				return fmt.Errorf("the DH exponent b is derived from the clock: a math/rand source seeded with a nanosecond reading from the %d µs window around MakeGAB reproduces it", (t1-t0)/1000)
			}
			// and from the global generator?
			mathrand.Seed(c.Seed) //nolint:staticcheck
			b1, _, _ := imath.MakeGAB(c.G, ga, ref.DHPrime)
			mathrand.Seed(c.Seed) //nolint:staticcheck
			b2, _, _ := imath.MakeGAB(c.G, ga, ref.DHPrime)
			if b1.Cmp(b2) == 0 {
				return fmt.Errorf("the DH exponent b is reproducible from the process-global math/rand state (seed %d)", c.Seed)
			}
		case "reseed-exponent-params":
			// the exponent under DH parameters of the server's choosing (small groups, generators of small order): whatever
			// path the parameters steer the draw onto, the global generator's state must not determine it
			prime, _ := new(big.Int).SetString(c.Prime, 16)
			ga, _ := new(big.Int).SetString(c.GA, 16)
			for i := int64(0); i < 8; i++ {
				mathrand.Seed(c.Seed + i) //nolint:staticcheck
				b1, _, _ := imath.MakeGAB(c.G, ga, prime)
				mathrand.Seed(c.Seed + i) //nolint:staticcheck
				b2, _, _ := imath.MakeGAB(c.G, ga, prime)
				if b1.Cmp(b2) == 0 {
					return fmt.Errorf("the DH exponent b is reproducible from the process-global math/rand state (seed %d) with dh_prime=%s g=%d", c.Seed+i, c.Prime, c.G)
				}
			}
		default:
			return fmt.Errorf("INFRA: unknown kind %s", c.Kind)
		}
		return nil
	})
}

func TestC19(t *testing.T) {
	keys, err := scen.KeyPool()
	if err != nil {
		t.Fatalf("INFRA: %v", err)
	}
	if p := hx.ReplayPath(); p != "" {
		var c Case
		if err := evid.LoadReplay(p, &c); err != nil {
			t.Fatal(err)
		}
		run.Case(true, 1)
		run.Case(true, 2)
		if err := oracle(&c); err != nil {
			if strings.HasPrefix(err.Error(), "INFRA:") {
				t.Fatalf("%v", err)
			}
			run.Violation(c, err.Error())
			t.Fatalf("replay fails: %v", err)
		}
		return
	}
	t.Run("each-kind-once", func(t *testing.T) {
		// one case of every kind that the generated phase only samples, so that no run misses one
		nsh := hx.NShards()
		for i, kind := range []string{"reseed-nonces", "clock-nonce", "clock-exponent", "reseed-srp", "reseed-exchange", "retry-exponents", "second-exchange"} {
			if i%nsh != run.Shard%nsh {
				continue
			}
			c := &Case{Kind: kind, Seed: int64(run.Seed)*31 + int64(i), G: []int32{3, 4, 7}[i%3], Password: "each kind once"}
			if kind == "reseed-exchange" || kind == "retry-exponents" || kind == "second-exchange" {
				sc, err := scen.BuildHandshake(&detSource{seed: run.Seed*53 + uint64(i)}, keys, scen.Corner{}, false)
				if err != nil {
					t.Fatalf("INFRA: %v", err)
				}
				sc.HS.P, sc.HS.Q = 1000003, 1000033
				sc.Probe = false
				seed := c.Seed
				sc.ReseedGlobal = &seed
				if kind == "retry-exponents" {
					sc.ReseedGlobal = nil
					sc.HS.RetryFirst = 2
				}
				if kind == "second-exchange" {
					sc.ReseedGlobal = nil
					sc.Fault = &refsrv.Fault{Step: "dhGen", Field: "kind", Kind: "gen_fail"}
					sc.Aftermath = "app-reconnect"
				}
				c.Scenario = sc
			}
			run.Case(true, evid.Hash("each-kind", kind, c.Seed), "kind:"+kind)
			if err := oracle(c); err != nil {
				if strings.HasPrefix(err.Error(), "INFRA:") {
					t.Logf("inconclusive: %v", err)
					continue
				}
				p := run.ViolationNamed("kind-"+kind, c, err.Error())
				t.Errorf("violation (replay %s): %v", p, err)
			}
		}
	})
	if t.Failed() {
		return
	}
	t.Run("short-os-source", func(t *testing.T) {
		nsh := hx.NShards()
		for i, limit := range []int{0, 1, 8, 15, 31, 128, 255} {
			if i%nsh != run.Shard%nsh {
				continue
			}
			c := &Case{Kind: "short-os-source", Limit: limit, Seed: int64(run.Seed) + int64(i)}
			run.Case(true, evid.Hash(c.Kind, c.Limit), "kind:"+c.Kind)
			if err := oracle(c); err != nil {
				p := run.ViolationNamed(fmt.Sprintf("short-os-%d", limit), c, err.Error())
				t.Errorf("violation (replay %s): %v", p, err)
			}
		}
	})
	if t.Failed() {
		return
	}
	t.Run("many-draws", func(t *testing.T) {
		c := &Case{Kind: "many-draws", Draws: run.Pick(700, 20000), Seed: int64(run.Seed)}
		run.Case(true, evid.Hash(c.Kind, c.Draws, run.Shard), "kind:"+c.Kind)
		if err := oracle(c); err != nil {
			p := run.ViolationNamed("many-draws", c, err.Error())
			t.Errorf("violation (replay %s): %v", p, err)
		}
	})
	if t.Failed() {
		return
	}
	t.Run("stalled-os-source", func(t *testing.T) {
		nsh := hx.NShards()
		var n int64
		stalls := []int{20, 300, 1100}
		if run.Thorough() {
			stalls = append(stalls, 2500, 5200)
		}
		for i, ms := range stalls {
			if i%nsh != run.Shard%nsh {
				continue
			}
			c := &Case{Kind: "stalled-os-source", Seed: int64(run.Seed)*10 + int64(i), G: 3, StallMs: ms}
			run.Case(true, evid.Hash(c.Kind, c.Seed, c.StallMs), "kind:"+c.Kind, fmt.Sprintf("stall=%dms", ms))
			n++
			if err := oracle(c); err != nil {
				if strings.HasPrefix(err.Error(), "INFRA:") {
					t.Fatalf("%v", err)
				}
				p := run.ViolationNamed(fmt.Sprintf("stall-%dms", ms), c, err.Error())
				t.Errorf("violation (replay %s): %v", p, err)
			}
		}
		run.Exhaustive("OS random source stalled for {20,300,1100} ms per read, thorough also {2500,5200} (this shard's share)", n)
	})
	if t.Failed() {
		return
	}
	t.Run("srp-secure-random-lengths", func(t *testing.T) {
		nsh := hx.NShards()
		var n int64
		for i, l := range []int{0, 1, 2, 255, 256, 257} {
			if i%nsh != run.Shard%nsh {
				continue
			}
			c := &Case{Kind: "srp-distinct", Seed: int64(run.Seed)*100 + int64(i), G: []int32{3, 4, 7}[i%3], Password: "correct horse", SecureRandomLen: l}
			run.Case(true, evid.Hash(c.Kind, c.Seed, c.G, c.Password, c.SecureRandomLen), "kind:"+c.Kind, fmt.Sprintf("secure_random_len=%d", l))
			n++
			if err := oracle(c); err != nil {
				if strings.HasPrefix(err.Error(), "INFRA:") {
					t.Fatalf("%v", err)
				}
				p := run.ViolationNamed(fmt.Sprintf("srp-sr%d", l), c, err.Error())
				t.Errorf("violation (replay %s): %v", p, err)
			}
		}
		run.Exhaustive("SRP answers under secure_random lengths {0,1,2,255,256,257} x 24 repetitions (this shard's share)", n)
	})
	if t.Failed() {
		return
	}
	t.Run("exponent-params-enumerated", func(t *testing.T) {
		idx, nsh := 0, hx.NShards()
		var n int64
		for _, pr := range []string{"7", "b", "d", "17", "2f", "3b", "1fffffffffffffff", ref.DHPrime.Text(16)} {
			prime, _ := new(big.Int).SetString(pr, 16)
			for g := int32(2); g <= 7; g++ {
				r := new(big.Int).Mod(big.NewInt(int64(g)), prime)
				if r.Sign() == 0 || r.Cmp(big.NewInt(1)) == 0 || r.Cmp(new(big.Int).Sub(prime, big.NewInt(1))) == 0 {
					continue
				}
				idx++
				if idx%nsh != run.Shard%nsh {
					continue
				}
				ga := new(big.Int).SetBytes(hx.Det(run.Seed*977+uint64(idx), 256))
				ga.Mod(ga, new(big.Int).Sub(prime, big.NewInt(2))).Add(ga, big.NewInt(2))
				c := &Case{Kind: "reseed-exponent-params", Seed: int64(run.Seed)*1000 + int64(idx)*16, G: g, Prime: pr, GA: ga.Text(16)}
				cls := []string{"kind:" + c.Kind}
				if len(pr) < 20 {
					cls = append(cls, "small-group")
				}
				run.Case(true, evid.Hash(c.Kind, c.Seed, c.G, c.Prime, c.GA), cls...)
				n++
				if err := oracle(c); err != nil {
					if strings.HasPrefix(err.Error(), "INFRA:") {
						t.Fatalf("%v", err)
					}
					p := run.ViolationNamed(fmt.Sprintf("params-%s-g%d", pr[:min(len(pr), 8)], g), c, err.Error())
					t.Errorf("violation (replay %s): %v", p, err)
				}
			}
		}
		run.Exhaustive("DH parameter sets (8 primes x generators 2..7 off 0,1,-1) x 8 seeds (this shard's share)", n)
	})
	if t.Failed() {
		return
	}
	t.Run("generated", func(t *testing.T) {
		rapid.Check(t, func(t *rapid.T) {
			c := &Case{Seed: rapid.OneOf(rapid.SampledFrom([]int64{0, 1, 42, -1, 1 << 40}), rapid.Int64()).Draw(t, "seed"), G: rapid.SampledFrom([]int32{3, 4, 7}).Draw(t, "g")}
			c.Kind = rapid.SampledFrom([]string{"reseed-nonces", "reseed-nonces", "clock-nonce", "clock-exponent", "clock-exponent", "reseed-srp", "reseed-exchange", "reseed-exponent-params", "reseed-exponent-params", "srp-distinct", "stalled-os-source", "retry-exponents", "second-exchange"}).Draw(t, "kind")
			switch c.Kind {
			case "stalled-os-source":
				c.StallMs = rapid.SampledFrom([]int{1, 50, 300, 1100}).Draw(t, "stall")
			case "srp-distinct":
				c.Password = rapid.StringN(1, 12, 40).Draw(t, "password")
				c.SecureRandomLen = rapid.SampledFrom([]int{0, 1, 1, 2, 3, 16, 255, 256, 257, 1024}).Draw(t, "srlen")
			case "reseed-exponent-params":
				// primes small enough that g has a small order, and the real one; g is kept off 0, 1 and -1 modulo the prime
				pr := rapid.SampledFrom([]string{"7", "b", "d", "17", "2f", "1fffffffffffffff", ref.DHPrime.Text(16)}).Draw(t, "prime")
				prime, _ := new(big.Int).SetString(pr, 16)
				var gs []int32
				for g := int32(2); g <= 7; g++ {
					r := new(big.Int).Mod(big.NewInt(int64(g)), prime)
					if r.Sign() != 0 && r.Cmp(big.NewInt(1)) != 0 && r.Cmp(new(big.Int).Sub(prime, big.NewInt(1))) != 0 {
						gs = append(gs, g)
					}
				}
				c.G = rapid.SampledFrom(gs).Draw(t, "g-for-prime")
				ga := new(big.Int).SetBytes(hx.FixedBytes(t, "ga", 256))
				ga.Mod(ga, new(big.Int).Sub(prime, big.NewInt(2))).Add(ga, big.NewInt(2))
				c.Prime, c.GA = pr, ga.Text(16)
				if len(pr) < 20 {
					run.Class("small-group", 1)
				}
			case "reseed-srp":
				c.Password = rapid.StringN(1, 12, 40).Draw(t, "password")
			case "reseed-exchange":
				sc, err := scen.BuildHandshake(rapidSource{t}, keys, scen.Corner{}, false)
				if err != nil {
					t.Fatalf("INFRA: %v", err)
				}
				sc.HS.P, sc.HS.Q = 1000003, 1000033
				sc.Probe = false
				seed := c.Seed
				sc.ReseedGlobal = &seed
				c.Scenario = sc
			case "retry-exponents":
				sc, err := scen.BuildHandshake(rapidSource{t}, keys, scen.Corner{}, false)
				if err != nil {
					t.Fatalf("INFRA: %v", err)
				}
				sc.HS.P, sc.HS.Q = 1000003, 1000033
				sc.Probe = false
				sc.HS.RetryFirst = rapid.IntRange(1, 3).Draw(t, "retries")
				c.Scenario = sc
			case "second-exchange":
				sc, err := scen.BuildHandshake(rapidSource{t}, keys, scen.Corner{}, false)
				if err != nil {
					t.Fatalf("INFRA: %v", err)
				}
				sc.HS.P, sc.HS.Q = 1000003, 1000033
				sc.Probe = false
				sc.Fault = &refsrv.Fault{Step: "dhGen", Field: "kind", Kind: rapid.SampledFrom([]string{"gen_fail", "gen_retry"}).Draw(t, "refusal")}
				sc.Aftermath = "app-reconnect"
				c.Scenario = sc
			}
			run.Case(true, evid.Hash(c.Kind, c.Seed, c.G, c.Password, c.Prime, c.GA, c.SecureRandomLen, c.StallMs), "kind:"+c.Kind)
			run.Sample(map[string]any{"kind": c.Kind, "seed": c.Seed, "g": c.G})
			if err := oracle(c); err != nil {
				if strings.HasPrefix(err.Error(), "INFRA:") {
					t.Skipf("%v", err)
				}
				hx.Fail(t, run, c, err)
			}
		})
	})
}

// stallReader serves the OS source's bytes, late.
type stallReader struct {
	r io.Reader
	d time.Duration
}

func (s stallReader) Read(p []byte) (int, error) {
	time.Sleep(s.d)
	return s.r.Read(p)
}

// countingReader counts the bytes the OS source hands out.
type countingReader struct {
	r io.Reader
	n int64
}

func (c *countingReader) Read(p []byte) (int, error) {
	k, err := c.r.Read(p)
	atomic.AddInt64(&c.n, int64(k))
	return k, err
}

type detSource struct{ seed uint64 }

func (d *detSource) Bytes(label string, n int) []byte {
	d.seed = d.seed*6364136223846793005 + 1442695040888963407
	return hx.Det(d.seed^evid.Hash(label), n)
}
func (d *detSource) Int(label string, n int) int {
	d.seed = d.seed*6364136223846793005 + 1442695040888963407
	return int(hx.DetU64(d.seed^evid.Hash(label)) % uint64(n))
}

// failingReader hands out `left` real bytes and then fails.
type failingReader struct {
	r    io.Reader
	left int
}

func (f *failingReader) Read(p []byte) (int, error) {
	if f.left <= 0 {
		return 0, errors.New("entropy source: interrupted")
	}
	if len(p) > f.left {
		p = p[:f.left]
	}
	n, _ := f.r.Read(p)
	f.left -= n
	if f.left <= 0 {
		return n, errors.New("entropy source: interrupted")
	}
	return n, nil
}
