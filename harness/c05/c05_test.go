package c05

import (
	"bytes"
	"errors"
	"fmt"
	"math/big"
	"sync"
	"sync/atomic"
	"testing"

	ige "github.com/xelaj/mtproto/internal/aes_ige"
	"github.com/xelaj/mtproto/telegram/verifh/hx"
	"github.com/xelaj/mtproto/telegram/verifh/ref"
	"pgregory.net/rapid"
	"verif/evid"
)

var run = evid.New("C05")

func TestMain(m *testing.M) { hx.Main(m, run) }

// Case is the replayable input of one evaluation.
type Case struct {
	Kind string // raw | msg | wrap
	Key  []byte // raw: 32-byte AES key; msg: 256-byte auth key
	IV   []byte // raw
	Data []byte // raw: input; msg: message; wrap: payload
	NN   []byte // wrap: new_nonce 32 bytes (fixed width, may start with zero bytes)
	SN   []byte // wrap: server_nonce 16 bytes
	Pad  []byte // wrap/msg: padding bytes a conformant peer uses
	// ReuseNonceObjects (wrap): the two nonces are passed in the same two big.Int objects as in earlier cases, set to
	// the new values in place
	ReuseNonceObjects bool `json:",omitempty"`
}

// kept: outputs handed out earlier must stay what they were while the package works on other inputs
var kept hx.Retain

func oracle(c Case) error {
	if err := oracleOne(c); err != nil {
		return err
	}
	return kept.Verify()
}

func oracleOne(c Case) error {
	return hx.Safely(func() error {
		switch c.Kind {
		case "raw":
			return oracleRaw(c)
		case "msg":
			return oracleMsg(c)
		case "wrap":
			return oracleWrap(c)
		}
		return fmt.Errorf("bad case kind %q", c.Kind)
	})
}

// guard hands a caller's buffer over as callers often hold it: a window of a larger array. Whatever the callee writes -
// inside the window or into the spare capacity behind it - shows up in intact().
// The window starts 1..15 bytes into the array (a field of a received packet, a slice of a slice): its address is
// word-aligned only now and then, as it is for real callers.
type guard struct {
	back, orig []byte
	off        int
}

var guardSeq atomic.Int64

func guarded(b []byte) ([]byte, *guard) {
	g := &guard{back: make([]byte, len(b)+64), orig: b, off: 1 + int(guardSeq.Add(1)%15)}
	for i := range g.back {
		g.back[i] = 0xa5
	}
	copy(g.back[g.off:], b)
	return g.back[g.off : g.off+len(b)], g
}

func (g *guard) intact() bool {
	if !bytes.Equal(g.back[g.off:g.off+len(g.orig)], g.orig) {
		return false
	}
	for i, x := range g.back {
		if (i < g.off || i >= g.off+len(g.orig)) && x != 0xa5 {
			return false
		}
	}
	return true
}

func oracleRaw(c Case) error {
	in, gIn := guarded(c.Data)
	key, gKey := guarded(c.Key)
	iv, gIV := guarded(c.IV)
	out := make([]byte, len(in))
	errE := ige.VerifIGEEncrypt(in, out, key, iv)
	if !gIn.intact() || !gKey.intact() || !gIV.intact() {
		return errors.New("encrypt modified a caller buffer (input, key or iv, or the memory behind it)")
	}
	valid := len(in) > 0 && len(in)%16 == 0
	if !valid {
		if errE == nil {
			return fmt.Errorf("encrypt accepted input of length %d", len(in))
		}
		out2 := make([]byte, len(in))
		if errD := ige.VerifIGEDecrypt(in, out2, key, iv); errD == nil {
			return fmt.Errorf("decrypt accepted input of length %d", len(in))
		}
		if !gIn.intact() {
			return errors.New("decrypt modified its input on the refusal path")
		}
		return nil
	}
	if errE != nil {
		return fmt.Errorf("encrypt refused a valid input: %v", errE)
	}
	want, _ := ref.IGEEncrypt(c.Key, c.IV, c.Data)
	if !bytes.Equal(out, want) {
		return fmt.Errorf("ciphertext differs from the IGE definition at block %d", firstDiff(out, want)/16)
	}
	ct, gCt := guarded(out)
	back := make([]byte, len(in))
	if err := ige.VerifIGEDecrypt(ct, back, key, iv); err != nil {
		return fmt.Errorf("decrypt refused a valid ciphertext: %v", err)
	}
	if !gCt.intact() || !gKey.intact() || !gIV.intact() {
		return errors.New("decrypt modified a caller buffer")
	}
	if !bytes.Equal(back, c.Data) {
		return fmt.Errorf("decrypt(encrypt(p)) != p at block %d", firstDiff(back, c.Data)/16)
	}
	// decrypting arbitrary data must agree with the reference as well
	wantD, _ := ref.IGEDecrypt(c.Key, c.IV, c.Data)
	gotD := make([]byte, len(in))
	if err := ige.VerifIGEDecrypt(in, gotD, key, iv); err != nil {
		return err
	}
	if !bytes.Equal(gotD, wantD) {
		return fmt.Errorf("decryption differs from the IGE definition at block %d", firstDiff(gotD, wantD)/16)
	}
	return nil
}

func firstDiff(a, b []byte) int {
	for i := range a {
		if i >= len(b) || a[i] != b[i] {
			return i
		}
	}
	return len(a)
}

// message-level wrapper: Encrypt is the client->server direction (x=0), Decrypt the server->client one (x=8).
func oracleMsg(c Case) error {
	msg, gMsg := guarded(c.Data)
	key, gKey := guarded(c.Key)
	ct, err := ige.Encrypt(msg, key)
	if err != nil {
		return fmt.Errorf("Encrypt: %v", err)
	}
	if !gMsg.intact() || !gKey.intact() {
		return errors.New("Encrypt modified a caller buffer (the message, the key, or the memory behind them)")
	}
	wantLen := (len(msg) + 15) / 16 * 16
	if len(ct) != wantLen {
		return fmt.Errorf("Encrypt: ciphertext length %d, want next multiple of 16 = %d", len(ct), wantLen)
	}
	msgKey := ref.SHA1(c.Data)[4:20]
	if got := ige.MessageKey(msg); !bytes.Equal(got, msgKey) {
		return errors.New("MessageKey != SHA1(msg)[4:20]")
	}
	if !gMsg.intact() {
		return errors.New("MessageKey modified its input")
	}
	k, iv := ref.KDF1(c.Key, msgKey, 0)
	pt, err := ref.IGEDecrypt(k, iv, ct)
	if err != nil {
		return err
	}
	if !bytes.Equal(pt[:len(msg)], c.Data) {
		return errors.New("a conformant server does not recover the message from Encrypt's output")
	}
	// server -> client
	padded := append(append([]byte{}, c.Data...), c.Pad[:wantLen-len(msg)]...)
	k8, iv8 := ref.KDF1(c.Key, msgKey, 8)
	sealedRef, _ := ref.IGEEncrypt(k8, iv8, padded)
	sealed, gSealed := guarded(sealedRef)
	mk, gMK := guarded(msgKey)
	got, err := ige.Decrypt(sealed, key, mk)
	if err != nil {
		return fmt.Errorf("Decrypt: %v", err)
	}
	if !gSealed.intact() || !gKey.intact() || !gMK.intact() {
		return errors.New("Decrypt modified a caller buffer")
	}
	if !bytes.Equal(got, padded) {
		return errors.New("Decrypt does not recover what a conformant server sealed")
	}
	// the wrapper refuses what the cipher refuses: a ciphertext whose length is zero or not a whole number of blocks
	// (a truncated frame from the network), whatever memory lies behind the slice
	for _, cut := range []int{len(sealedRef), 1, 15, 16 - len(sealedRef)%16 + 3} {
		n := len(sealedRef) - cut
		if n < 0 || (n > 0 && n%16 == 0) {
			continue
		}
		bad, gBad := guarded(sealedRef[:n])
		out, err := ige.Decrypt(bad, key, mk)
		if err == nil {
			return fmt.Errorf("Decrypt accepted a ciphertext of %d bytes (not a positive multiple of 16) and returned %d bytes", n, len(out))
		}
		if !gBad.intact() {
			return errors.New("Decrypt modified its input on the refusal path")
		}
	}
	if out, err := ige.Encrypt([]byte{}, key); err == nil && len(out) == 0 {
		return errors.New("Encrypt of an empty message succeeded with an empty ciphertext (nothing a peer could open)")
	}
	kept.Keep("the output of Encrypt", func() []byte { return ct })
	kept.Keep("the output of Decrypt", func() []byte { return got })
	return nil
}

var (
	reuseMu            sync.Mutex
	reusedNN, reusedSN = new(big.Int), new(big.Int)
)

func oracleWrap(c Case) error {
	nn, sn := new(big.Int).SetBytes(c.NN), new(big.Int).SetBytes(c.SN)
	if c.ReuseNonceObjects {
		// the caller keeps two nonce variables and gives them new values for every exchange
		reuseMu.Lock()
		defer reuseMu.Unlock()
		nn, sn = reusedNN.SetBytes(c.NN), reusedSN.SetBytes(c.SN)
	}
	payload, gPayload := guarded(c.Data)
	rk, riv := ref.TempKeys(c.NN, c.SN)

	// (a) what the client produces must be readable by a conformant peer
	blob := ige.EncryptMessageWithTempKeys(payload, nn, sn)
	if !gPayload.intact() {
		return errors.New("EncryptMessageWithTempKeys modified its input (or the memory behind it)")
	}
	if len(blob) == 0 || len(blob)%16 != 0 {
		return fmt.Errorf("client blob length %d is not a positive multiple of 16", len(blob))
	}
	pt, err := ref.IGEDecrypt(rk, riv, blob)
	if err != nil {
		return err
	}
	want := append(ref.SHA1(c.Data), c.Data...)
	if len(pt) < len(want) || !bytes.Equal(pt[:len(want)], want) {
		return errors.New("a conformant peer (fixed-width nonces) does not find SHA1(payload)|payload in the client's blob")
	}
	// (b) the client recovers its own blob
	blobG, gBlob := guarded(blob)
	if got := ige.DecryptMessageWithTempKeys(blobG, nn, sn); !bytes.Equal(got, c.Data) {
		return fmt.Errorf("client does not recover its own payload (got %d bytes, want %d)", len(got), len(c.Data))
	}
	if !gBlob.intact() {
		return errors.New("DecryptMessageWithTempKeys modified its input")
	}
	// (c) the client recovers what a conformant peer produced: SHA1(m)|m|minimal 0..15 padding bytes
	need := (16 - len(want)%16) % 16
	peer := append(append([]byte{}, want...), c.Pad[:need]...)
	peerBlob, _ := ref.IGEEncrypt(rk, riv, peer)
	got := ige.DecryptMessageWithTempKeys(peerBlob, nn, sn)
	if !bytes.Equal(got, c.Data) {
		return fmt.Errorf("client does not recover a conformant peer's payload (got %d bytes, want %d)", len(got), len(c.Data))
	}
	kept.Keep("the output of EncryptMessageWithTempKeys", func() []byte { return blob })
	kept.Keep("the output of DecryptMessageWithTempKeys", func() []byte { return got })
	return nil
}

func lz(b []byte) int {
	n := 0
	for n < len(b) && b[n] == 0 {
		n++
	}
	return n
}

func record(c Case) {
	var nt bool
	var cls []string
	switch c.Kind {
	case "raw":
		blocks := len(c.Data) / 16
		valid := len(c.Data) > 0 && len(c.Data)%16 == 0
		nt = valid && blocks >= 3
		switch {
		case !valid:
			cls = append(cls, "raw:refused-length")
		case blocks >= 3:
			cls = append(cls, "raw:blocks>=3")
		default:
			cls = append(cls, "raw:blocks<3")
		}
	case "msg":
		nt = len(c.Data) > 0
		cls = append(cls, fmt.Sprintf("msg:len%%16=%d", len(c.Data)%16))
	case "wrap":
		nt = true
		cls = append(cls, fmt.Sprintf("wrap:(20+len)%%16=%d", (20+len(c.Data))%16))
		if c.ReuseNonceObjects {
			cls = append(cls, "wrap:nonce-objects-reused-in-place")
		}
		if z := lz(c.NN); z > 0 {
			cls = append(cls, fmt.Sprintf("wrap:new_nonce-leading-zero-bytes=%d", min(z, 4)))
		}
		if z := lz(c.SN); z > 0 {
			cls = append(cls, fmt.Sprintf("wrap:server_nonce-leading-zero-bytes=%d", min(z, 4)))
		}
	}
	run.Case(nt, evid.Hash(c.Kind, c.Key, c.IV, c.Data, c.NN, c.SN, c.ReuseNonceObjects), cls...)
	run.Sample(map[string]any{"kind": c.Kind, "len": len(c.Data), "nn_lz": lz(c.NN), "sn_lz": lz(c.SN),
		"data_head": fmt.Sprintf("%x", c.Data[:min(len(c.Data), 16)])})
}

func zeroLead(t *rapid.T, label string, b []byte) {
	z := rapid.SampledFrom([]int{0, 0, 0, 1, 2, 4}).Draw(t, label)
	for i := 0; i < z && i < len(b); i++ {
		b[i] = 0
	}
	if z > 0 && z < len(b) && b[z] == 0 {
		b[z] = 1
	}
}

func gen(t *rapid.T) Case {
	kind := rapid.SampledFrom([]string{"raw", "raw", "msg", "wrap", "wrap"}).Draw(t, "kind")
	c := Case{Kind: kind}
	switch kind {
	case "raw":
		c.Key = hx.FixedBytes(t, "key", 32)
		c.IV = hx.FixedBytes(t, "iv", 32)
		maxBlocks := run.Pick(64, 4096)
		var n int
		switch rapid.IntRange(0, 9).Draw(t, "lenclass") {
		case 0:
			n = rapid.IntRange(0, 80).Draw(t, "badlen") // includes 0 and non-multiples
		case 1:
			n = 16*rapid.IntRange(1, maxBlocks).Draw(t, "blocks") + rapid.IntRange(1, 15).Draw(t, "extra")
		default:
			n = 16 * rapid.IntRange(1, maxBlocks).Draw(t, "blocks")
		}
		c.Data = hx.FixedBytes(t, "data", n)
	case "msg":
		c.Key = hx.FixedBytes(t, "authkey", 256)
		c.Data = hx.Bytes(t, "msg", run.Pick(2048, 70000), 1, 15, 16, 17, 31, 32, 33, 65535, 65536)
		if len(c.Data) == 0 {
			c.Data = []byte{rapid.Byte().Draw(t, "one")}
		}
		c.Pad = hx.FixedBytes(t, "pad", 16)
	case "wrap":
		c.NN = hx.FixedBytes(t, "nn", 32)
		c.SN = hx.FixedBytes(t, "sn", 16)
		zeroLead(t, "nnz", c.NN)
		zeroLead(t, "snz", c.SN)
		c.Data = hx.Bytes(t, "payload", run.Pick(600, 4096), 0, 12, 28, 44, 300, 304)
		c.Pad = hx.FixedBytes(t, "pad", 16)
		c.ReuseNonceObjects = rapid.Bool().Draw(t, "reuse-nonce-objects")
	}
	return c
}

func TestC05(t *testing.T) {
	if p := hx.ReplayPath(); p != "" {
		var c Case
		if err := evid.LoadReplay(p, &c); err != nil {
			t.Fatal(err)
		}
		if err := oracle(c); err != nil {
			run.Violation(c, err.Error())
			t.Fatalf("replay fails: %v", err)
		}
		run.Case(true, 1)
		run.Case(true, 2)
		run.Sample(c)
		return
	}
	// exhaustive part (shard 0 only): every payload length 0..N of the key-exchange wrapper x nonce leading-zero
	// classes; every raw block count 1..N once; every refused length 0..80.
	if run.Shard == 0 {
		t.Run("exhaustive", exhaustive)
	}
	t.Run("concurrent", func(t *testing.T) {
		// the wrappers are used by sending goroutines and the receive loop at the same time
		workers, per := 8, run.Pick(800, 8000)
		errs := make(chan error, workers)
		var wg sync.WaitGroup
		for w := 0; w < workers; w++ {
			wg.Add(1)
			go func(w int) {
				defer wg.Done()
				for i := 0; i < per; i++ {
					sd := run.Seed*1000003 + uint64(run.Shard)*7919 + uint64(w)*104729 + uint64(i)
					var c Case
					switch (w + i) % 3 {
					case 0:
						c = Case{Kind: "raw", Key: det(sd, 32), IV: det(sd+1, 32), Data: det(sd+2, 16*(1+int(sd%9)))}
					case 1:
						c = Case{Kind: "msg", Key: det(sd, 256), Data: det(sd+2, 1+int(sd%300)), Pad: det(sd+3, 16)}
					default:
						c = Case{Kind: "wrap", NN: det(sd, 32), SN: det(sd+1, 16), Data: det(sd+2, int(sd%200)), Pad: det(sd+3, 16)}
					}
					run.Case(true, evid.Hash("conc", c.Kind, c.Key, c.Data, c.NN), "concurrent:"+c.Kind)
					if err := oracle(c); err != nil {
						p := run.ViolationNamed(fmt.Sprintf("concurrent-w%d-i%d", w, i), c, "under concurrent use from 8 goroutines: "+err.Error())
						errs <- fmt.Errorf("violation (replay %s): %v", p, err)
						return
					}
				}
			}(w)
		}
		wg.Wait()
		close(errs)
		for err := range errs {
			t.Errorf("%v", err)
		}
	})
	if t.Failed() {
		return
	}
	t.Run("generated", func(t *testing.T) {
		rapid.Check(t, func(t *rapid.T) {
			c := gen(t)
			record(c)
			if err := oracle(c); err != nil {
				hx.Fail(t, run, c, err)
			}
		})
	})
}

func det(seed uint64, n int) []byte {
	b := make([]byte, n)
	x := seed*0x9e3779b97f4a7c15 | 1
	for i := range b {
		x ^= x << 13
		x ^= x >> 7
		x ^= x << 17
		b[i] = byte(x >> 32)
	}
	return b
}

func exhaustive(t *testing.T) {
	maxLen := run.Pick(600, 4096)
	n := int64(0)
	for l := 0; l <= maxLen; l++ {
		for _, z := range [][2]int{{0, 0}, {1, 0}, {2, 0}, {4, 0}, {0, 1}, {1, 2}} {
			c := Case{Kind: "wrap", NN: det(run.Seed+uint64(l)*7+uint64(z[0]), 32), SN: det(run.Seed+uint64(l)*13+uint64(z[1])+99, 16),
				Data: det(run.Seed+uint64(l), l), Pad: det(uint64(l)+5, 16), ReuseNonceObjects: (l+z[0])%2 == 1}
			for i := 0; i < z[0]; i++ {
				c.NN[i] = 0
			}
			c.NN[z[0]] |= 1
			for i := 0; i < z[1]; i++ {
				c.SN[i] = 0
			}
			c.SN[z[1]] |= 1
			record(c)
			n++
			if err := oracle(c); err != nil {
				p := run.ViolationNamed(fmt.Sprintf("wrap-len%d-nnz%d-snz%d", l, z[0], z[1]), c, err.Error())
				t.Errorf("violation (replay %s): %v", p, err)
				if t.Failed() && n > 0 {
					return // one root cause is enough; rapid part still runs in other shards
				}
			}
		}
	}
	run.Exhaustive("wrapper payload lengths 0..N x 6 nonce leading-zero classes", n)
	// every number of leading zero bytes, up to the nonce that is zero altogether (a legal 128 / 256-bit value)
	m := int64(0)
	for zn := 0; zn <= 32; zn++ {
		for zs := 0; zs <= 16; zs++ {
			if zn != 0 && zn != 32 && zs != 0 && zs != 16 {
				continue
			}
			for _, l := range []int{0, 12, 304} {
				c := Case{Kind: "wrap", NN: det(run.Seed+uint64(zn)*7+1, 32), SN: det(run.Seed+uint64(zs)*13+100, 16), Data: det(run.Seed+uint64(l)+3, l), Pad: det(uint64(l)+6, 16), ReuseNonceObjects: (zn+zs)%2 == 1}
				for i := 0; i < zn; i++ {
					c.NN[i] = 0
				}
				if zn < 32 {
					c.NN[zn] |= 1
				}
				for i := 0; i < zs; i++ {
					c.SN[i] = 0
				}
				if zs < 16 {
					c.SN[zs] |= 1
				}
				record(c)
				if zn == 32 || zs == 16 {
					run.Class("wrap:nonce-is-zero", 1)
				}
				m++
				if err := oracle(c); err != nil {
					p := run.ViolationNamed(fmt.Sprintf("wrap-len%d-nnz%d-snz%d", l, zn, zs), c, err.Error())
					t.Errorf("violation (replay %s): %v", p, err)
					return
				}
			}
		}
	}
	run.Exhaustive("nonce leading-zero bytes 0..32 x {0,16} and {0,32} x 0..16, three payload lengths", m)
	maxBlocks := run.Pick(64, 1024)
	m = int64(0)
	for b := 1; b <= maxBlocks; b++ {
		c := Case{Kind: "raw", Key: det(run.Seed+uint64(b), 32), IV: det(run.Seed+uint64(b)+1000, 32), Data: det(run.Seed+uint64(b)+2000, 16*b)}
		record(c)
		m++
		if err := oracle(c); err != nil {
			p := run.ViolationNamed(fmt.Sprintf("raw-blocks%d", b), c, err.Error())
			t.Errorf("violation (replay %s): %v", p, err)
			return
		}
	}
	for l := 0; l <= 80; l++ {
		if l > 0 && l%16 == 0 {
			continue
		}
		c := Case{Kind: "raw", Key: det(uint64(l), 32), IV: det(uint64(l)+1, 32), Data: det(uint64(l)+2, l)}
		record(c)
		m++
		if err := oracle(c); err != nil {
			p := run.ViolationNamed(fmt.Sprintf("raw-badlen%d", l), c, err.Error())
			t.Errorf("violation (replay %s): %v", p, err)
			return
		}
	}
	run.Exhaustive("raw block counts 1..N and refused lengths 0..80", m)
	// large inputs (file parts of 128 / 256 / 512 KiB travel through all three layers): powers of two of the block
	// count and their neighbours
	var k int64
	for _, b := range []int{4095, 4096, 4097, 8191, 8192, 8193, 16384, 32768, 32769} {
		for _, c := range []Case{
			{Kind: "raw", Key: det(run.Seed+uint64(b), 32), IV: det(run.Seed+uint64(b)+1, 32), Data: det(run.Seed+uint64(b)+2, 16*b)},
			{Kind: "msg", Key: det(run.Seed+uint64(b)+3, 256), Data: det(run.Seed+uint64(b)+4, 16*b-24), Pad: det(uint64(b), 16)},
			{Kind: "wrap", NN: det(run.Seed+uint64(b)+5, 32), SN: det(run.Seed+uint64(b)+6, 16), Data: det(run.Seed+uint64(b)+7, 16*b-20+b%3), Pad: det(uint64(b)+1, 16)},
		} {
			c.NN, c.SN = append([]byte{}, c.NN...), append([]byte{}, c.SN...)
			if c.Kind == "wrap" {
				c.NN[0] |= 1
				c.SN[0] |= 1
			}
			record(c)
			k++
			if err := oracle(c); err != nil {
				p := run.ViolationNamed(fmt.Sprintf("large-%s-blocks%d", c.Kind, b), c, err.Error())
				t.Errorf("violation (replay %s): %v", p, err)
				return
			}
		}
	}
	run.Class("large-inputs>=2^12-blocks", k)
	run.Exhaustive("9 large block counts (4095..32769) x {cipher, message wrapper, key-exchange wrapper}", k)
}
