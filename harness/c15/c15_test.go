package c15

import (
	"bytes"
	"compress/gzip"
	"encoding/binary"
	"fmt"
	"os"
	"path/filepath"
	"reflect"
	"runtime"
	"runtime/metrics"
	"sort"
	"strings"
	"sync"
	"sync/atomic"
	"syscall"
	"testing"
	"time"

	"github.com/xelaj/mtproto/internal/encoding/tl"
	"github.com/xelaj/mtproto/telegram"
	"github.com/xelaj/mtproto/telegram/verifh/hx"
	"github.com/xelaj/mtproto/telegram/verifh/tlx"
	"pgregory.net/rapid"
	"verif/evid"
)

var run = evid.New("C15")

func TestMain(m *testing.M) { hx.Main(m, run) }

// Case: the bytes handed to the decoder and how.
type Case struct {
	Data   []byte
	Target string   // "unknown" or the Go type name to decode into
	Hints  []string // names from hintTypes
	How    string   // mutation history (documentation)
}

var (
	reg       *tlx.Registry
	byName    = map[string]reflect.Type{}
	names     []string
	ids       []uint32
	hintTypes = map[string]reflect.Type{
		"[]int32": reflect.TypeOf([]int32{}), "[]int64": reflect.TypeOf([]int64{}), "[]string": reflect.TypeOf([]string{}), "[][]byte": reflect.TypeOf([][]byte{}),
		"[]bool": reflect.TypeOf([]bool{}), "[]float64": reflect.TypeOf([]float64{}), "[]telegram.User": reflect.TypeOf([]telegram.User{}),
		"[]*telegram.Authorization": reflect.TypeOf([]*telegram.Authorization{}), "[]telegram.Update": reflect.TypeOf([]telegram.Update{}), "[][]int32": reflect.TypeOf([][]int32{}),
		"[]tl.Object": reflect.TypeOf([]tl.Object{}), "[]telegram.BaseTheme": reflect.TypeOf([]telegram.BaseTheme{}),
	}
	hintNames []string
)

type nester struct {
	id   uint32
	name string
	vec  bool
	leaf uint32 // 0: none
}

var selfNesting []nester

// deepChain: n levels of the constructor nested in itself, closed by a leaf value (if the type has one and closed is set)
// or simply ending there
func deepChain(ne nester, n int, closed bool) []byte {
	per := 4
	if ne.vec {
		per = 12
	}
	w := make([]byte, 0, n*per+4)
	for i := 0; i < n; i++ {
		w = binary.LittleEndian.AppendUint32(w, ne.id)
		if ne.vec {
			w = binary.LittleEndian.AppendUint32(binary.LittleEndian.AppendUint32(w, 0x1cb5c415), 1)
		}
	}
	if closed && ne.leaf != 0 {
		w = binary.LittleEndian.AppendUint32(w, ne.leaf)
	}
	return w
}

// deepGzip: n levels of gzip_packed around gzip_packed around ... a small object
func deepGzip(inner []byte, n int) []byte {
	for i := 0; i < n; i++ {
		inner = append(binary.LittleEndian.AppendUint32(nil, 0x3072cfa1), tlString(gzipStored(inner))...)
	}
	return inner
}

func gzipStored(b []byte) []byte {
	var buf bytes.Buffer
	zw, _ := gzip.NewWriterLevel(&buf, gzip.NoCompression)
	zw.Write(b)
	zw.Close()
	return buf.Bytes()
}

func setup() {
	if reg != nil {
		return
	}
	reg = tlx.LoadRegistry()
	for _, t := range append(append([]reflect.Type{}, reg.Structs...), reg.Extra...) {
		byName[t.String()] = t
		names = append(names, t.String())
	}
	for _, id := range reg.IDs {
		t := reg.ByID[id]
		if _, ok := byName[t.String()]; !ok && t.Kind() == reflect.Ptr { // MessageContainer (pointer to slice)
			byName[t.String()] = t
			names = append(names, t.String())
		}
	}
	for et := range reg.Enums {
		byName[et.String()] = et
		names = append(names, et.String())
	}
	sort.Strings(names)
	ids = reg.IDs
	// constructors that can hold a value of their own boxed type in their only field (textBold{text:RichText}), directly
	// or in a vector (textConcat{texts:Vector<RichText>}): four (twelve) bytes of input per level of nesting
	for _, id := range reg.IDs {
		pt := reg.ByID[id]
		if pt.Kind() != reflect.Ptr || pt.Elem().Kind() != reflect.Struct || pt.Elem().NumField() != 1 {
			continue
		}
		ft := pt.Elem().Field(0).Type
		switch {
		case ft.Kind() == reflect.Interface && pt.Implements(ft):
			selfNesting = append(selfNesting, nester{id: id, name: pt.String()})
		case ft.Kind() == reflect.Slice && ft.Elem().Kind() == reflect.Interface && pt.Implements(ft.Elem()):
			selfNesting = append(selfNesting, nester{id: id, name: pt.String(), vec: true})
		}
	}
	for i := range selfNesting {
		// a value without fields of the same boxed type ends the chain (textEmpty)
		ft := reg.ByID[selfNesting[i].id].Elem().Field(0).Type
		if selfNesting[i].vec {
			ft = ft.Elem()
		}
		for _, id := range reg.IDs {
			if pt := reg.ByID[id]; pt.Kind() == reflect.Ptr && pt.Elem().Kind() == reflect.Struct && pt.Elem().NumField() == 0 && pt.Implements(ft) {
				selfNesting[i].leaf = id
				break
			}
		}
	}
	for n := range hintTypes {
		hintNames = append(hintNames, n)
	}
	sort.Strings(hintNames)
}

var (
	caseStart   atomic.Int64 // unix nanos of the running decode call, 0 = idle
	inflight    string
	inflightMap []byte
	allocSample = []metrics.Sample{{Name: "/gc/heap/allocs:bytes"}}
)

func allocBytes() uint64 {
	metrics.Read(allocSample)
	return allocSample[0].Value.Uint64()
}

func containsGzip(data []byte) bool {
	return bytes.Contains(data, []byte{0xa1, 0xcf, 0x72, 0x30})
}

// oracle: the call returns a value or an error; no panic, no hang, no allocation out of proportion.
func oracle(c Case) (outcome string, err error) {
	if inflightMap != nil && len(c.Data) <= len(inflightMap)-8 {
		// shared file mapping: survives an unrecoverable runtime abort (out of memory) without a system call per case
		binary.LittleEndian.PutUint64(inflightMap, uint64(len(c.Data)))
		copy(inflightMap[8:], c.Data)
	}
	err = hx.Safely(func() error {
		var hints []reflect.Type
		for _, h := range c.Hints {
			if t, ok := hintTypes[h]; ok {
				hints = append(hints, t)
			}
		}
		data := append([]byte{}, c.Data...)
		before := allocBytes()
		caseStart.Store(time.Now().UnixNano())
		var derr error
		if c.Target == "unknown" || c.Target == "" {
			var obj tl.Object
			given := append([]reflect.Type{}, hints...)
			obj, derr = tl.DecodeUnknownObject(data, hints...)
			if derr == nil && obj == nil {
				caseStart.Store(0)
				return fmt.Errorf("DecodeUnknownObject returned neither a value nor an error")
			}
			// the list of expected types is the caller's (a table of hint sets used for every answer of that kind)
			// (a table of hint sets used for every answer of that kind): the same call again must end the same way
			if len(hints) > 0 {
				_, derr2 := tl.DecodeUnknownObject(data, hints...)
				if (derr == nil) != (derr2 == nil) {
					caseStart.Store(0)
					changed := ""
					for i := range given {
						if hints[i] != given[i] {
							changed = fmt.Sprintf(" (the first call changed entry %d of the caller's list from %v to %v)", i, given[i], hints[i])
						}
					}
					return fmt.Errorf("the same bytes with the same list of expected types a second time: first %v, then %v%s", derr, derr2, changed)
				}
			}
		} else {
			t, ok := byName[c.Target]
			if !ok {
				caseStart.Store(0)
				return fmt.Errorf("INFRA: unknown target type %s", c.Target)
			}
			var target reflect.Value
			if t.Kind() == reflect.Ptr {
				target = reflect.New(t.Elem())
			} else {
				target = reflect.New(t)
			}
			derr = tl.Decode(data, target.Interface())
		}
		caseStart.Store(0)
		used := allocBytes() - before
		limit := uint64(64*len(c.Data) + 4<<20)
		if containsGzip(c.Data) {
			limit = 1 << 30
		}
		if used > limit {
			return fmt.Errorf("decoding %d bytes allocated %d bytes (limit %d)", len(c.Data), used, limit)
		}
		if !bytes.Equal(data, c.Data) {
			return fmt.Errorf("decoder modified its input")
		}
		if derr != nil {
			outcome = "refused-with-error"
		} else {
			outcome = "decoded"
		}
		return nil
	})
	caseStart.Store(0)
	return
}

func watchdog() {
	go func() {
		for {
			time.Sleep(500 * time.Millisecond)
			st := caseStart.Load()
			if st != 0 && time.Since(time.Unix(0, st)) > 30*time.Second {
				buf := make([]byte, 1<<20)
				n := runtime.Stack(buf, true)
				stack := string(buf[:n])
				if strings.Contains(stack, "mtproto/internal/encoding/tl.") || strings.Contains(stack, "mtproto/internal/mtproto/objects.") {
					var data []byte
					if inflightMap != nil {
						data = append([]byte{}, inflightMap[8:8+binary.LittleEndian.Uint64(inflightMap)]...)
					}
					run.Violation(Case{Data: data, Target: "see How", How: "decoder still running after 30 s; goroutine dump shows it inside the decoder"}, "decoder does not terminate")
				}
				run.Flush()
				os.Exit(3)
			}
		}
	}()
}

var boundaryWords = []uint32{0, 1, 0xffffffff, 0x7fffffff, 0x80000000, 1 << 24, 0xfe, 0xfffffffe, 0x00fffffe, 0xfefefefe, 0x1cb5c415, 0x997275b5, 0xbc799737, 0x56730bcc, 0x73f1f8dc, 0x3072cfa1, 0xf35c6d01}

type mutator struct {
	t    *rapid.T
	hist []string
}

func (m *mutator) word(label string) uint32 {
	switch rapid.IntRange(0, 3).Draw(m.t, label+".kind") {
	case 0:
		return ids[rapid.IntRange(0, len(ids)-1).Draw(m.t, label+".id")]
	case 1:
		return boundaryWords[rapid.IntRange(0, len(boundaryWords)-1).Draw(m.t, label+".b")]
	case 2:
		return rapid.Uint32().Draw(m.t, label+".r")
	default: // an enum id
		for _, id := range ids[rapid.IntRange(0, len(ids)-1).Draw(m.t, label+".e"):] {
			if reg.IsEnum[id] {
				return id
			}
		}
		return 0x1cb5c415
	}
}

func seedEncoding(t *rapid.T, label string) ([]byte, string) {
	for tries := 0; ; tries++ {
		name := names[rapid.IntRange(0, len(names)-1).Draw(t, label+".type")]
		rt := byName[name]
		var v reflect.Value
		if rt.Kind() == reflect.Uint32 {
			m := reg.Enums[rt]
			v = reflect.ValueOf(m[rapid.IntRange(0, len(m)-1).Draw(t, label+".member")]).Convert(rt)
		} else {
			if name == "*objects.MsgCopy" {
				continue
			}
			b := &tlx.Builder{R: reg, S: rsrc{t}, MaxDepth: 3}
			v = b.Struct(rt, rapid.IntRange(1, 3).Draw(t, label+".depth"))
		}
		data, err := tl.Marshal(v.Interface())
		if err == nil {
			return data, name
		}
		if tries > 20 {
			return []byte{0x15, 0xc4, 0xb5, 0x1c, 0, 0, 0, 0}, "[]"
		}
	}
}

type rsrc struct{ t *rapid.T }

func (r rsrc) U64() uint64 {
	return rapid.OneOf(rapid.Uint64Range(0, 63), rapid.Uint64()).Draw(r.t, "d")
}

func gzipOf(b []byte) []byte {
	var zb bytes.Buffer
	zw := gzip.NewWriter(&zb)
	zw.Write(b)
	zw.Close()
	return zb.Bytes()
}

func tlString(b []byte) []byte {
	var w []byte
	if len(b) < 254 {
		w = append(w, byte(len(b)))
	} else {
		w = append(w, 254, byte(len(b)), byte(len(b)>>8), byte(len(b)>>16))
	}
	w = append(w, b...)
	for len(w)%4 != 0 {
		w = append(w, 0)
	}
	return w
}

func gen(t *rapid.T) (Case, []string) {
	m := &mutator{t: t}
	var classes []string
	data, seedType := seedEncoding(t, "seed")
	c := Case{}
	kind := rapid.SampledFrom([]string{"mutate", "mutate", "mutate", "mutate", "container", "gzip", "soup", "vectors", "deep"}).Draw(t, "kind")
	switch kind {
	case "vectors":
		// vector ids where values are expected: vectors inside vectors, more (or fewer) of them than the caller has hints for
		var build func(depth int) []byte
		nvec := 0
		build = func(depth int) []byte {
			nvec++
			n := rapid.IntRange(0, 3).Draw(t, "vcount")
			w := binary.LittleEndian.AppendUint32(binary.LittleEndian.AppendUint32(nil, 0x1cb5c415), uint32(n))
			for i := 0; i < n; i++ {
				switch e := rapid.IntRange(0, 3).Draw(t, "velem"); {
				case e == 0 && depth < 3:
					w = append(w, build(depth+1)...)
				case e == 1:
					obj, _ := seedEncoding(t, "velemobj")
					w = append(w, obj...)
				default:
					w = binary.LittleEndian.AppendUint32(w, m.word("velemword"))
				}
			}
			return w
		}
		data = build(0)
		switch rapid.IntRange(0, 3).Draw(t, "vwrap") {
		case 0:
			data = append(binary.LittleEndian.AppendUint64(binary.LittleEndian.AppendUint32(nil, 0xf35c6d01), rapid.Uint64().Draw(t, "req")), data...)
		case 1:
			data = append(binary.LittleEndian.AppendUint32(nil, 0x3072cfa1), tlString(gzipOf(data))...)
		}
		m.hist = append(m.hist, fmt.Sprintf("%d vector ids nested", nvec))
		classes = append(classes, "mut:nested-vectors")
		if nvec >= 2 {
			classes = append(classes, "mut:vector-inside-vector")
		}
	case "deep":
		ne := selfNesting[rapid.IntRange(0, len(selfNesting)-1).Draw(t, "nester")]
		n := rapid.SampledFrom([]int{3, 40, 500, 998, 999, 1000, 1001, 1002, 2500, 20000}).Draw(t, "depth")
		if rapid.IntRange(0, 3).Draw(t, "deep-gzip") == 0 {
			n = rapid.SampledFrom([]int{3, 40, 300, 499, 500, 501, 999, 1000, 1001, 1500}).Draw(t, "gzdepth")
			data = deepGzip(deepChain(ne, 2, true), n)
			classes = append(classes, "mut:deep-nesting:gzip_packed")
		} else {
			data = deepChain(ne, n, rapid.Bool().Draw(t, "closed"))
			classes = append(classes, "mut:deep-nesting")
			if n >= 20000 {
				classes = append(classes, "mut:deep-nesting>=20000")
			}
		}
		m.hist = append(m.hist, fmt.Sprintf("%s nested %d deep", ne.name, n))
		c.Data = data
		c.Target = "unknown"
		if rapid.IntRange(0, 3).Draw(t, "deep-named") == 0 {
			c.Target = ne.name
		}
		c.How = strings.Join(m.hist, "; ")
		return c, append(classes, "target:unknown-no-hints")
	case "container":
		n := int32(m.word("count"))
		if rapid.Bool().Draw(t, "smallcount") {
			n = int32(rapid.IntRange(-2, 4).Draw(t, "n"))
		}
		w := binary.LittleEndian.AppendUint32(nil, 0x73f1f8dc)
		w = binary.LittleEndian.AppendUint32(w, uint32(n))
		items := rapid.IntRange(0, 3).Draw(t, "items")
		for i := 0; i < items; i++ {
			body, _ := seedEncoding(t, "body")
			w = binary.LittleEndian.AppendUint64(w, rapid.Uint64().Draw(t, "id"))
			w = binary.LittleEndian.AppendUint32(w, rapid.Uint32().Draw(t, "seq"))
			size := uint32(len(body))
			if rapid.IntRange(0, 2).Draw(t, "badsize") == 0 {
				size = m.word("size")
			}
			w = binary.LittleEndian.AppendUint32(w, size)
			w = append(w, body...)
		}
		data = w
		m.hist = append(m.hist, fmt.Sprintf("container count=%d items=%d", n, items))
		classes = append(classes, "mut:container-counts-sizes")
	case "gzip":
		var packed []byte
		switch rapid.IntRange(0, 3).Draw(t, "gz") {
		case 0:
			packed = gzipOf(data)
			classes = append(classes, "mut:gzip-valid")
		case 1:
			packed = gzipOf(data)
			packed = packed[:rapid.IntRange(0, len(packed)).Draw(t, "cut")]
			classes = append(classes, "mut:gzip-truncated-stream")
		case 2:
			packed = rapid.SliceOfN(rapid.Byte(), 0, 64).Draw(t, "garbage")
			classes = append(classes, "mut:gzip-garbage")
		default: // nested: gzip of gzip_packed of data
			inner := append(binary.LittleEndian.AppendUint32(nil, 0x3072cfa1), tlString(gzipOf(data))...)
			packed = gzipOf(inner)
			classes = append(classes, "mut:gzip-nested")
		}
		data = append(binary.LittleEndian.AppendUint32(nil, 0x3072cfa1), tlString(packed)...)
		if rapid.Bool().Draw(t, "inresult") { // as the client receives it: rpc_result{req_msg_id, gzip_packed}
			data = append(binary.LittleEndian.AppendUint64(binary.LittleEndian.AppendUint32(nil, 0xf35c6d01), rapid.Uint64().Draw(t, "req")), data...)
		}
		m.hist = append(m.hist, "gzip_packed")
	case "soup":
		data = rapid.SliceOfN(rapid.Byte(), 0, 64).Draw(t, "soup")
		if rapid.Bool().Draw(t, "withid") && len(data) >= 4 {
			binary.LittleEndian.PutUint32(data, m.word("soupid"))
		}
		classes = append(classes, "mut:byte-soup")
	}
	nm := rapid.IntRange(0, 3).Draw(t, "nmut")
	if kind == "mutate" && nm == 0 {
		nm = 1
	}
	for i := 0; i < nm; i++ {
		switch rapid.IntRange(0, 5).Draw(t, "mut") {
		case 0: // truncate to any prefix
			n := rapid.IntRange(0, len(data)).Draw(t, "prefix")
			data = data[:n]
			m.hist = append(m.hist, fmt.Sprintf("truncate to %d", n))
			classes = append(classes, "mut:truncate")
		case 1, 2: // replace an aligned word
			if len(data) >= 4 {
				pos := 4 * rapid.IntRange(0, len(data)/4-1).Draw(t, "wpos")
				w := m.word("w")
				data = append([]byte{}, data...)
				binary.LittleEndian.PutUint32(data[pos:], w)
				m.hist = append(m.hist, fmt.Sprintf("word@%d=%08x", pos, w))
				classes = append(classes, "mut:replace-word")
				if pos == 0 {
					classes = append(classes, "mut:replace-constructor-id")
				}
			}
		case 3: // the count after a vector id, or a string length byte
			idx := bytes.Index(data, []byte{0x15, 0xc4, 0xb5, 0x1c})
			if idx >= 0 && idx+8 <= len(data) {
				w := m.word("cnt")
				data = append([]byte{}, data...)
				binary.LittleEndian.PutUint32(data[idx+4:], w)
				m.hist = append(m.hist, fmt.Sprintf("vector count@%d=%08x", idx+4, w))
				classes = append(classes, "mut:vector-count")
			} else if len(data) > 4 {
				pos := rapid.IntRange(4, len(data)-1).Draw(t, "bpos")
				data = append([]byte{}, data...)
				data[pos] = rapid.SampledFrom([]byte{0xfe, 0xff, 0xfd, 0x00, 0x7f}).Draw(t, "lenbyte")
				m.hist = append(m.hist, fmt.Sprintf("byte@%d=%02x", pos, data[pos]))
				classes = append(classes, "mut:length-byte")
			}
		case 4: // splice the tail of another encoding
			other, _ := seedEncoding(t, "other")
			cut := 4 * rapid.IntRange(0, len(data)/4).Draw(t, "cutat")
			from := 4 * rapid.IntRange(0, len(other)/4).Draw(t, "from")
			data = append(append([]byte{}, data[:cut]...), other[from:]...)
			m.hist = append(m.hist, fmt.Sprintf("splice at %d", cut))
			classes = append(classes, "mut:splice")
		case 5: // append garbage / unaligned cut
			data = append(append([]byte{}, data...), rapid.SliceOfN(rapid.Byte(), 1, 9).Draw(t, "tail")...)
			classes = append(classes, "mut:append")
		}
	}
	c.Data = data
	target := rapid.IntRange(0, 4).Draw(t, "target")
	if kind == "vectors" && target != 0 {
		target = 2 // mostly with hints: that is how the client decodes answers to vector-declaring calls
	}
	switch target {
	case 0, 1:
		c.Target = "unknown"
		classes = append(classes, "target:unknown-no-hints")
	case 2:
		c.Target = "unknown"
		nh := rapid.IntRange(1, 3).Draw(t, "nhints")
		for i := 0; i < nh; i++ {
			c.Hints = append(c.Hints, rapid.SampledFrom(hintNames).Draw(t, "hint"))
		}
		classes = append(classes, "target:unknown-with-hints")
		if bytes.HasPrefix(data, []byte{0x15, 0xc4, 0xb5, 0x1c}) {
			classes = append(classes, "target:vector-with-hints")
		}
	case 3:
		c.Target = seedType
		if _, ok := byName[c.Target]; !ok {
			c.Target = "unknown"
		}
		classes = append(classes, "target:named-seed-type")
	default:
		c.Target = names[rapid.IntRange(0, len(names)-1).Draw(t, "othertype")]
		classes = append(classes, "target:named-other-type")
	}
	if strings.Contains(seedType, "objects.") {
		classes = append(classes, "seed:mtproto-object")
	}
	if seedType == "*objects.ResPQ" || seedType == "*objects.PQInnerData" || seedType == "*objects.ServerDHParamsOk" || seedType == "*objects.DHGenOk" {
		classes = append(classes, "seed:int128/256")
	}
	c.How = strings.Join(m.hist, "; ")
	return c, classes
}

var firstUseMagic = []byte("\xff\xfeVERIF-CONCURRENT-FIRST-USE-BATCH")

func setInflight(data []byte) {
	if inflightMap != nil && len(data) <= len(inflightMap)-8 {
		binary.LittleEndian.PutUint64(inflightMap, uint64(len(data)))
		copy(inflightMap[8:], data)
	}
}

// firstUseInputs: every registered constructor id of this shard's share followed by zero bytes, and a valid encoding.
func firstUseInputs() [][]byte {
	var out [][]byte
	nsh := hx.NShards()
	for i, id := range ids {
		if i%nsh != run.Shard%nsh {
			continue
		}
		out = append(out, append(binary.LittleEndian.AppendUint32(nil, id), make([]byte, 96)...))
	}
	return out
}

func firstUseBatch(inputs [][]byte) error {
	const workers = 16
	var ready, wg sync.WaitGroup
	start := make(chan struct{})
	errs := make([]error, workers)
	for w := 0; w < workers; w++ {
		ready.Add(1)
		wg.Add(1)
		go func(w int) {
			defer wg.Done()
			ready.Done()
			<-start
			for i := range inputs {
				in := inputs[(i*(2*w+1)+w)%len(inputs)]
				if err := hx.Safely(func() error {
					_, _ = tl.DecodeUnknownObject(append([]byte{}, in...))
					return nil
				}); err != nil {
					errs[w] = fmt.Errorf("under concurrent first use (16 goroutines) decoding % x…: %v", in[:8], err)
					return
				}
			}
		}(w)
	}
	ready.Wait()
	close(start)
	wg.Wait()
	for _, e := range errs {
		if e != nil {
			return e
		}
	}
	return nil
}

func TestC15(t *testing.T) {
	setup()
	if out := os.Getenv("VERIF_OUT"); out != "" {
		os.MkdirAll(out, 0o755)
		inflight = filepath.Join(out, fmt.Sprintf("inflight-%d.bin", run.Shard))
		if f, err := os.OpenFile(inflight, os.O_RDWR|os.O_CREATE|os.O_TRUNC, 0o644); err == nil {
			if f.Truncate(5<<20+8) == nil {
				inflightMap, _ = syscall.Mmap(int(f.Fd()), 0, 5<<20+8, syscall.PROT_READ|syscall.PROT_WRITE, syscall.MAP_SHARED)
			}
			f.Close()
		}
	}
	watchdog()
	if p := hx.ReplayPath(); p != "" {
		var c Case
		if strings.HasSuffix(p, ".bin") { // raw in-flight bytes of a worker that died
			b, err := os.ReadFile(p)
			if err != nil {
				t.Fatal(err)
			}
			c = Case{Data: b, Target: "unknown"}
		} else if err := evid.LoadReplay(p, &c); err != nil {
			t.Fatal(err)
		}
		if bytes.Equal(c.Data, firstUseMagic) {
			// the cold concurrent batch: this process is as fresh as the one that died
			run.Case(true, 1)
			run.Case(true, 2)
			if err := firstUseBatch(firstUseInputs()); err != nil {
				run.Violation(c, err.Error())
				t.Fatalf("replay fails: %v", err)
			}
			return
		}
		run.Case(true, 1)
		run.Case(true, 2)
		targets := []string{c.Target}
		if c.Target == "see How" {
			targets = append([]string{"unknown"}, names...)
		}
		for _, tg := range targets {
			cc := c
			cc.Target = tg
			if _, err := oracle(cc); err != nil {
				run.Violation(cc, err.Error())
				t.Fatalf("replay fails: %v", err)
			}
		}
		return
	}
	t.Run("first-use-concurrent", func(t *testing.T) {
		// nothing has been decoded in this process yet: 16 goroutines released together meet every constructor of this
		// shard's share for the first time at the same moment (two clients of one process, each with its reading
		// goroutine). A runtime abort ("concurrent map writes") cannot be recovered: the batch marker is in flight.
		inputs := firstUseInputs()
		setInflight(firstUseMagic)
		if err := firstUseBatch(inputs); err != nil {
			p := run.ViolationNamed("first-use-concurrent", Case{Data: firstUseMagic, Target: "unknown", How: "concurrent first use"}, err.Error())
			t.Fatalf("violation (replay %s): %v", p, err)
		}
		run.Case(true, evid.Hash("first-use-concurrent", run.Shard), "first-use-concurrent")
		run.Class("first-use-concurrent:decodes", int64(16*len(inputs)))
	})
	if t.Failed() {
		return
	}
	t.Run("every-constructor-truncations", func(t *testing.T) {
		// valid encoding of every registered constructor: every prefix, and the constructor id replaced by each boundary word
		nsh := hx.NShards()
		var n int64
		for i, name := range names {
			if i%nsh != run.Shard || name == "*objects.MsgCopy" {
				continue
			}
			rt := byName[name]
			var v reflect.Value
			if rt.Kind() == reflect.Uint32 {
				v = reflect.ValueOf(reg.Enums[rt][0]).Convert(rt)
			} else {
				b := &tlx.Builder{R: reg, S: &tlx.Xor{S: run.Seed*17 + uint64(i)}, MaxDepth: 2}
				v = b.Struct(rt, 2)
			}
			data, err := tl.Marshal(v.Interface())
			if err != nil {
				continue
			}
			try := func(c Case, cls string) bool {
				n++
				out, err := oracle(c)
				run.Case(true, evid.Hash(c.Data, c.Target), cls, "outcome:"+out)
				if err != nil {
					p := run.ViolationNamed(fmt.Sprintf("%s-%d", strings.TrimPrefix(name, "*"), n), c, err.Error())
					t.Errorf("violation (replay %s): %v", p, err)
					return false
				}
				return true
			}
			step := 1
			if len(data) > 400 {
				step = 4
			}
			for l := 0; l < len(data); l += step {
				if !run.Thorough() && l > 48 && l%4 != 0 { // quick tier: every prefix of the first 48 bytes, word-aligned prefixes beyond
					continue
				}
				if !try(Case{Data: data[:l], Target: "unknown", How: fmt.Sprintf("valid %s truncated to %d", name, l)}, "mut:truncate") {
					return
				}
				if l%8 == 0 && !try(Case{Data: data[:l], Target: name, How: fmt.Sprintf("valid %s truncated to %d", name, l)}, "mut:truncate") {
					return
				}
			}
			for _, w := range boundaryWords {
				for pos := 0; pos+4 <= len(data) && pos <= run.Pick(8, 24); pos += 4 {
					d := append([]byte{}, data...)
					binary.LittleEndian.PutUint32(d[pos:], w)
					if !try(Case{Data: d, Target: "unknown", How: fmt.Sprintf("valid %s word@%d=%08x", name, pos, w)}, "mut:replace-word") {
						return
					}
				}
			}
		}
		run.Exhaustive("prefix truncations and boundary-word replacements (leading words) of one valid encoding per constructor (this shard's share)", n)
	})
	if t.Failed() {
		return
	}
	t.Run("deep-nesting", func(t *testing.T) {
		// every self-nesting constructor at depths on both sides of any plausible limit, open-ended and closed; the
		// longest chains are a few hundred kilobytes (thorough: 4 MiB, the size of a large answer)
		nsh := hx.NShards()
		depths := []int{999, 1000, 1001, 5000, 100000}
		if run.Thorough() {
			depths = append(depths, 1000000)
		}
		var n int64
		k := 0
		for _, ne := range selfNesting {
			for _, d := range depths {
				if ne.vec && d > 100000 {
					d = 340000
				}
				for _, closed := range []bool{false, true} {
					k++
					if k%nsh != run.Shard || (d >= 100000 && k%5 != 0 && !run.Thorough()) {
						continue
					}
					c := Case{Data: deepChain(ne, d, closed), Target: "unknown", How: fmt.Sprintf("%s nested %d deep (closed=%v)", ne.name, d, closed)}
					n++
					out, err := oracle(c)
					cls := []string{"mut:deep-nesting", "outcome:" + out}
					if d >= 20000 {
						cls = append(cls, "mut:deep-nesting>=20000")
					}
					run.Case(true, evid.Hash(ne.id, d, closed), cls...)
					if err != nil {
						if len(c.Data) > 8192 {
							c.Data = c.Data[:8192]
							c.How += "; replay file keeps the first 8192 bytes only"
						}
						p := run.ViolationNamed(fmt.Sprintf("deep-%08x-%d", ne.id, d), c, fmt.Sprintf("%s: %v", c.How, err))
						t.Errorf("violation (replay %s): %v", p, err)
						return
					}
				}
			}
		}
		for _, d := range []int{400, 499, 500, 501, 999, 1000, 1001, 2000} {
			k++
			if k%nsh != run.Shard || len(selfNesting) == 0 {
				continue
			}
			c := Case{Data: deepGzip(deepChain(selfNesting[0], 2, true), d), Target: "unknown", How: fmt.Sprintf("gzip_packed nested %d deep", d)}
			n++
			out, err := oracle(c)
			run.Case(true, evid.Hash("deepgzip", d), "mut:deep-nesting:gzip_packed", "outcome:"+out)
			if err != nil {
				p := run.ViolationNamed(fmt.Sprintf("deep-gzip-%d", d), c, fmt.Sprintf("%s: %v", c.How, err))
				t.Errorf("violation (replay %s): %v", p, err)
				return
			}
		}
		run.Exhaustive("self-nesting constructors x depths {999,1000,1001,5000,1e5 (1e6 thorough)} x {open, closed}; gzip_packed nested 400..2000 deep (this shard's share)", n)
	})
	if t.Failed() {
		return
	}
	t.Run("generated", func(t *testing.T) {
		rapid.Check(t, func(t *rapid.T) {
			c, classes := gen(t)
			out, err := oracle(c)
			classes = append(classes, "outcome:"+out)
			run.Case(len(c.How) > 0 || len(classes) > 2, evid.Hash(c.Data, c.Target, fmt.Sprint(c.Hints)), classes...)
			if len(c.Data) <= 64 {
				run.Sample(map[string]any{"data": fmt.Sprintf("%x", c.Data), "target": c.Target, "hints": c.Hints, "how": c.How, "outcome": out})
			}
			if err != nil {
				if strings.HasPrefix(err.Error(), "INFRA:") {
					t.Fatalf("%v", err)
				}
				hx.Fail(t, run, c, err)
			}
		})
	})
}

// Native fuzz targets (thorough tier): same oracle, coverage-guided.
func FuzzDecodeUnknown(f *testing.F) {
	setup()
	for i, name := range names {
		if i%9 != 0 || name == "*objects.MsgCopy" {
			continue
		}
		rt := byName[name]
		if rt.Kind() != reflect.Ptr {
			continue
		}
		b := &tlx.Builder{R: reg, S: &tlx.Xor{S: uint64(i) + 1}, MaxDepth: 2}
		if data, err := tl.Marshal(b.Struct(rt, 2).Interface()); err == nil && len(data) < 600 {
			f.Add(data, uint8(0))
		}
	}
	for _, w := range boundaryWords {
		f.Add(binary.LittleEndian.AppendUint32(binary.LittleEndian.AppendUint32(nil, w), 0xffffffff), uint8(1))
		f.Add(binary.LittleEndian.AppendUint32(binary.LittleEndian.AppendUint32(nil, 0x1cb5c415), w), uint8(2))
		f.Add(binary.LittleEndian.AppendUint32(binary.LittleEndian.AppendUint32(nil, 0x73f1f8dc), w), uint8(0))
	}
	f.Fuzz(func(t *testing.T, data []byte, h uint8) {
		c := Case{Data: data, Target: "unknown", How: "native fuzzing"}
		if h%4 != 0 {
			c.Hints = []string{hintNames[int(h)%len(hintNames)]}
		}
		if _, err := oracle(c); err != nil {
			p := run.Violation(c, err.Error())
			t.Fatalf("violation (replay %s): %v", p, err)
		}
	})
}

func FuzzDecodeNamed(f *testing.F) {
	setup()
	for i, name := range names {
		if i%9 != 0 || name == "*objects.MsgCopy" {
			continue
		}
		rt := byName[name]
		if rt.Kind() != reflect.Ptr {
			continue
		}
		b := &tlx.Builder{R: reg, S: &tlx.Xor{S: uint64(i) + 1}, MaxDepth: 2}
		if data, err := tl.Marshal(b.Struct(rt, 2).Interface()); err == nil && len(data) < 600 {
			f.Add(data, uint16(i))
		}
	}
	f.Fuzz(func(t *testing.T, data []byte, ti uint16) {
		c := Case{Data: data, Target: names[int(ti)%len(names)], How: "native fuzzing"}
		if _, err := oracle(c); err != nil {
			p := run.Violation(c, err.Error())
			t.Fatalf("violation (replay %s): %v", p, err)
		}
	})
}
