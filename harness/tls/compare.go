package tls

import (
	"fmt"
	"reflect"
	"sort"
	"strings"

	"github.com/xelaj/mtproto/internal/encoding/tl"
)

// AllNullary: every constructor of the boxed type has no parameters (such types are represented as Go enums).
func (s *Schema) AllNullary(file, typeName string) bool {
	cs := s.Ctors(file, typeName)
	if len(cs) == 0 {
		return false
	}
	for _, c := range cs {
		if len(c.Params) != 0 {
			return false
		}
	}
	return true
}

var flagIndexGetterT = reflect.TypeOf((*tl.FlagIndexGetter)(nil)).Elem()

// HandWritten lists definitions whose Go types have hand-written (un)marshalers and therefore no comparable
// field layout; their wire behaviour is compared in C02 instead.
var HandWritten = map[string]bool{"msg_container": true, "gzip_packed": true}

// CompareDef compares one schema definition with the registered Go type, field by field. It returns the list of
// disagreements (empty = faithful).
func CompareDef(s *Schema, r *Registry, d *Def) []string {
	var out []string
	bad := func(f string, a ...any) { out = append(out, fmt.Sprintf(f, a...)) }
	if d.HasID && !d.Dormant && !s.SkipCRC {
		if c := CanonicalCRC(d.Line); c != d.ID {
			bad("id written in the schema %08x != CRC-32 of the canonical line %08x", d.ID, c)
		}
	}
	rt, ok := r.GoType(d)
	if !ok {
		bad("no registered Go type for %s#%08x", d.Name, d.ID)
		return out
	}
	// enum?
	if !d.Function && s.AllNullary(d.File, d.Result) && !d.Generic {
		if rt.Kind() != reflect.Uint32 || !r.IsEnum[d.ID] {
			bad("type %s has only parameterless constructors but %s is registered as %v, not as an enum value", d.Result, d.Name, rt)
			return out
		}
		var want []uint32
		for _, c := range s.Ctors(d.File, d.Result) {
			want = append(want, c.ID)
		}
		sort.Slice(want, func(i, j int) bool { return want[i] < want[j] })
		if fmt.Sprint(want) != fmt.Sprint(r.Enums[rt]) {
			bad("enum %v has members %x, schema type %s has constructors %x", rt, r.Enums[rt], d.Result, want)
		}
		if got := reflect.ValueOf(d.ID).Convert(rt).Interface().(tl.Object).CRC(); got != d.ID {
			bad("enum value CRC() = %08x, want %08x", got, d.ID)
		}
		return out
	}
	if rt.Kind() == reflect.Uint32 {
		bad("%s is registered as an enum value but its type %s has constructors with parameters", d.Name, d.Result)
		return out
	}
	if HandWritten[d.Name] {
		if got := reflect.New(rt.Elem()).Interface().(tl.Object).CRC(); got != d.ID {
			bad("CRC() = %08x, schema id %08x", got, d.ID)
		}
		return out
	}
	if rt.Kind() != reflect.Ptr || rt.Elem().Kind() != reflect.Struct {
		bad("registered type %v is not a pointer to a struct", rt)
		return out
	}
	obj := reflect.New(rt.Elem()).Interface().(tl.Object)
	if got := obj.CRC(); got != d.ID {
		bad("CRC() of %v = %08x, schema id %08x", rt, got, d.ID)
	}
	st := rt.Elem()
	// flags word position
	flagPos, n := -1, 0
	for _, p := range d.Params {
		if p.Type.Kind == "#" {
			if flagPos >= 0 {
				bad("two flags words")
			}
			flagPos = n
			continue
		}
		n++
	}
	fg, hasFG := obj.(tl.FlagIndexGetter)
	switch {
	case flagPos >= 0 && !hasFG:
		bad("schema has a flags word but %v does not report FlagIndex()", rt)
	case flagPos < 0 && hasFG:
		bad("%v reports FlagIndex()=%d but the schema line has no flags word", rt, fg.FlagIndex())
	case flagPos >= 0 && fg.FlagIndex() != flagPos:
		bad("FlagIndex() = %d, flags word is at parameter position %d", fg.FlagIndex(), flagPos)
	}
	if st.NumField() != n {
		bad("%v has %d fields, schema line has %d parameters", rt, st.NumField(), n)
		return out
	}
	fi := 0
	for _, p := range d.Params {
		if p.Type.Kind == "#" {
			continue
		}
		f := st.Field(fi)
		fi++
		info := FieldFlag(f)
		if p.Type.Optional {
			if !info.Conditional || info.Bit != p.Type.Bit {
				bad("field %s (parameter %s:%s): tag %q, want flag:%d", f.Name, p.Name, p.Raw, f.Tag.Get("tl"), p.Type.Bit)
			}
		} else if info.Conditional {
			bad("field %s (parameter %s:%s) is mandatory in the schema but tagged %q", f.Name, p.Name, p.Raw, f.Tag.Get("tl"))
		}
		if (p.Type.Kind == "true") != info.InBitflags {
			bad("field %s (parameter %s:%s): encoded_in_bitflags=%v", f.Name, p.Name, p.Raw, info.InBitflags)
		}
		if why := checkType(s, r, p.Type, f.Type); why != "" {
			bad("field %s (parameter %s:%s): %s", f.Name, p.Name, p.Raw, why)
		}
	}
	return out
}

// checkType applies the type map schema -> Go.
func checkType(s *Schema, r *Registry, t Type, gt reflect.Type) string {
	want := func(ok bool, desc string) string {
		if ok {
			return ""
		}
		return fmt.Sprintf("Go type %v, want %s", gt, desc)
	}
	switch t.Kind {
	case "int":
		return want(gt == reflect.TypeOf(int32(0)), "int32")
	case "long":
		return want(gt == reflect.TypeOf(int64(0)), "int64")
	case "double":
		return want(gt == reflect.TypeOf(float64(0)), "float64")
	case "string":
		return want(gt == reflect.TypeOf(""), "string")
	case "bytes":
		return want(gt == reflect.TypeOf([]byte(nil)), "[]byte")
	case "Bool", "true":
		return want(gt == reflect.TypeOf(false), "bool")
	case "int128":
		return want(gt == Int128Type, "*tl.Int128")
	case "int256":
		return want(gt == Int256Type, "*tl.Int256")
	case "Object", "!X":
		return want(gt == ObjType, "tl.Object")
	case "vector":
		if gt.Kind() != reflect.Slice || gt == reflect.TypeOf([]byte(nil)) {
			return want(false, "a slice")
		}
		return checkType(s, r, *t.Elem, gt.Elem())
	case "bare":
		d := s.BareCtor(t.Name)
		if d == nil {
			return "unknown bare constructor " + t.Name
		}
		return want(r.ByID[d.ID] == gt, fmt.Sprintf("the type registered for %s", t.Name))
	case "boxed":
		cs := s.Ctors(t.File, t.Name)
		if len(cs) == 0 {
			return "schema type " + t.Name + " has no constructors"
		}
		if s.AllNullary(t.File, t.Name) {
			if gt.Kind() != reflect.Uint32 {
				return want(false, "an enum type for "+t.Name)
			}
			var wantIDs []uint32
			for _, c := range cs {
				wantIDs = append(wantIDs, c.ID)
			}
			sort.Slice(wantIDs, func(i, j int) bool { return wantIDs[i] < wantIDs[j] })
			return want(fmt.Sprint(wantIDs) == fmt.Sprint(r.Enums[gt]), fmt.Sprintf("an enum with members %x (has %x)", wantIDs, r.Enums[gt]))
		}
		if len(cs) == 1 {
			return want(r.ByID[cs[0].ID] == gt, fmt.Sprintf("pointer to the struct registered for %s (%v)", cs[0].Name, r.ByID[cs[0].ID]))
		}
		if gt.Kind() != reflect.Interface || gt == ObjType {
			return want(false, "an interface for the "+fmt.Sprint(len(cs))+" constructors of "+t.Name)
		}
		var wantImpl, gotImpl []string
		for _, c := range cs {
			if ct, ok := r.ByID[c.ID]; ok {
				wantImpl = append(wantImpl, ct.String())
			} else {
				wantImpl = append(wantImpl, "<unregistered "+c.Name+">")
			}
		}
		for _, it := range r.Implementers(gt) {
			gotImpl = append(gotImpl, it.String())
		}
		sort.Strings(wantImpl)
		sort.Strings(gotImpl)
		return want(strings.Join(wantImpl, ",") == strings.Join(gotImpl, ","), fmt.Sprintf("an interface implemented by exactly %v (implemented by %v)", wantImpl, gotImpl))
	}
	return "unsupported schema type " + t.Kind
}

// flagIndexGetterT is referenced to keep the import of reflect types explicit.
var _ = flagIndexGetterT
