package tls

import (
	"reflect"
	"sort"
	"strconv"
	"strings"

	"github.com/xelaj/mtproto/internal/encoding/tl"
)

// Registry is a view of a constructor registry of the code under test (through the tag-guarded export).
type Registry struct {
	ByID    map[uint32]reflect.Type // registered type: *Struct, or enum type (uint32 kind)
	IsEnum  map[uint32]bool
	IDs     []uint32                  // sorted
	Structs []reflect.Type            // pointer-to-struct types, sorted by name
	Enums   map[reflect.Type][]uint32 // enum Go type -> member ids (sorted)
	Extra   []reflect.Type            // hand-written request wrappers (not registered)
	// Wrappers: documented hand-written request wrappers by schema name (they are not in the registry)
	Wrappers map[string]reflect.Type
	// ImplFilter restricts Implementers to types for which it returns true (nil = all)
	ImplFilter func(reflect.Type) bool
	// Shared (set by tlx.BridgeShared on a copy): abstract sub-values already bridged in this call -> their Go pointer
	Shared map[*Val]reflect.Value
	impls  map[reflect.Type][]reflect.Type
	minD   map[reflect.Type]int
}

var (
	ObjType    = reflect.TypeOf((*tl.Object)(nil)).Elem()
	Int128Type = reflect.TypeOf(&tl.Int128{})
	Int256Type = reflect.TypeOf(&tl.Int256{})
	MarshalerT = reflect.TypeOf((*tl.Marshaler)(nil)).Elem()
)

// NewRegistry builds the view from the exported registry maps; keep selects the ids to include (nil = all).
func NewRegistry(objs map[uint32]reflect.Type, enums map[uint32]struct{}, keep func(uint32) bool) *Registry {
	r := &Registry{ByID: map[uint32]reflect.Type{}, IsEnum: map[uint32]bool{}, Enums: map[reflect.Type][]uint32{}, Wrappers: map[string]reflect.Type{},
		impls: map[reflect.Type][]reflect.Type{}, minD: map[reflect.Type]int{}}
	for id, t := range objs {
		if keep != nil && !keep(id) {
			continue
		}
		r.ByID[id] = t
		r.IDs = append(r.IDs, id)
	}
	sort.Slice(r.IDs, func(i, j int) bool { return r.IDs[i] < r.IDs[j] })
	for _, id := range r.IDs {
		t := r.ByID[id]
		if _, ok := enums[id]; ok {
			r.IsEnum[id] = true
			r.Enums[t] = append(r.Enums[t], id)
			continue
		}
		if t.Kind() == reflect.Ptr && t.Elem().Kind() == reflect.Struct {
			r.Structs = append(r.Structs, t)
		}
	}
	sort.Slice(r.Structs, func(i, j int) bool { return r.Structs[i].String() < r.Structs[j].String() })
	return r
}

// Implementers lists the registered struct types that implement iface.
func (r *Registry) Implementers(iface reflect.Type) []reflect.Type {
	if v, ok := r.impls[iface]; ok {
		return v
	}
	var out []reflect.Type
	for _, t := range r.Structs {
		if t.Implements(iface) && (r.ImplFilter == nil || r.ImplFilter(t)) {
			out = append(out, t)
		}
	}
	r.impls[iface] = out
	return out
}

// GoType returns the Go type that represents definition d: registered type by id, or a hand-written wrapper by name.
func (r *Registry) GoType(d *Def) (reflect.Type, bool) {
	if d.Generic {
		t, ok := r.Wrappers[d.Name]
		return t, ok
	}
	t, ok := r.ByID[d.ID]
	return t, ok
}

// FlagInfo describes the tl tag of a field as far as the builder needs it (position of conditional fields).
type FlagInfo struct {
	Conditional bool
	Bit         int
	InBitflags  bool
}

func FieldFlag(f reflect.StructField) FlagInfo {
	tag, ok := f.Tag.Lookup("tl")
	if !ok {
		return FlagInfo{}
	}
	var fi FlagInfo
	for i, part := range strings.Split(tag, ",") {
		if i == 0 && strings.HasPrefix(part, "flag:") {
			fi.Conditional = true
			fi.Bit, _ = strconv.Atoi(strings.TrimPrefix(part, "flag:"))
		}
		if part == "encoded_in_bitflags" {
			fi.InBitflags = true
		}
	}
	return fi
}

// MinDepth is the smallest nesting depth needed to build a canonical value of t (leaf constructors = 0).
func (r *Registry) MinDepth(t reflect.Type) int {
	if d, ok := r.minD[t]; ok {
		return d
	}
	r.minD[t] = 1 << 20 // cycle guard: a type in progress is "infinitely deep"
	d := r.minDepth(t)
	r.minD[t] = d
	return d
}

func (r *Registry) minDepth(t reflect.Type) int {
	switch t.Kind() {
	case reflect.Interface:
		best := 1 << 20
		for _, c := range r.Implementers(t) {
			if d := r.MinDepth(c); d < best {
				best = d
			}
		}
		return best
	case reflect.Ptr:
		if t == Int128Type || t == Int256Type {
			return 0
		}
		if t.Elem().Kind() != reflect.Struct {
			return 0
		}
		if t.Implements(MarshalerT) {
			return 0
		}
		worst := 0
		st := t.Elem()
		for i := 0; i < st.NumField(); i++ {
			f := st.Field(i)
			if FieldFlag(f).Conditional {
				continue // may be absent
			}
			k := f.Type.Kind()
			if k == reflect.Interface || (k == reflect.Ptr && f.Type != Int128Type && f.Type != Int256Type) {
				if d := r.MinDepth(f.Type) + 1; d > worst {
					worst = d
				}
			}
		}
		return worst
	}
	return 0
}
