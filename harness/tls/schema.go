// Package tlx: independent reading of the TL schema files (refschema), schema-directed reference codec (refcodec),
// registry-directed Go value builder, bridges and TL equality - shared by checks C01 C02 C13 C15.
package tls

import (
	"fmt"
	"hash/crc32"
	"os"
	"path/filepath"
	"regexp"
	"strconv"
	"strings"
)

type Param struct {
	Name string
	Type Type
	Raw  string // type as written
}

// Type is a parsed TL type expression.
type Type struct {
	Kind     string // "#", "int", "long", "double", "string", "bytes", "Bool", "true", "int128", "int256", "Object", "!X", "vector", "boxed", "bare"
	Name     string // boxed/bare type or constructor name
	Elem     *Type  // vector element
	BareVec  bool   // written "vector<...>" (no vector id on the wire)
	Optional bool   // flags.N?T
	Bit      int
	File     string // schema file the type name is resolved in (api_latest.tl and mtproto.tl both have a "Message")
}

type Def struct {
	Name     string // constructor or method name as written (with namespace)
	ID       uint32
	HasID    bool
	Params   []Param
	Result   string
	Function bool
	Dormant  bool // commented-out definition in the header of api_121.tl ("these items exist in tl schema")
	Line     string
	File     string
	Generic  bool // declares {X:Type}
}

type Schema struct {
	Defs   []*Def
	ByID   map[uint32]*Def
	ByName map[string]*Def
	// Types maps "file:boxed type name" to its constructors (types section), in file order.
	Types map[string][]*Def
	// SkipCRC: the ids of this schema are arbitrary (generated test schemas), the CRC-32 rule is not applied
	SkipCRC bool
}

// ParseText reads a schema from text (used for generated schemas); file is the name its definitions carry.
func ParseText(text, file string) (*Schema, error) {
	dir, err := os.MkdirTemp("", "verif-schema-")
	if err != nil {
		return nil, err
	}
	defer os.RemoveAll(dir)
	path := filepath.Join(dir, file)
	if err := os.WriteFile(path, []byte(text), 0o644); err != nil {
		return nil, err
	}
	defs, err := parseFileAs(path, file, false)
	if err != nil {
		return nil, err
	}
	s := &Schema{ByID: map[uint32]*Def{}, ByName: map[string]*Def{}, Types: map[string][]*Def{}, SkipCRC: true}
	for _, d := range defs {
		s.Defs = append(s.Defs, d)
		if d.HasID {
			if o, dup := s.ByID[d.ID]; dup {
				return nil, fmt.Errorf("duplicate id %08x: %s and %s", d.ID, o.Name, d.Name)
			}
			s.ByID[d.ID] = d
		}
		s.ByName[file+":"+d.Name] = d
		if !d.Function {
			s.Types[file+":"+d.Result] = append(s.Types[file+":"+d.Result], d)
		}
	}
	return s, nil
}

var defRe = regexp.MustCompile(`^([A-Za-z0-9_.]+)(#[0-9a-fA-F]+)?\s+(.*?)\s*=\s*([A-Za-z0-9_.<> ]+?)\s*;$`)

func parseType(s string) (Type, error) {
	var t Type
	if m := regexp.MustCompile(`^flags\.(\d+)\?(.+)$`).FindStringSubmatch(s); m != nil {
		inner, err := parseType(m[2])
		if err != nil {
			return t, err
		}
		inner.Optional = true
		inner.Bit, _ = strconv.Atoi(m[1])
		return inner, nil
	}
	switch s {
	case "#":
		return Type{Kind: "#"}, nil
	case "int", "long", "double", "string", "bytes", "Bool", "true", "int128", "int256", "Object", "!X":
		return Type{Kind: s}, nil
	}
	for _, pre := range []string{"Vector<", "vector<"} {
		if strings.HasPrefix(s, pre) && strings.HasSuffix(s, ">") {
			inner := strings.TrimSuffix(strings.TrimPrefix(s, pre), ">")
			inner = strings.TrimPrefix(inner, "%")
			e, err := parseType(inner)
			if err != nil {
				return t, err
			}
			return Type{Kind: "vector", Elem: &e, BareVec: pre == "vector<"}, nil
		}
	}
	if !regexp.MustCompile(`^[A-Za-z0-9_.]+$`).MatchString(s) {
		return t, fmt.Errorf("unparsable type %q", s)
	}
	last := s
	if i := strings.LastIndex(s, "."); i >= 0 {
		last = s[i+1:]
	}
	if last[0] >= 'A' && last[0] <= 'Z' {
		return Type{Kind: "boxed", Name: s}, nil
	}
	return Type{Kind: "bare", Name: s}, nil
}

func parseDef(line, file string, function bool) (*Def, error) {
	m := defRe.FindStringSubmatch(line)
	if m == nil {
		return nil, fmt.Errorf("unparsable definition")
	}
	d := &Def{Name: m[1], Result: strings.TrimSpace(m[4]), Function: function, Line: line, File: file}
	if m[2] != "" {
		v, err := strconv.ParseUint(m[2][1:], 16, 32)
		if err != nil {
			return nil, err
		}
		d.ID, d.HasID = uint32(v), true
	}
	for _, f := range strings.Fields(m[3]) {
		if strings.HasPrefix(f, "{") {
			d.Generic = true
			continue
		}
		i := strings.Index(f, ":")
		if i < 0 {
			return nil, fmt.Errorf("parameter %q without a type", f)
		}
		t, err := parseType(f[i+1:])
		if err != nil {
			return nil, err
		}
		setFile(&t, file)
		d.Params = append(d.Params, Param{Name: f[:i], Type: t, Raw: f[i+1:]})
	}
	return d, nil
}

func setFile(t *Type, file string) {
	t.File = file
	if t.Elem != nil {
		setFile(t.Elem, file)
	}
}

// Ctors returns the constructors of a boxed type as defined in the given schema file.
func (s *Schema) Ctors(file, name string) []*Def { return s.Types[file+":"+name] }

// CanonicalCRC computes the constructor id TL assigns to a definition line: CRC-32 of the line with the explicit
// id and the trailing ';' removed, flags.N?true parameters dropped, bytes written as string, angle brackets
// replaced by spaces and braces removed.
func CanonicalCRC(line string) uint32 {
	s := strings.TrimSpace(line)
	s = strings.TrimSuffix(s, ";")
	s = regexp.MustCompile(`^([A-Za-z0-9_.]+)#[0-9a-fA-F]+`).ReplaceAllString(s, "$1")
	s = regexp.MustCompile(` [A-Za-z0-9_]+:flags\.\d+\?true`).ReplaceAllString(s, "")
	s = regexp.MustCompile(`:bytes\b`).ReplaceAllString(s, ":string")
	s = regexp.MustCompile(`\?bytes\b`).ReplaceAllString(s, "?string")
	s = regexp.MustCompile(`<%([A-Z])`).ReplaceAllStringFunc(s, func(m string) string { return "<" + strings.ToLower(m[2:]) }) // %Message -> bare constructor message
	s = strings.ReplaceAll(s, "<", " ")
	s = strings.ReplaceAll(s, ">", "")
	s = strings.ReplaceAll(s, "{", "")
	s = strings.ReplaceAll(s, "}", "")
	s = strings.Join(strings.Fields(s), " ")
	return crc32.ChecksumIEEE([]byte(s))
}

// ParseFile reads one .tl file. dormantHeader: also read "// name#id ... = T;" lines before the first blank line
// of the file header as dormant definitions.
func ParseFile(path string, dormantHeader bool) ([]*Def, error) {
	return parseFileAs(path, filepath.Base(path), dormantHeader)
}

func parseFileAs(path, fileName string, dormantHeader bool) ([]*Def, error) {
	b, err := os.ReadFile(path)
	if err != nil {
		return nil, err
	}
	var defs []*Def
	function := false
	header := dormantHeader
	for n, raw := range strings.Split(string(b), "\n") {
		line := strings.TrimSpace(raw)
		if line == "" {
			if n > 0 {
				header = false
			}
			continue
		}
		if strings.HasPrefix(line, "---") {
			function = strings.Contains(line, "functions")
			continue
		}
		if strings.HasPrefix(line, "//") {
			if header {
				body := strings.TrimSpace(strings.TrimPrefix(line, "//"))
				if defRe.MatchString(body) && strings.Contains(body, "#") {
					d, err := parseDef(body, fileName, false)
					if err == nil {
						d.Dormant = true
						defs = append(defs, d)
					}
				}
			}
			continue
		}
		header = false
		if strings.Contains(line, "?") && strings.Contains(line, "= Int;") || strings.HasSuffix(line, "= Long;") || strings.HasSuffix(line, "= Double;") ||
			strings.HasSuffix(line, "= String;") || strings.HasPrefix(line, "vector {t:Type}") || strings.HasPrefix(line, "int128 4*") || strings.HasPrefix(line, "int256 8*") ||
			strings.HasPrefix(line, "int ?") {
			continue // builtin declarations of mtproto.tl
		}
		d, err := parseDef(line, fileName, function)
		if err != nil {
			return nil, fmt.Errorf("%s:%d: %v: %s", path, n+1, err, line)
		}
		defs = append(defs, d)
	}
	return defs, nil
}

func RepoDir() string {
	if r := os.Getenv("VERIF_REPO"); r != "" {
		return r
	}
	return "/repo"
}

// Load reads schemes/api_latest.tl and schemes/mtproto.tl of the repository.
func Load() (*Schema, error) {
	s := &Schema{ByID: map[uint32]*Def{}, ByName: map[string]*Def{}, Types: map[string][]*Def{}}
	for _, f := range []struct {
		name    string
		dormant bool
	}{{"api_latest.tl", true}, {"mtproto.tl", false}} {
		defs, err := parseFileAs(filepath.Join(RepoDir(), "schemes", f.name), f.name, f.dormant)
		if err != nil {
			return nil, err
		}
		for _, d := range defs {
			d.File = f.name
			s.Defs = append(s.Defs, d)
			if d.HasID {
				if o, dup := s.ByID[d.ID]; dup {
					return nil, fmt.Errorf("duplicate id %08x: %s and %s", d.ID, o.Name, d.Name)
				}
				s.ByID[d.ID] = d
			}
			s.ByName[f.name+":"+d.Name] = d
			if !d.Function {
				s.Types[f.name+":"+d.Result] = append(s.Types[f.name+":"+d.Result], d)
			}
		}
	}
	return s, nil
}

// API returns the definitions of api_latest.tl (dormant ones included when withDormant).
func (s *Schema) API(withDormant bool) []*Def {
	var out []*Def
	for _, d := range s.Defs {
		if d.File == "api_latest.tl" && (withDormant || !d.Dormant) {
			out = append(out, d)
		}
	}
	return out
}

// WireUsedMTProto lists the names of the mtproto.tl definitions this client sends or can receive.
var WireUsedMTProto = []string{"req_pq", "req_DH_params", "set_client_DH_params", "ping", "resPQ", "p_q_inner_data", "server_DH_params_ok", "server_DH_params_fail",
	"server_DH_inner_data", "client_DH_inner_data", "dh_gen_ok", "dh_gen_retry", "dh_gen_fail", "rpc_result", "rpc_error", "pong", "new_session_created",
	"msg_container", "gzip_packed", "msgs_ack", "bad_msg_notification", "bad_server_salt", "msg_resend_req", "msgs_state_req", "msgs_state_info", "msgs_all_info",
	"msg_detailed_info", "msg_new_detailed_info", "rpc_answer_unknown", "rpc_answer_dropped_running", "rpc_answer_dropped"}

func (s *Schema) MTProto(name string) *Def { return s.ByName["mtproto.tl:"+name] }
