package tls

import (
	"encoding/binary"
	"errors"
	"fmt"
	"math"
	"strings"
)

// Val is an abstract TL value of one constructor: Fields[i] belongs to Def.Params[i].
//
//	'#'            -> nil (computed when encoding, checked when decoding)
//	absent optional-> nil
//	int  int32 | long int64 | double float64 | string,bytes []byte | Bool bool | true bool(true)
//	int128,int256 []byte (16/32, big-endian as the repository's MTProto objects use them)
//	vector []any | boxed, bare, Object, !X *Val
type Val struct {
	Def    *Def
	Fields []any
}

type wr struct{ b []byte }

func (w *wr) u32(v uint32) { w.b = binary.LittleEndian.AppendUint32(w.b, v) }
func (w *wr) u64(v uint64) { w.b = binary.LittleEndian.AppendUint64(w.b, v) }

var ErrTooLong = errors.New("ref: byte string of 2^24 bytes or more cannot be encoded")

// str writes a TL string: 1-byte length (< 254) or 0xfe + 3-byte length, zero padding to a multiple of 4.
func (w *wr) str(s []byte) error {
	n := len(s)
	if n >= 1<<24 {
		return ErrTooLong
	}
	used := 0
	if n < 254 {
		w.b = append(w.b, byte(n))
		used = 1
	} else {
		w.b = append(w.b, 254, byte(n), byte(n>>8), byte(n>>16))
		used = 4
	}
	w.b = append(w.b, s...)
	for (used+n)%4 != 0 {
		w.b = append(w.b, 0)
		used++
	}
	return nil
}

const (
	idVector = 0x1cb5c415
	idTrue   = 0x997275b5
	idFalse  = 0xbc799737
)

// Encode serialises v boxed (with its constructor id).
func Encode(v *Val) ([]byte, error) {
	w := &wr{}
	if err := encodeVal(w, v, true); err != nil {
		return nil, err
	}
	return w.b, nil
}

func encodeVal(w *wr, v *Val, boxed bool) error {
	if v == nil {
		return errors.New("ref: nil object")
	}
	if boxed {
		if !v.Def.HasID {
			return fmt.Errorf("ref: %s has no constructor id", v.Def.Name)
		}
		w.u32(v.Def.ID)
	}
	for i, p := range v.Def.Params {
		if p.Type.Kind == "#" {
			var flags uint32
			for j, q := range v.Def.Params {
				if q.Type.Optional && present(v.Fields[j]) {
					flags |= 1 << uint(q.Type.Bit)
				}
			}
			w.u32(flags)
			continue
		}
		if p.Type.Optional && !present(v.Fields[i]) {
			continue
		}
		if err := encodeType(w, p.Type, v.Fields[i]); err != nil {
			return fmt.Errorf("%s.%s: %w", v.Def.Name, p.Name, err)
		}
	}
	return nil
}

func present(f any) bool {
	if f == nil {
		return false
	}
	if b, ok := f.(bool); ok {
		return b
	}
	return true
}

func encodeType(w *wr, t Type, f any) error {
	switch t.Kind {
	case "int":
		w.u32(uint32(f.(int32)))
	case "long":
		w.u64(uint64(f.(int64)))
	case "double":
		w.u64(math.Float64bits(f.(float64)))
	case "string", "bytes":
		return w.str(f.([]byte))
	case "Bool":
		if f.(bool) {
			w.u32(idTrue)
		} else {
			w.u32(idFalse)
		}
	case "true":
		// carried by the flags word only
	case "int128", "int256":
		w.b = append(w.b, f.([]byte)...)
	case "vector":
		items := f.([]any)
		if !t.BareVec {
			w.u32(idVector)
		}
		w.u32(uint32(len(items)))
		for _, it := range items {
			if err := encodeType(w, *t.Elem, it); err != nil {
				return err
			}
		}
	case "boxed", "Object", "!X":
		return encodeVal(w, f.(*Val), true)
	case "bare":
		return encodeVal(w, f.(*Val), false)
	default:
		return fmt.Errorf("ref: cannot encode kind %q", t.Kind)
	}
	return nil
}

type rd struct {
	b   []byte
	off int
}

func (r *rd) take(n int) ([]byte, error) {
	if n < 0 || r.off+n > len(r.b) {
		return nil, errors.New("ref: short input")
	}
	v := r.b[r.off : r.off+n]
	r.off += n
	return v, nil
}

func (r *rd) u32() (uint32, error) {
	b, err := r.take(4)
	if err != nil {
		return 0, err
	}
	return binary.LittleEndian.Uint32(b), nil
}

func (r *rd) str() ([]byte, error) {
	h, err := r.take(1)
	if err != nil {
		return nil, err
	}
	n, used := int(h[0]), 1
	if h[0] == 254 {
		l, err := r.take(3)
		if err != nil {
			return nil, err
		}
		n, used = int(l[0])|int(l[1])<<8|int(l[2])<<16, 4
	} else if h[0] == 255 {
		return nil, errors.New("ref: string header 0xff")
	}
	v, err := r.take(n)
	if err != nil {
		return nil, err
	}
	for (used+n)%4 != 0 {
		if _, err := r.take(1); err != nil {
			return nil, err
		}
		used++
	}
	return append([]byte{}, v...), nil
}

// Decode parses a boxed object and requires that all input is consumed. want: the boxed type expected
// ("" = any constructor of the schema).
func (s *Schema) Decode(b []byte, want string) (*Val, error) {
	r := &rd{b: b}
	v, err := s.decodeBoxed(r, want)
	if err != nil {
		return nil, err
	}
	if r.off != len(b) {
		return nil, fmt.Errorf("ref: %d trailing bytes", len(b)-r.off)
	}
	return v, nil
}

func (s *Schema) decodeBoxed(r *rd, want string) (*Val, error) {
	id, err := r.u32()
	if err != nil {
		return nil, err
	}
	d, ok := s.ByID[id]
	if !ok {
		return nil, fmt.Errorf("ref: unknown constructor %08x", id)
	}
	if want != "" && d.Result != want && !d.Function {
		return nil, fmt.Errorf("ref: constructor %s is of type %s, want %s", d.Name, d.Result, want)
	}
	return s.decodeBody(r, d)
}

func (s *Schema) decodeBody(r *rd, d *Def) (*Val, error) {
	v := &Val{Def: d, Fields: make([]any, len(d.Params))}
	var flags uint32
	for i, p := range d.Params {
		if p.Type.Kind == "#" {
			f, err := r.u32()
			if err != nil {
				return nil, err
			}
			flags = f
			continue
		}
		if p.Type.Optional && flags&(1<<uint(p.Type.Bit)) == 0 {
			continue
		}
		f, err := s.decodeType(r, p.Type)
		if err != nil {
			return nil, fmt.Errorf("%s.%s: %w", d.Name, p.Name, err)
		}
		v.Fields[i] = f
	}
	return v, nil
}

func (s *Schema) decodeType(r *rd, t Type) (any, error) {
	switch t.Kind {
	case "int":
		u, err := r.u32()
		return int32(u), err
	case "long":
		b, err := r.take(8)
		if err != nil {
			return nil, err
		}
		return int64(binary.LittleEndian.Uint64(b)), nil
	case "double":
		b, err := r.take(8)
		if err != nil {
			return nil, err
		}
		return math.Float64frombits(binary.LittleEndian.Uint64(b)), nil
	case "string", "bytes":
		return r.str()
	case "Bool":
		u, err := r.u32()
		if err != nil {
			return nil, err
		}
		switch u {
		case idTrue:
			return true, nil
		case idFalse:
			return false, nil
		}
		return nil, fmt.Errorf("ref: %08x is not a Bool", u)
	case "true":
		return true, nil
	case "int128":
		b, err := r.take(16)
		return append([]byte{}, b...), err
	case "int256":
		b, err := r.take(32)
		return append([]byte{}, b...), err
	case "vector":
		if !t.BareVec {
			u, err := r.u32()
			if err != nil {
				return nil, err
			}
			if u != idVector {
				return nil, fmt.Errorf("ref: %08x is not the vector id", u)
			}
		}
		n, err := r.u32()
		if err != nil {
			return nil, err
		}
		if int(n) > len(r.b)-r.off { // every element takes at least one byte... (bare true never occurs in vectors)
			return nil, errors.New("ref: vector count exceeds input")
		}
		items := make([]any, 0, n)
		for i := uint32(0); i < n; i++ {
			it, err := s.decodeType(r, *t.Elem)
			if err != nil {
				return nil, err
			}
			items = append(items, it)
		}
		return items, nil
	case "boxed":
		return s.decodeBoxed(r, t.Name)
	case "Object", "!X":
		return s.decodeBoxed(r, "")
	case "bare":
		d := s.BareCtor(t.Name)
		if d == nil {
			return nil, fmt.Errorf("ref: unknown bare constructor %s", t.Name)
		}
		return s.decodeBody(r, d)
	}
	return nil, fmt.Errorf("ref: cannot decode kind %q", t.Kind)
}

func (s *Schema) BareCtor(name string) *Def {
	for k, d := range s.ByName {
		if strings.HasSuffix(k, ":"+name) && len(s.ByName) < 200 { // generated schema: single file
			return d
		}
	}
	for _, f := range []string{"api_latest.tl", "mtproto.tl"} {
		if d, ok := s.ByName[f+":"+name]; ok {
			return d
		}
	}
	return nil
}
