package tls

import "testing"

// Oracle self-check: the canonicalisation reproduces every constructor id written in the shipped schema files.
func TestCanonicalCRC(t *testing.T) {
	s, err := Load()
	if err != nil {
		t.Fatal(err)
	}
	n, bad := 0, 0
	for _, d := range s.Defs {
		if !d.HasID {
			continue
		}
		n++
		if CanonicalCRC(d.Line) != d.ID {
			bad++
			if bad < 10 {
				t.Logf("mismatch %s: written %08x computed %08x", d.Name, d.ID, CanonicalCRC(d.Line))
			}
		}
	}
	t.Logf("%d definitions with ids, %d mismatches; api defs %d (with dormant %d)", n, bad, len(s.API(false)), len(s.API(true)))
	for _, d := range s.Defs {
		if d.HasID && !d.Dormant && CanonicalCRC(d.Line) != d.ID {
			t.Errorf("canonicalisation does not reproduce the id of %s", d.Name)
		}
	}
	if n < 1200 {
		t.Fatalf("only %d definitions parsed", n)
	}
}
